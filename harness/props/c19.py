"""C19 — Layout measurements agree with the geometry they measure."""
from __future__ import annotations

import copy
import itertools
import json
import random
from collections import Counter
from fractions import Fraction
from typing import Any, Dict, Iterable, List, Optional

from harness.core import OUTSIDE, Case, Check, Finding, call, canon, short


def _real():
    import pagexml.model.physical_document_model as pdm
    import pagexml.analysis.layout_stats as ls
    return pdm, ls


# ------------------------------------------------------------------------------------------
# building real objects from JSON inputs
# ------------------------------------------------------------------------------------------

def _text(ms):
    if ms is None:
        return None
    m, s = ms
    return 'x' * (m - s) + ' ' * s if s == 0 or m == s else ('x' * (m - s - 1) + ' ' * s + 'x')


# While a case is run, the objects built from its JSON are kept here (key: kind, JSON, id): the case is evaluated
# several times in a row (see C19.impl) and every evaluation gets the SAME line / region / document objects — the
# measured functions are called on USED objects, after they were called with other arguments.
_MEMO: Optional[Dict[Any, Any]] = None


def _memo(kind, j, oid, build):
    if _MEMO is None:
        return build()
    key = (kind, json.dumps(j, sort_keys=True), oid)
    if key not in _MEMO:
        _MEMO[key] = build()
    return _MEMO[key]


# ------------------------------------------------------------------------------------------
# the rounding of the real interpolation, observed (WAVE 5)
# ------------------------------------------------------------------------------------------
# C19: "interpolated baseline points lie on multiples of the step inside the baseline's x-range with y BETWEEN the
# neighbouring points' y values" — the statement names no rounding rule (truncation, nearest, floor … all lie between
# the neighbours).  The Lean model has that one expression as its parameter `mdt` and every theorem holds for every
# `mdt` (or every `mdt` with MulDivTruncLaws = "between the neighbours").  So while a case runs, every value the
# real `interpolate_points` yields is recorded as a row (k, a, b, r) — sample at x_left + k on a segment with
# a = y_left - y_right, b = x_right - x_left, r = y_left - y — and
#   * every row is checked against the statement's clause (r between 0 and a) and against the other rows (the
#     rounding has to be a FUNCTION of (k, a, b): the shifted-copy and identical-shape clauses need that);
#   * the rows on which r differs from the IEEE truncation int(k * (a / b)) (the model's default instance) are handed
#     to the model as `mdt_table`: the model then computes with the implementation's own rounding, and everything
#     computed FROM the interpolated points (distances, heights, averages, statistics) is still compared EXACTLY.
# On a tree that truncates, the table is empty and nothing changes.

def ieee_trunc(k: int, a: int, b: int) -> Optional[int]:
    try:
        return int(k * (a / b))
    except Exception:  # noqa
        return None


class MdtRecorder:
    MAX_NOTES = 3

    def __init__(self):
        self.rows: Dict[Any, int] = {}
        self.bad: List[Any] = []
        self.conflict: List[Any] = []

    def note(self, p1, p2, xy):
        try:
            (x1, y1), (x2, y2) = p1, p2
            x, y = xy
        except Exception:  # noqa
            return
        if not all(type(v) is int for v in (x1, y1, x2, y2, x, y)) or x1 == x2:
            return          # nothing the model could be told; the outputs themselves are compared anyway
        if x1 > x2:
            x1, y1, x2, y2 = x2, y2, x1, y1
        key = (x - x1, y1 - y2, x2 - x1)
        r = y1 - y
        if key in self.rows:
            if self.rows[key] != r and len(self.conflict) < self.MAX_NOTES:
                self.conflict.append([list(key), self.rows[key], r])
            return
        self.rows[key] = r
        k, a, b = key
        if 0 <= k <= b and not (min(0, a) <= r <= max(0, a)) and len(self.bad) < self.MAX_NOTES:
            self.bad.append([[x1, y1], [x2, y2], [x, y]])

    def wrap(self, orig):
        import inspect
        rec = self

        def points(a, k):
            try:
                vals = list(inspect.signature(orig).bind(*a, **k).arguments.values())
                return vals[0], vals[1]
            except Exception:  # noqa
                return None, None
        if inspect.isgeneratorfunction(orig):
            def interpolate_points(*a, **k):
                p1, p2 = points(a, k)
                for xy in orig(*a, **k):
                    rec.note(p1, p2, xy)
                    yield xy
        else:
            def interpolate_points(*a, **k):
                out = orig(*a, **k)
                if isinstance(out, (list, tuple)):
                    p1, p2 = points(a, k)
                    for xy in out:
                        rec.note(p1, p2, xy)
                return out
        interpolate_points.__wrapped__ = orig
        return interpolate_points

    def summary(self) -> Dict[str, Any]:
        over = [[k, a, b, r] for (k, a, b), r in self.rows.items() if ieee_trunc(k, a, b) != r]
        if not over and not self.bad and not self.conflict:
            return NO_MDT_NOTES
        return {'over': over, 'bad': self.bad, 'conflict': self.conflict}


NO_MDT_NOTES: Dict[str, Any] = {'over': [], 'bad': [], 'conflict': []}


def _case_key(case) -> str:
    import hashlib
    return hashlib.sha256(json.dumps([case.kind, case.input], sort_keys=True).encode()).hexdigest()


def _snap_obj(o) -> Any:
    """deep snapshot of a line / region (id, points, baseline, text, children): the measured functions must not
    change the objects they measure"""
    if isinstance(o, (tuple, list)):
        return [_snap_obj(x) for x in o]
    if not hasattr(o, 'coords'):
        return None
    out = [type(o).__name__, o.id, list(o.coords.points) if o.coords is not None else None]
    if hasattr(o, 'baseline'):
        out.append(list(o.baseline.points) if o.baseline is not None else None)
    if hasattr(o, 'text'):
        out.append(o.text)
    for attr in ('lines', 'text_regions', 'columns'):
        if hasattr(o, attr):
            out.append([_snap_obj(x) for x in getattr(o, attr)])
    return out


def mk_line(j, lid='l'):
    return _memo('line', j, lid, lambda: _mk_line(j, lid))


def _mk_line(j, lid='l'):
    pdm, _ = _real()
    baseline = None if j['baseline'] is None else pdm.Baseline([tuple(p) for p in j['baseline']])
    return pdm.PageXMLTextLine(doc_id=lid, coords=pdm.Coords([tuple(p) for p in j['coords']]),
                               baseline=baseline, text=_text(j['text']))


def mk_region(j, rid='r'):
    return _memo('region', j, rid, lambda: _mk_region(j, rid))


def _mk_region(j, rid='r'):
    pdm, _ = _real()
    lines = [mk_line(l, f'{rid}-l{i}') for i, l in enumerate(j['lines'])]
    subs = [mk_region(s, f'{rid}-r{i}') for i, s in enumerate(j.get('subs', []))]
    md = {}
    if j.get('scan_id') is not None:
        md['scan_id'] = f's{j["scan_id"]}'
    if j.get('column_id') is not None:
        md['column_id'] = f'c{j["column_id"]}'
    return pdm.PageXMLTextRegion(doc_id=rid, coords=pdm.Coords([tuple(p) for p in j['coords']]),
                                 lines=lines, text_regions=subs, metadata=md)


def box_of(pts):
    xs = [p[0] for p in pts]
    ys = [p[1] for p in pts]
    return min(xs), min(ys), max(xs), max(ys)


def rect(x0, y0, x1, y1):
    return [[x0, y0], [x1, y0], [x1, y1], [x0, y1]]


def shift_pts(pts, d):
    return [[p[0], p[1] + d] for p in pts]


def line_json(baseline, asc=30, desc=10, text=(5, 0), coords=None, margin=(0, 0)):
    if coords is None:
        x0, y0, x1, y1 = box_of(baseline)
        coords = rect(x0 - margin[0], y0 - asc, x1 + margin[1], y1 + desc)
    return {'coords': coords, 'baseline': baseline, 'text': None if text is None else list(text)}


def stack_region(st):
    """the regular stack described by `st`: n copies of the baseline shape, each shifted down
    by the leading; common text length m"""
    lines = []
    for i in range(st['n']):
        bl = shift_pts(st['shape'], i * st['delta'])
        # the polygon is wider than the baseline: the widths the property speaks of are baseline widths
        lines.append(line_json(bl, st.get('asc', 30), st.get('desc', 10), (st['m'], 0), margin=(12, 9)))
    allpts = [p for l in lines for p in l['coords']] or [[0, 0]]
    x0, y0, x1, y1 = box_of(allpts)
    return {'coords': rect(x0, y0, x1, y1), 'scan_id': None, 'column_id': None, 'lines': lines, 'subs': []}


def q_of(v) -> List[int]:
    """exact value of a Python / numpy number as [numerator, denominator]"""
    if hasattr(v, 'item'):
        v = v.item()
    f = Fraction(v)
    return [f.numerator, f.denominator]


def q_same(impl_q, model_q) -> bool:
    """float result vs exact rational: equal exactly, or equal after limit_denominator"""
    f = Fraction(impl_q[0], impl_q[1])
    if model_q[1] <= 0:
        return False
    e = Fraction(model_q[0], model_q[1])
    if f == e:
        return True
    return f.limit_denominator(max(1, e.denominator)) == e and abs(f - e) <= Fraction(1, 10 ** 9) * max(1, abs(e))


def okmap(r, f):
    return {'ok': f(r['ok'])} if 'ok' in r else r


def arr(v):
    """numpy array -> list of Python numbers (core.canon would turn a one-element array into a scalar)"""
    if v is None:
        return None
    return [canon(x) for x in (v.tolist() if hasattr(v, 'tolist') else list(v))]


# ------------------------------------------------------------------------------------------
# independent arithmetic used by the oracle (exact rationals, no model, no numpy)
# ------------------------------------------------------------------------------------------

def trunc_frac(f: Fraction) -> int:
    return int(f) if f >= 0 else -int(-f)


def exact_avg_height(pts) -> Optional[int]:
    """mean baseline height: the mean height of every segment weighted by the segment's width,
    truncated; None when the baseline has no width (the mean is undefined)"""
    w = sum(abs(q[0] - p[0]) for p, q in zip(pts, pts[1:]))
    if w == 0:
        return None
    tot = sum(Fraction(p[1] + q[1], 2) * abs(q[0] - p[0]) for p, q in zip(pts, pts[1:]))
    return trunc_frac(tot / w)


def doubles_back(pts) -> bool:
    """the baseline runs neither left-to-right nor right-to-left throughout"""
    return not (all(p[0] <= q[0] for p, q in zip(pts, pts[1:])) or all(p[0] >= q[0] for p, q in zip(pts, pts[1:])))


def median_frac(vals: List[Fraction]) -> Fraction:
    s = sorted(vals)
    n = len(s)
    return s[n // 2] if n % 2 else (s[n // 2 - 1] + s[n // 2]) / 2


def round_half_even(f: Fraction) -> int:
    fl = f.numerator // f.denominator
    r = f - fl
    if r < Fraction(1, 2):
        return fl
    if r > Fraction(1, 2):
        return fl + 1
    return fl if fl % 2 == 0 else fl + 1


_NARROW_STEP = []


def narrow_line_step() -> int:
    """the step get_text_heights switches to for a line not wider than the step passed
    (`if line.baseline.width <= step: step = N`).  The statement fixes the VALUE of every text height (coordinate top
    to baseline), not how densely a narrow line is sampled, so the oracle takes `N` from the source text (the same
    `ast` reader the translator uses, not the Lean model) to know at which x positions samples are due; if the
    statement is no longer there in that shape, the reading of the time of writing (5) is kept."""
    if not _NARROW_STEP:
        try:
            from harness import translate as tr
            n, _ = tr.assigned_literal('pagexml/analysis/layout_stats.py', 'get_text_heights', 'step',
                                       under='line.baseline.width <= step')
            _NARROW_STEP.append(n if isinstance(n, int) and n > 0 else 5)
        except Exception:
            _NARROW_STEP.append(5)
    return _NARROW_STEP[0]


def x_monotone(pts) -> bool:
    return all(p[0] <= q[0] for p, q in zip(pts, pts[1:]))


def range_str(lo, hi):
    return f'{lo}-{hi}' if hi is not None else f'{lo}-'


def width_tie_ranges(w: int, bps: List[int], ranges: List[str]):
    """C19: "Line-width categorisation assigns each line to exactly one range defined by the boundary points" —
    the statement does not say which of the two ranges meeting at a boundary point owns a width lying EXACTLY on
    that point.  For such a width (and for no other) this returns the two candidate owners, taken from the list of
    range labels `ranges` (ranges[j] ends at bps[j], the last one is open): the range under the reading
    (prev, p] — the first range whose end is >= w — and the range under the reading [prev, p) — the first range
    whose end is > w.  For an increasing boundary list these are exactly 'prev-p' and 'p-next'.  None when the
    width is not on a boundary point (exact integer test on the case input): nothing is tolerated then."""
    if w not in bps or len(ranges) != len(bps) + 1:
        return None
    closed_right = next((j for j, p in enumerate(bps) if p >= w), len(bps))
    closed_left = next((j for j, p in enumerate(bps) if p > w), len(bps))
    return {ranges[closed_right], ranges[closed_left]}


def width_counts_reachable(ws: List[int], bps: List[int], ranges: List[str], model_cats: List[str]):
    """every counter the model's counter turns into when each line whose width lies exactly on a boundary point is
    put into either of its two candidate ranges (width_tie_ranges); all other lines stay where the model has them
    and every range keeps its (possibly zero) entry.  Set of frozensets of (label, count)."""
    base = Counter({r: 0 for r in ranges})
    tied = []
    for w, c in zip(ws, model_cats):
        t = width_tie_ranges(w, bps, ranges)
        if t is not None and c in t and len(t) == 2:
            tied.append(sorted(t))
        else:
            base[c] += 1
    states = {frozenset(base.items())}
    for opts in tied:
        nxt = set()
        for s in states:
            for lab in opts:
                d = dict(s)
                d[lab] = d.get(lab, 0) + 1
                nxt.add(frozenset(d.items()))
        states = nxt
    return states


class C19(Check):
    pid = 'C19'
    props_module = 'PagexmlModel.Props.C19'
    anchors = {
        'pagexml/analysis/layout_stats.py': [
            'interpolate_points', 'interpolate_baseline_points', 'compute_points_distances',
            'compute_baseline_distances', 'get_bottom_points', 'compute_bounding_box_distances',
            'average_baseline_height', 'sort_coords_above_below_baseline', 'get_text_heights',
            'compute_height_stats', 'get_line_height_stats', 'get_line_distances',
            'get_textregion_line_distances', 'get_textregion_avg_line_distance',
            'get_textregion_avg_char_width', 'get_textregion_avg_line_width', 'compute_textregion_distance',
            'compute_lines_stats', 'compute_textregions_stats', 'compute_columns_stats', 'compute_pages_stats',
            'compute_scans_stats', 'compute_pagexml_stats', 'categorise_line_width',
            'get_boundary_width_ranges', 'get_line_width_stats'],
        'pagexml/model/physical_document_model.py': ['in_same_column'],
    }
    level_note = (
        'proof (partial). PROVED for every polyline baseline (doubling back in x or not), every step and shift, '
        'every number and magnitude of points, and for EVERY function in place of the float expression '
        'int((x - x1) * ((y1 - y2) / (x2 - x1))): C19_shift, C19_shift_baseline, C19_shift_fallback (copy shifted by '
        'd => every distance is d; the fallback needs a non-vertical segment and y >= 0, both shown necessary), '
        'C19_nonneg_symm (multiset) and C19_symm_monotone (list equality for left-to-right baselines), C19_fallback, '
        'C19_fallback_no_overlap, C19_interp_complete, C19_above_below_lossless, C19_avg_line_distance, '
        'C19_avg_line_distance_narrow, C19_avg_char_width, C19_avg_line_width, C19_width_category, '
        'C19_width_counts, C19_flat_stats; for every function obeying MulDivTruncLaws (|r| <= |a| and '
        'sign(r) = sign(a) for 0 <= k <= b; the exact rational truncation provably obeys them): C19_interp_grid, '
        'C19_interp_in_box, C19_text_height. No theorem is partial any more (the average baseline height is '
        'weighted by the summed segment widths since /repo 6c1407f; the old behaviour is kept as a corpus '
        'regression under key C19:avg-height-doubling-back). The claim stays "partial" because these library facts '
        'are TRUSTED / sampled, not proved: IEEE doubles obey MulDivTruncLaws and Lean Float = CPython float on '
        'the expression (sampled on every run through the real interpolate_points); numpy mean / median equal the '
        'exact rational ones (floats compared through Fraction and limit_denominator); '
        'int(total_avg / total_width) on doubles equals exact truncation (true for |coordinates| < 2^20 and < 2^10 '
        'points: the sum of half-integers is exact below 2^53 and a non-integral N/(2W) is >= 1/(2W) away from every '
        'integer, far more than half an ulp; every real value is compared with an exact Fraction computation); '
        'sorted(lines) / sorted(regions) return a permutation (the model is handed the order the real sort produced). '
        'Histories (wave 4): every case is evaluated on USED objects — for the kinds with an interpolation step all '
        'functions are first called with another step on the same line / point objects, then comes the observed '
        'evaluation (judged and compared as before), then the same evaluation again on the same objects (lines, '
        'regions, documents are built once per case); the second answers must repeat the first and a deep snapshot '
        'of the objects (ids, points, baselines, texts, children) must be unchanged.'
        ' The step with which the line-distance functions reach compute_baseline_distances / '
        'compute_bounding_box_distances (their default, 50), the narrow-line step 5 of get_text_heights, the thresholds '
        'of the is_*_overlapping calls and the divisor of in_same_column are REGENERATED from the source on every run '
        '(translate() -> Generated/C19.lean); the proofs use only C19_consts_line_step_nonzero and '
        'C19_consts_fallback_step_pos about them. Correspondence level: every returned array / average / category is '
        'compared exactly, up to (a) the range of a line whose width lies EXACTLY on a boundary point (either of the two '
        'ranges meeting there, per line and in the get_line_width_stats counter, whose key order is not compared; the '
        'model keeps the code\'s half-open choice, C19_width_category), (b) the order inside the above / below parts of '
        'sort_coords_above_below_baseline, (c) the exception class for an avg_type / unit the statement does not speak '
        'of (rejected-vs-accepted); cases with a step <= 0 or with lines that have no baseline lie outside the '
        'quantifier: differences there are only recorded and the oracle does not judge them; (d) (wave 5) the ROUNDING of an '
        'interpolated y: the statement asks only that it lie between the neighbouring points\' y values, and every '
        'theorem holds for every mdt (with MulDivTruncLaws where needed), so the values the real interpolate_points '
        'yields while a case runs are recorded, each is checked against that clause and against being a function of '
        '(offset, rise, run) — which the shifted-copy clause needs —, and where they differ from the IEEE truncation '
        'they are handed to the model as mdt_table (Drv/C19.lean mdtTable): the model computes with the '
        'implementation\'s own rounding and every distance / height / average / statistic computed from the '
        'interpolated points is still compared exactly. The mdt cases compare the Lean Float instance with CPython '
        'doubles and check the laws on it and on the real value.')
    assumptions = [
        'IEEE-double instance of mulDivTrunc satisfies MulDivTruncLaws and equals CPython on the expression '
        '(sampled on every run, never proved); the rounding of the real interpolate_points is a function of (offset, '
        'rise, run) obeying MulDivTruncLaws (checked on every value it yields during a run, never proved)',
        'numpy mean / median are the exact rational mean / median for pixel-sized integer arrays',
        'average_baseline_height: double arithmetic equals exact rational truncation for |coordinates| < 2^20',
        'Python sorted() is stable and returns a permutation; dict keeps insertion order and a re-assigned key '
        'keeps its position; round() is half-to-even',
        'lines carry no Word children (num_words is len(text.split(" "))); regions carry no tables; the '
        'list-of-lines argument form of compute_baseline_distances is not modelled',
    ]
    nontrivial_rule = ('distinct inputs by canonical JSON; non-trivial = at least one baseline with two or more '
                       'points of different x, or two or more lines / widths')
    _mdt: Dict[str, Dict[str, Any]] = {}      # case key -> MdtRecorder.summary() of the last impl() on that case

    # ---------------------------------------------------------------- constants regenerated from the source
    def translate(self):
        """step sizes, the fall-back step of get_text_heights and the overlap thresholds that the model of
        layout_stats.py depends on, read from the working tree with `ast` on every run"""
        from harness import translate as tr
        ls = 'pagexml/analysis/layout_stats.py'
        dm = 'pagexml/model/pagexml_document_model.py'
        pm = 'pagexml/model/physical_document_model.py'
        E = tr.TranslateError

        def named(fn, callee, pos, n=1):
            a = tr.call_argument(ls, fn, callee, 'step', pos, min_calls=n)
            if a != ('NAME', 'step'):
                raise E(f'{fn}: {callee}(... step) is {a!r}, expected the variable step')
        # `step` travels by name down to interpolate_points
        named('compute_baseline_distances', 'compute_points_distances', 2)
        named('compute_bounding_box_distances', 'compute_points_distances', 2)
        named('compute_points_distances', 'interpolate_baseline_points', 1, 2)
        named('interpolate_baseline_points', 'interpolate_points', 2)
        named('sort_coords_above_below_baseline', 'interpolate_baseline_points', 1)
        named('get_text_heights', 'sort_coords_above_below_baseline', 1)
        named('get_text_heights', 'interpolate_baseline_points', 1, 2)
        named('get_line_height_stats', 'get_text_heights', 1)
        # the callers that do not pass a step: the default of the callee (or the literal they pass) applies
        sites = {fn: tr.as_int(tr.effective_argument(ls, fn, 'compute_baseline_distances', 'step', 2, ls))
                 for fn in ('get_line_distances', 'get_textregion_line_distances', 'compute_textregion_distance',
                            'compute_lines_stats')}
        if len(set(sites.values())) != 1:
            raise E(f'compute_baseline_distances is reached with different steps: {sites} (the model has one)')
        line_step = sites['get_line_distances']
        bbox_step = tr.as_int(tr.effective_argument(ls, 'get_line_distances', 'compute_bounding_box_distances', 'step', 2, ls))
        # get_text_heights: `if line.baseline.width <= step: step = N`
        fallback, _ = tr.assigned_literal(ls, 'get_text_heights', 'step', under='line.baseline.width <= step')
        fallback = tr.as_int(fallback)
        v_thr = tr.effective_argument(ls, 'compute_textregion_distance', 'is_vertically_overlapping', 'threshold', 2, dm)
        h_thr = tr.effective_argument(ls, 'compute_textregions_stats', 'is_horizontally_overlapping', 'threshold', 2, dm)
        same_col = tr.as_int(tr.literal_in(pm, 'in_same_column',
                                           'get_horizontal_overlap(element1, element2) > element1.coords.w / _N0'))
        if same_col <= 0:
            raise E(f'in_same_column divides the width by {same_col}: not a positive integer')
        body = tr.HEADER.format(
            src=f'{ls}: step reaching compute_baseline_distances / compute_bounding_box_distances from the functions '
                f'that pass none, fall-back step of get_text_heights, thresholds of the is_*_overlapping calls; '
                f'{pm}: in_same_column') + (
            'namespace Pagexml.Generated.C19\n\n'
            '/-- step with which get_line_distances, get_textregion_line_distances, compute_textregion_distance and\n'
            '    compute_lines_stats reach compute_baseline_distances (they pass none: its default) -/\n'
            f'def lineDistStep : Int := {tr.lean_int(line_step)}\n\n'
            '/-- step with which get_line_distances reaches compute_bounding_box_distances -/\n'
            f'def bboxDistStep : Int := {tr.lean_int(bbox_step)}\n\n'
            '/-- get_text_heights: `if line.baseline.width <= step: step = N` -/\n'
            f'def textHeightsFallbackStep : Int := {tr.lean_int(fallback)}\n\n'
            '/-- threshold (p, q) with which compute_textregion_distance reaches is_vertically_overlapping -/\n'
            f'def regionVOverlapThr : Int × Int := {tr.lean_ratio(v_thr)}\n\n'
            '/-- threshold (p, q) with which compute_textregions_stats reaches is_horizontally_overlapping -/\n'
            f'def regionHOverlapThr : Int × Int := {tr.lean_ratio(h_thr)}\n\n'
            '/-- in_same_column: `get_horizontal_overlap(e1, e2) > e1.coords.w / N` -/\n'
            f'def sameColumnDivisor : Int := {tr.lean_int(same_col)}\n\n'
            'end Pagexml.Generated.C19\n')
        return {'PagexmlModel/Generated/C19.lean': body}

    # ---------------------------------------------------------------- generators
    @staticmethod
    def _baseline(rng: random.Random, step: int, kind: str = None, big: bool = False) -> List[List[int]]:
        kind = kind or rng.choice(['flat', 'flat', 'slope', 'slope', 'jitter', 'jitter', 'zigzag', 'vertical',
                                   'short', 'rtl'])
        off = rng.choice([0, 0, 1, step - 1, step // 2, rng.randrange(step)])
        x0 = rng.choice([0, step, 3 * step, 7 * step, 20 * step]) + off
        y0 = rng.randint(0, 3000) if not big else rng.randint(0, 10 ** 6)
        width = rng.choice([step - 1, step, step + 1, 2 * step, 3 * step + 7, 10 * step, 500, 1234, 2000])
        if big:      # pixel-sized magnitudes up to 10^6; at most ~1500 samples (the model dict is a list)
            x0 += rng.choice([10 ** 4, 10 ** 6 - 10 ** 5])
            width = step * rng.choice([300, 1500]) + rng.choice([0, 3])
        if kind == 'flat':
            return [[x0, y0], [x0 + width, y0]]
        if kind == 'slope':
            dy = rng.choice([-1, 1]) * rng.choice([1, 2, 7, 49, width, 2 * width, rng.randint(1, 300)])
            return [[x0, y0], [x0 + width, y0 + dy]]
        if kind == 'short':
            w = rng.randint(1, step)
            return [[x0, y0], [x0 + w, y0 + rng.randint(-5, 5)]]
        if kind == 'vertical':
            pts = [[x0, y0], [x0, y0 + rng.randint(-40, 40)]]
            if rng.random() < 0.7:
                pts.append([x0 + width, y0 + rng.randint(-10, 10)])
                if rng.random() < 0.5:
                    pts.append([x0 + width, y0 + rng.randint(-40, 40)])
            return pts
        n = rng.randint(3, 9)
        xs = sorted(rng.sample(range(x0, x0 + max(width, n + 1) + 1), n))
        if rng.random() < 0.4:      # points exactly on the grid, and repeated x
            xs = [x - (x % step) if rng.random() < 0.5 else x for x in xs]
            xs.sort()
        pts = [[x, y0 + rng.randint(-12, 12)] for x in xs]
        if kind == 'zigzag':
            rng.shuffle(pts)
        if kind == 'rtl':
            pts.reverse()
        return pts

    @staticmethod
    def _polygon(rng: random.Random, baseline, asc=None, desc=None) -> List[List[int]]:
        asc = asc if asc is not None else rng.randint(1, 60)
        desc = desc if desc is not None else rng.randint(0, 25)
        x0, y0, x1, y1 = box_of(baseline)
        x0 -= rng.choice([0, 0, 0, 5, 30])       # polygons may stick out beyond the baseline ends
        x1 += rng.choice([0, 0, 0, 7, 25])
        r = rng.random()
        if r < 0.35:
            return rect(x0, y0 - asc, x1, y1 + desc)
        xs = sorted(set([x0, x1] + [rng.randint(x0, x1) for _ in range(rng.randint(0, 6))]))
        jit = rng.choice([0, 3, 15])
        top = [[x, y0 - asc + rng.randint(-jit, jit)] for x in xs]
        bot = [[x, y1 + desc + rng.randint(-jit, jit)] for x in reversed(xs)]
        pts = top + bot
        if r > 0.9:
            dx = rng.choice([-1, 1]) * rng.choice([5, 60, x1 - x0 + 100])
            pts = [[p[0] + dx, p[1]] for p in pts]      # polygon displaced against the baseline
        if r > 0.8 and r <= 0.9:
            rng.shuffle(pts)
        return pts

    def _rand_line(self, rng, step=50, baseline_none=0.0, text_none=0.0):
        bl = self._baseline(rng, step)
        co = self._polygon(rng, bl)
        m = rng.randint(0, 40)
        s = rng.randint(0, min(m, 4)) if m else 0
        return {'coords': co, 'baseline': None if rng.random() < baseline_none else bl,
                'text': None if rng.random() < text_none else [m, s]}

    def _rand_region(self, rng, depth=0, baseline_none=0.0, text_none=0.1, col=None):
        x0 = rng.choice([0, 37, 400, 1200]) if col is None else col
        y = rng.randint(0, 500)
        lines = []
        nl = rng.choice([0, 1, 2, 3, 5]) if depth else rng.choice([1, 2, 3, 6])
        subs = []
        if depth < 2 and rng.random() < (0.45 if depth == 0 else 0.25):
            nl = rng.choice([0, 0, 2])      # lines of a region that has sub-regions are ignored by the code
            for _ in range(rng.randint(1, 3)):
                subs.append(self._rand_region(rng, depth + 1, baseline_none, text_none,
                                              col=x0 if rng.random() < 0.6 else x0 + rng.choice([30, 300, 900])))
        for i in range(nl):
            w = rng.choice([40, 180, 500, 777])
            dy = rng.choice([0, 0, 3, -4])
            bl = [[x0 + rng.choice([0, 0, 13]), y], [x0 + w, y + dy]]
            if rng.random() < 0.3:
                mid = x0 + w // 2
                bl = [bl[0], [mid, y + rng.randint(-6, 6)], bl[1]]
            m = rng.randint(0, 30)
            lines.append({'coords': self._polygon(rng, bl), 'baseline': None if rng.random() < baseline_none else bl,
                          'text': None if rng.random() < text_none else [m, rng.randint(0, min(m, 3))]})
            y += rng.choice([37, 50, 52, 80])
        pts = [p for l in lines for p in l['coords']] + [p for s in subs for p in s['coords']]
        if not pts:
            pts = [[x0, y], [x0 + 100, y + 50]]
        bx0, by0, bx1, by1 = box_of(pts)
        return {'coords': rect(bx0, by0, bx1, by1),
                'scan_id': rng.choice([None, None, 1, 2]), 'column_id': rng.choice([None, None, None, 1, 2]),
                'lines': lines, 'subs': subs}

    def _flat_region(self, rng, x0=None):
        r = self._rand_region(rng, depth=2, text_none=0.1, col=x0)
        r['lines'] = r['lines']
        return {'coords': r['coords'], 'lines': r['lines']}

    def _rand_doc(self, rng):
        t = rng.choice(['scan', 'page', 'column', 'region', 'region', 'line'])
        def regions(k):
            return [self._flat_region(rng, x0=rng.choice([0, 0, 600, 1300])) for _ in range(k)]
        def boxed(rs, extra=None):
            pts = [p for r in rs for p in r['coords']] + (extra or []) or [[0, 0], [10, 10]]
            x0, y0, x1, y1 = box_of(pts)
            return rect(x0, y0, x1 + rng.choice([0, 50]), y1 + rng.choice([0, 80]))
        if t == 'scan':
            rs = regions(rng.randint(0, 4))
            return {'type': 'scan', 'coords': boxed(rs), 'regions': rs}
        if t == 'column':
            rs = regions(rng.randint(0, 3))
            return {'type': 'column', 'coords': boxed(rs), 'regions': rs}
        if t == 'page':
            cols = []
            for _ in range(rng.randint(0, 3)):
                rs = regions(rng.randint(0, 3))
                cols.append({'coords': boxed(rs), 'regions': rs})
            rs = regions(rng.randint(0, 2))
            return {'type': 'page', 'coords': boxed(rs, [p for c in cols for p in c['coords']]),
                    'columns': cols, 'regions': rs}
        if t == 'region':
            r = self._flat_region(rng, x0=rng.choice([0, 0, 600]))
            return dict(r, type='region')
        return dict(self._rand_line(rng), type='line')

    def cases(self, rng: random.Random, tier: str) -> Iterable[Case]:
        out: List[Case] = []
        quick = tier == 'quick'
        steps = [5, 10, 50]

        # ---- corpus: regression inputs ---------------------------------------------------
        out.append(Case('mdt', {'k': 49, 'a': 1, 'b': 49}, ['corpus']))
        out.append(Case('mdt', {'k': 49, 'a': -1, 'b': 49}, ['corpus']))
        for p1, p2, st in [([0, 0], [49, 49], 7), ([49, 49], [0, 0], 7), ([0, 0], [0, 9], 5), ([3, 1], [3, 1], 0),
                           ([0, 0], [10, 10], 0), ([-7, 3], [12, -4], 5), ([-10, 0], [-1, 5], 5),
                           ([0, 0], [100, 10], -5), ([5, 5], [10, 7], 5), ([5, 5], [9, 7], 5), ([4, 4], [6, 9], 5)]:
            out.append(Case('interp_points', {'p1': p1, 'p2': p2, 'step': st}, ['corpus']))
        for pts, st in [([[0, 0], [50, 10], [100, 50]], 50), ([[100, 0], [50, 10], [0, 50]], 50),
                        ([[0, 0], [50, 10], [20, 90], [100, 50]], 10), ([[0, 0]], 5), ([[0, 0], [0, 5]], 5),
                        ([[3, 3], [3, 9], [40, 9]], 0), ([[3, 3], [3, 9]], 0), ([[0, 10], [100, 10], [0, 70]], 10)]:
            out.append(Case('interp_baseline', {'points': pts, 'step': st}, ['corpus']))
        # regression of C19:avg-height-doubling-back (fixed in /repo by 6c1407f): a baseline that doubles back in x
        out.append(Case('shift', {'p1': [[4, 0], [0, 7], [4, 0]], 'd': 1, 'step': 5}, ['corpus', 'regression']))
        out.append(Case('shift', {'p1': [[9, 7], [5, 0], [9, 7]], 'd': 7, 'step': 5}, ['corpus', 'regression']))
        out.append(Case('distances', {'p1': [[4, 0], [0, 7], [4, 0]], 'p2': [[20, 3], [24, 5]], 'step': 50},
                        ['corpus', 'regression']))
        for p1, d, st in [([[10, 100], [510, 100]], 37, 50), ([[3, 100], [40, 100]], 9, 50), ([[7, 7]], 5, 50),
                          ([[7, 7], [7, 30]], 5, 50), ([[0, 0], [49, 49]], 1, 7), ([[12, -9], [40, -8]], 1, 50)]:
            out.append(Case('shift', {'p1': p1, 'd': d, 'step': st}, ['corpus']))
        out.append(Case('distances', {'p1': [[0, 10], [100, 10]], 'p2': [[200, 50], [300, 70]], 'step': 50}, ['corpus']))
        out.append(Case('distances', {'p1': [[0, 10], [100, 10], [0, 70]], 'p2': [[100, 50], [0, 50]], 'step': 10}, ['corpus']))
        out.append(Case('rect', {'x0': 10, 'x1': 510, 'top': 60, 'bottom': 110, 'by': 100, 'step': 50}, ['corpus']))
        out.append(Case('rect', {'x0': 12, 'x1': 14, 'top': 60, 'bottom': 110, 'by': 100, 'step': 50}, ['corpus']))
        out.append(Case('rect', {'x0': 10, 'x1': 510, 'top': 60, 'bottom': 90, 'by': 100, 'step': 50}, ['corpus']))
        out.append(Case('stack', {'shape': [[10, 100], [510, 100]], 'n': 5, 'delta': 37, 'm': 12}, ['corpus']))
        out.append(Case('stack', {'shape': [[3, 100], [40, 101]], 'n': 3, 'delta': 20, 'm': 4}, ['corpus']))
        out.append(Case('width', {'ws': [0, 99, 100, 101, 600, 601], 'bps': [100, 600]}, ['corpus']))
        out.append(Case('width', {'ws': [7], 'bps': [10, 5]}, ['corpus']))
        out.append(Case('width', {'ws': [0, 5], 'bps': [0, 0, 5]}, ['corpus']))
        out.append(Case('height_stats', {'hs': [1, 2]}, ['corpus']))
        out.append(Case('height_stats', {'hs': [2, 3]}, ['corpus']))
        out.append(Case('height_stats', {'hs': [-3, -2]}, ['corpus']))

        # ---- exhaustive small lattice: all baselines of 2 (and sampled 3) lattice points ------
        X, Y = [0, 4, 5, 9, 10, 11], [0, 3, 7]
        lattice = [[x, y] for x in X for y in Y]
        for p, q in itertools.product(lattice, repeat=2):
            out.append(Case('interp_baseline', {'points': [p, q], 'step': 5}, ['lattice']))
        trip = list(itertools.product(lattice, repeat=3))
        for p, q, r in (rng.sample(trip, 300) if quick else trip):
            out.append(Case('shift', {'p1': [p, q, r], 'd': rng.choice([0, 1, 7]), 'step': 5}, ['lattice']))
        for k, a, b in itertools.product(range(0, 13), range(-6, 7), range(1, 13)):
            if 1 <= k <= b and (not quick or (k + a + b) % 3 == 0):
                out.append(Case('mdt', {'k': k, 'a': a, 'b': b}, ['lattice']))

        n = 150 if quick else 3000
        # ---- the float expression through the real interpolate_points ----------------------------
        for _ in range(n):
            b = rng.choice([rng.randint(1, 60), rng.randint(1, 3000), rng.randint(1, 10 ** 6)])
            k = rng.randint(1, b)
            a = rng.choice([-1, 1]) * rng.choice([rng.randint(0, 60), rng.randint(0, 3000), b, 2 * b, k,
                                                  rng.randint(0, 10 ** 6)])
            out.append(Case('mdt', {'k': k, 'a': a, 'b': b}, ['random']))
        # ---- single segments and baselines ---------------------------------------------------------
        for _ in range(n):
            st = rng.choice(steps)
            bl = self._baseline(rng, st, rng.choice(['flat', 'slope', 'slope', 'short']), big=rng.random() < 0.1)
            p1, p2 = bl[0], bl[-1]
            if rng.random() < 0.5:
                p1, p2 = p2, p1
            out.append(Case('interp_points', {'p1': p1, 'p2': p2, 'step': st}, ['random']))
        for _ in range(2 * n):
            st = rng.choice(steps)
            out.append(Case('interp_baseline', {'points': self._baseline(rng, st, big=rng.random() < 0.05), 'step': st},
                            ['random']))
        # ---- shift by d ---------------------------------------------------------------------------------
        for _ in range(2 * n):
            st = rng.choice(steps)
            d = rng.choice([0, 1, 2, 7, 37, 50, 199, 200, rng.randint(0, 200)])
            out.append(Case('shift', {'p1': self._baseline(rng, st, big=rng.random() < 0.05), 'd': d, 'step': st},
                            ['random']))
        # ---- two unrelated baselines: non-negativity, symmetry, fallback ---------------------------------
        for _ in range(2 * n):
            st = rng.choice(steps)
            p1 = self._baseline(rng, st)
            p2 = self._baseline(rng, st)
            r = rng.random()
            if r < 0.25:       # no horizontal overlap
                dx = box_of(p1)[2] - box_of(p2)[0] + rng.choice([1, 7, 300])
                p2 = [[p[0] + dx, p[1]] for p in p2]
            elif r < 0.5:      # same x-range, other shape
                p2 = [[p[0], p[1] + rng.randint(-30, 60)] for p in p1]
            out.append(Case('distances', {'p1': p1, 'p2': p2, 'step': st}, ['random']))
        # ---- above / below, text heights ------------------------------------------------------------------
        for _ in range(n):
            st = rng.choice(steps)
            x0 = rng.choice([0, 10, 49, 50, 51, 333])
            w = rng.choice([1, 4, 5, 6, 49, 50, 51, 500, 1200])
            top = rng.randint(0, 500)
            by = top + rng.randint(1, 60)
            bottom = by + rng.randint(0, 20)
            out.append(Case('rect', {'x0': x0, 'x1': x0 + w, 'top': top, 'bottom': bottom, 'by': by, 'step': st},
                            ['random']))
        for _ in range(2 * n):
            st = rng.choice(steps)
            bl = self._baseline(rng, st)
            out.append(Case('line', {'coords': self._polygon(rng, bl), 'baseline': bl, 'step': st}, ['random']))
        for _ in range(n // 2):
            k = rng.randint(1, 9)
            hs = [rng.randint(-5, 60) for _ in range(k)]
            out.append(Case('height_stats', {'hs': hs}, ['random']))
        # ---- regular stacks ----------------------------------------------------------------------------------
        for _ in range(n):
            shape = self._baseline(rng, 50, rng.choice(['flat', 'flat', 'slope', 'jitter', 'short', 'rtl']))
            ymin = min(p[1] for p in shape)
            if ymin < 0:
                shape = shift_pts(shape, -ymin)
            out.append(Case('stack', {'shape': shape, 'n': rng.choice([1, 2, 2, 3, 4, 5, 8]),
                                      'delta': rng.choice([0, 1, 20, 37, 50, 61, 200, rng.randint(0, 200)]),
                                      'm': rng.randint(1, 60)}, ['random']))
        # ---- general regions, region pairs, line lists ----------------------------------------------------------
        for _ in range(n):
            out.append(Case('region', {'region': self._rand_region(rng, baseline_none=rng.choice([0, 0, 0, 0.15])),
                                       'avg_type': rng.choice(['macro', 'micro', 'median', '']),
                                       'unit': rng.choice(['char', 'pixel', 'px'])}, ['random']))
        for _ in range(n // 2):
            r1 = self._rand_region(rng, depth=2)
            r2 = self._rand_region(rng, depth=2, col=rng.choice([None, box_of(r1['coords'])[0]]))
            if rng.random() < 0.6:    # put r2 below / above r1
                dy = box_of(r1['coords'])[3] - box_of(r2['coords'])[1] + rng.choice([-30, 0, 1, 40, 300])
                dy = dy if rng.random() < 0.7 else -dy
                r2 = self._move_region(r2, 0, dy)
            out.append(Case('region_pair', {'r1': r1, 'r2': r2}, ['random']))
        for _ in range(n // 2):
            k = rng.randint(0, 5)
            bn = rng.choice([0, 0, 0.3])
            out.append(Case('line_distances', {'lines': [self._rand_line(rng, 50, baseline_none=bn) for _ in range(k)]},
                            ['random']))
        # ---- width categories --------------------------------------------------------------------------------------
        for _ in range(n):
            k = rng.randint(0, 5)
            r = rng.random()
            if r < 0.6:
                bps = sorted(rng.sample(range(0, 2000), k))
            elif r < 0.8:
                bps = sorted(rng.choice([0, 50, 100, 100, 400]) for _ in range(k))
            else:
                bps = [rng.randint(-50, 900) for _ in range(k)]
            ws = [rng.choice(bps + [0]) + rng.choice([-1, 0, 1]) if rng.random() < 0.5 else rng.randint(0, 2100)
                  for _ in range(rng.randint(0, 8))]
            ws = [max(0, w) for w in ws]
            out.append(Case('width', {'ws': ws, 'bps': bps}, ['random']))
        # ---- statistics of flat documents -----------------------------------------------------------------------------
        for _ in range(n // 3):
            docs = [self._rand_doc(rng) for _ in range(rng.randint(1, 4))]
            out.append(Case('stats', {'docs': docs}, ['random']))
        # ---- malformed stream -------------------------------------------------------------------------------------------
        for _ in range(n // 3):
            st = rng.choice([0, 0, -5, -50, 1, 2])
            bl = self._baseline(rng, 50)
            if rng.random() < 0.5:
                bl = [[p[0] - rng.choice([0, 700, 5000]), p[1] - rng.choice([0, 4000])] for p in bl]
            kind = rng.choice(['interp_baseline', 'shift', 'interp_points', 'distances'])
            if kind == 'interp_baseline':
                out.append(Case(kind, {'points': bl, 'step': st}, ['malformed']))
            elif kind == 'shift':
                out.append(Case(kind, {'p1': bl, 'd': rng.randint(0, 50), 'step': rng.choice([st, 50])}, ['malformed']))
            elif kind == 'interp_points':
                out.append(Case(kind, {'p1': bl[0], 'p2': bl[-1], 'step': st}, ['malformed']))
            else:
                out.append(Case(kind, {'p1': bl, 'p2': [bl[0]], 'step': rng.choice([st, 50])}, ['malformed']))
        for c in out:
            if self.outside(c.kind, c.input) and OUTSIDE not in c.tags:
                c.tags.append(OUTSIDE)
        return out

    @staticmethod
    def outside(kind: str, i: Any) -> bool:
        """inputs outside the quantifier of C19 — "all lines with polygon coordinates and piecewise-linear baselines
        …, interpolation steps 5/10/50, …": (1) a step that is not positive ("multiples of the step" says nothing
        for 0 or a negative step; positive steps other than 5/10/50 stay inside, the theorems and the oracle hold for
        them); (2) regions / line lists containing a line WITHOUT a baseline (the bounding-box fall-back of
        get_line_distances and the exceptions of the region functions on such lines are mirrored by the model, but no
        clause of the statement speaks of them).  The model is still run on these cases; a difference is recorded in
        the evidence (core.OUTSIDE), and the oracle does not judge them."""
        if isinstance(i, dict) and isinstance(i.get('step'), int) and i['step'] <= 0:
            return True

        def no_baseline(r):
            return any(l['baseline'] is None for l in r['lines']) or any(no_baseline(s) for s in r.get('subs', []))
        if kind == 'region':
            return no_baseline(i['region'])
        if kind == 'line_distances':
            return any(l['baseline'] is None for l in i['lines'])
        return False

    @staticmethod
    def _move_region(r, dx, dy):
        r = copy.deepcopy(r)

        def mv(pts):
            return [[p[0] + dx, p[1] + dy] for p in pts]
        r['coords'] = mv(r['coords'])
        for l in r['lines']:
            l['coords'] = mv(l['coords'])
            if l['baseline'] is not None:
                l['baseline'] = mv(l['baseline'])
        r['subs'] = [C19._move_region(s, dx, dy) for s in r.get('subs', [])]
        return r

    # ---------------------------------------------------------------- derived inputs
    @staticmethod
    def _rect_line(i):
        return {'coords': rect(i['x0'], i['top'], i['x1'], i['bottom']),
                'baseline': [[i['x0'], i['by']], [i['x1'], i['by']]], 'text': [3, 0]}

    # ---------------------------------------------------------------- implementation
    def _impl_distances(self, p1, p2, step):
        pdm, ls = _real()
        l1 = mk_line(line_json(p1), 'a')
        l2 = mk_line(line_json(p2), 'b')
        t1 = [tuple(p) for p in p1]
        t2 = [tuple(p) for p in p2]
        return {
            'points': call(lambda: arr(ls.compute_points_distances(t1, t2, step=step))),
            'baseline': call(lambda: arr(ls.compute_baseline_distances(l1, l2, step=step))),
            'points_rev': call(lambda: arr(ls.compute_points_distances(t2, t1, step=step))),
            'baseline_rev': call(lambda: arr(ls.compute_baseline_distances(l2, l1, step=step))),
            'avg1': call(lambda: canon(ls.average_baseline_height(l1))),
            'avg2': call(lambda: canon(ls.average_baseline_height(l2))),
            'interp1': call(lambda: [list(kv) for kv in ls.interpolate_baseline_points(t1, step=step).items()]),
            'interp2': call(lambda: [list(kv) for kv in ls.interpolate_baseline_points(t2, step=step).items()]),
        }

    def _impl_line(self, lj, step):
        pdm, ls = _real()
        line = mk_line(lj)

        def ab():
            a, b = ls.sort_coords_above_below_baseline(line, step=step)
            return [[list(p) for p in a], [list(p) for p in b]]
        return {
            'above_below': call(ab),
            'heights': call(lambda: arr(ls.get_text_heights(line, step=step))),
            'height_stats': call(lambda: canon(ls.get_line_height_stats(line, step=step))),
            'interp': call(lambda: [list(kv) for kv in ls.interpolate_baseline_points(
                line.baseline.points, step=step).items()]),
        }

    def _impl_region(self, rj, avg_type, unit):
        pdm, ls = _real()
        r = mk_region(rj)
        return {
            'line_distances': call(lambda: [arr(d) for d in ls.get_textregion_line_distances(r)]),
            'macro': call(lambda: q_of(ls.get_textregion_avg_line_distance(r, avg_type='macro'))),
            'micro': call(lambda: q_of(ls.get_textregion_avg_line_distance(r, avg_type='micro'))),
            'avg_other': call(lambda: q_of(ls.get_textregion_avg_line_distance(r, avg_type=avg_type))),
            'char_width': call(lambda: q_of(ls.get_textregion_avg_char_width(r))),
            'line_width_char': call(lambda: q_of(ls.get_textregion_avg_line_width(r, unit='char'))),
            'line_width_pixel': call(lambda: q_of(ls.get_textregion_avg_line_width(r, unit='pixel'))),
            'line_width_other': call(lambda: q_of(ls.get_textregion_avg_line_width(r, unit=unit))),
            'num_inner': len(r.get_inner_text_regions()),
        }

    @staticmethod
    def _build_docs(docs):
        """real documents plus the JSON handed to the model (with the orders the real sorted() gives)"""
        return _memo('docs', docs, None, lambda: C19._build_docs_fresh(docs))

    @staticmethod
    def _build_docs_fresh(docs):
        pdm, ls = _real()
        real, mj = [], []
        counter = itertools.count()

        def flat_region(rj):
            i = next(counter)
            lines = [mk_line(l, f'r{i}-l{k}') for k, l in enumerate(rj['lines'])]
            obj = pdm.PageXMLTextRegion(doc_id=f'r{i}', coords=pdm.Coords([tuple(p) for p in rj['coords']]),
                                        lines=lines)
            order = {id(l): k for k, l in enumerate(lines)}
            sl = [rj['lines'][order[id(l)]] for l in sorted(lines)]
            return obj, {'coords': rj['coords'], 'lines': rj['lines'], 'sorted_lines': sl}

        def region_list(rjs):
            pairs = [flat_region(r) for r in rjs]
            objs = [p[0] for p in pairs]
            order = {id(o): k for k, o in enumerate(objs)}
            srt = [pairs[order[id(o)]][1] for o in sorted(objs)]
            return objs, [p[1] for p in pairs], srt

        top_regions, top_lines = [], []
        for d in docs:
            i = next(counter)
            co = pdm.Coords([tuple(p) for p in d['coords']])
            if d['type'] == 'scan':
                objs, js, srt = region_list(d['regions'])
                real.append(pdm.PageXMLScan(doc_id=f's{i}', coords=co, text_regions=objs))
                mj.append({'type': 'scan', 'coords': d['coords'], 'regions': js, 'sorted_regions': srt})
            elif d['type'] == 'column':
                objs, js, srt = region_list(d['regions'])
                real.append(pdm.PageXMLColumn(doc_id=f'c{i}', coords=co, text_regions=objs))
                mj.append({'type': 'column', 'coords': d['coords'], 'regions': js, 'sorted_regions': srt})
            elif d['type'] == 'page':
                cols, cjs = [], []
                for c in d['columns']:
                    objs, js, srt = region_list(c['regions'])
                    cols.append(pdm.PageXMLColumn(doc_id=f'c{next(counter)}',
                                                  coords=pdm.Coords([tuple(p) for p in c['coords']]),
                                                  text_regions=objs))
                    cjs.append({'coords': c['coords'], 'regions': js, 'sorted_regions': srt})
                objs, js, srt = region_list(d['regions'])
                real.append(pdm.PageXMLPage(doc_id=f'p{i}', coords=co, columns=cols, text_regions=objs))
                mj.append({'type': 'page', 'coords': d['coords'], 'columns': cjs, 'regions': js,
                           'sorted_regions': srt})
            elif d['type'] == 'region':
                obj, j = flat_region(d)
                real.append(obj)
                top_regions.append((obj, j))
                mj.append(dict(j, type='region'))
            else:
                obj = mk_line(d, f'l{i}')
                real.append(obj)
                top_lines.append((obj, {k: d[k] for k in ('coords', 'baseline', 'text')}))
                mj.append(dict(top_lines[-1][1], type='line'))
        tr_order = {id(o): k for k, (o, _) in enumerate(top_regions)}
        srt_regions = [top_regions[tr_order[id(o)]][1] for o in sorted(o for o, _ in top_regions)]
        tl_order = {id(o): k for k, (o, _) in enumerate(top_lines)}
        srt_lines = [top_lines[tl_order[id(o)]][1] for o in sorted(o for o, _ in top_lines)]
        return real, {'docs': mj, 'sorted_top_regions': srt_regions, 'sorted_top_lines': srt_lines}

    @staticmethod
    def _events(stats) -> List[Any]:
        evs = []
        for t in stats:
            for f in stats[t]:
                for v, c in stats[t][f].items():
                    evs.extend([[t, f, q_of(v)]] * c)
        return sorted(evs)

    def impl(self, case: Case) -> Any:
        """the case evaluated on USED objects: (0) for the kinds with an interpolation step, every function is first
        called with ANOTHER step on the same objects (unobserved); (1) the observed evaluation — judged by the oracle
        and compared with the model as before; (2) the same evaluation a second time on the same objects.  (2) must
        repeat (1) and the objects must be unchanged; only if not, the outcome carries a `_hist` entry."""
        global _MEMO
        _MEMO = {}
        _, ls = _real()
        rec = MdtRecorder()
        orig = getattr(ls, 'interpolate_points', None)
        try:
            if callable(orig):
                ls.interpolate_points = rec.wrap(orig)
            i = case.input
            if isinstance(i, dict) and isinstance(i.get('step'), int) and case.kind != 'mdt':
                other = 10 if i['step'] != 10 else 50
                try:
                    self._impl_once(Case(case.kind, dict(i, step=other), case.tags))
                except Exception:       # noqa — unobserved warm-up call
                    pass
            first = self._impl_once(case)
            snap = {key: _snap_obj(o) for key, o in _MEMO.items()}
            second = self._impl_once(case)
            hist = {}
            if json.dumps(canon(second), sort_keys=True) != json.dumps(canon(first), sort_keys=True):
                hist['second'] = second
            changed = [f'{key[0]} {key[2]}' for key, o in _MEMO.items() if key in snap and _snap_obj(o) != snap[key]]
            if changed:
                hist['mutated'] = changed
            if hist and isinstance(first, dict):
                first = dict(first, _hist=hist)
            return first
        finally:
            _MEMO = None
            if callable(orig):
                ls.interpolate_points = orig
            self._mdt[_case_key(case)] = rec.summary()

    def _mdt_notes(self, case: Case) -> Dict[str, Any]:
        """what the recorder saw while impl(case) ran (impl is run now if it was not run on this case before)"""
        key = _case_key(case)
        if key not in self._mdt:
            self.impl(case)
        return self._mdt.get(key, NO_MDT_NOTES)

    def _impl_once(self, case: Case) -> Any:
        pdm, ls = _real()
        i = case.input
        k = case.kind
        if k == 'mdt':
            # the float expression, observed through the real interpolate_points:
            # p1 = (0, 0), p2 = (b, -a), step = k  ->  first point is (k, -int(k * (a / b)))
            def f():
                x, y = next(iter(ls.interpolate_points((0, 0), (i['b'], -i['a']), step=i['k'])))
                assert x == i['k']
                return -y
            return call(f)
        if k == 'interp_points':
            return call(lambda: [list(p) for p in ls.interpolate_points(tuple(i['p1']), tuple(i['p2']), step=i['step'])])
        if k == 'interp_baseline':
            return call(lambda: [list(kv) for kv in ls.interpolate_baseline_points(
                [tuple(p) for p in i['points']], step=i['step']).items()])
        if k == 'shift':
            return self._impl_distances(i['p1'], shift_pts(i['p1'], i['d']), i['step'])
        if k == 'distances':
            return self._impl_distances(i['p1'], i['p2'], i['step'])
        if k == 'rect':
            return self._impl_line(self._rect_line(i), i['step'])
        if k == 'line':
            return self._impl_line({'coords': i['coords'], 'baseline': i['baseline'], 'text': [3, 0]}, i['step'])
        if k == 'height_stats':
            import numpy as np
            return call(lambda: canon(ls.compute_height_stats(np.array(i['hs']))))
        if k == 'stack':
            return self._impl_region(stack_region(i), 'macro', 'char')
        if k == 'region':
            return self._impl_region(i['region'], i['avg_type'], i['unit'])
        if k == 'region_pair':
            r1, r2 = mk_region(i['r1'], 'r1'), mk_region(i['r2'], 'r2')
            return {'distance': call(lambda: q_of(ls.compute_textregion_distance(r1, r2))),
                    'same_column': call(lambda: bool(pdm.in_same_column(r1, r2)))}
        if k == 'line_distances':
            lines = [mk_line(l, f'l{n}') for n, l in enumerate(i['lines'])]
            return call(lambda: [arr(d) for d in ls.get_line_distances(lines)])
        if k == 'width':
            lines = [mk_line({'coords': rect(5, 5, 5 + w, 40), 'baseline': None, 'text': None}, f'l{n}')
                     for n, w in enumerate(i['ws'])]
            return {'categories': [ls.categorise_line_width(l, i['bps']) for l in lines],
                    'ranges': ls.get_boundary_width_ranges(i['bps']),
                    'stats': [[key, c] for key, c in ls.get_line_width_stats(lines, i['bps']).items()]}
        if k == 'stats':
            def f():
                real, _ = self._build_docs(i['docs'])
                return self._events(ls.compute_pagexml_stats(real))
            return call(f)
        raise ValueError(k)

    # ---------------------------------------------------------------- model
    def requests(self, case: Case):
        i = case.input
        k = case.kind

        over = self._mdt_notes(case)['over'] if k != 'mdt' else []

        def rq(op, args):
            if over:
                args = dict(args, mdt_table=over)
            return [{'p': 'C19', 'op': op, 'args': args}]
        if k == 'mdt':
            return rq('mdt', i)
        if k == 'interp_points':
            return rq('interp_points', i)
        if k == 'interp_baseline':
            return rq('interp_baseline', i)
        if k == 'shift':
            return rq('distances', {'p1': i['p1'], 'p2': shift_pts(i['p1'], i['d']), 'step': i['step']})
        if k == 'distances':
            return rq('distances', i)
        if k == 'rect':
            l = self._rect_line(i)
            return rq('line', {'coords': l['coords'], 'baseline': l['baseline'], 'step': i['step']})
        if k == 'line':
            return rq('line', i)
        if k == 'height_stats':
            return rq('height_stats', i)
        if k == 'stack':
            return rq('region', {'region': stack_region(i), 'avg_type': 'macro', 'unit': 'char'})
        if k == 'region':
            return rq('region', i)
        if k == 'region_pair':
            return rq('region_pair', i)
        if k == 'line_distances':
            return rq('line_distances', i)
        if k == 'width':
            return rq('width', i)
        if k == 'stats':
            try:
                _, mj = self._build_docs(i['docs'])
            except Exception:  # noqa  (the real sorted() raised: nothing to hand to the model)
                return []
            return rq('stats', mj)
        return []

    Q_KEYS = {'macro', 'micro', 'avg_other', 'char_width', 'line_width_char', 'line_width_pixel',
              'line_width_other', 'distance'}

    def compare(self, case, impl_out, model_out):
        if not model_out:
            return None
        m = model_out[0]
        k = case.kind
        notes = self._mdt.get(_case_key(case), NO_MDT_NOTES)
        if notes['bad']:
            p, q, xy = notes['bad'][0]
            return (f'interpolate_points: sample {xy} between {p} and {q} is not between the neighbouring points\' y '
                    f'values (MulDivTruncLaws broken by the implementation)')
        if notes['conflict']:
            key, r1, r2 = notes['conflict'][0]
            return (f'interpolate_points: offset/rise/run {key} gave {r1} and {r2} within one case — the rounding is '
                    f'no function of the segment shape (the model cannot follow it)')
        if k == 'mdt':
            # (1) the model's default instance (Lean Float) against CPython's own doubles on the expression — the
            # sampled assumption behind every request that carries no table; (2) the laws the theorems assume, on
            # the IEEE instance and on the value the REAL interpolate_points produced.  The real value itself is
            # not demanded to be the truncation: the statement fixes "between the neighbours" only.
            kk, a, b = case.input['k'], case.input['a'], case.input['b']
            r = m.get('ok')
            if r is None or r != ieee_trunc(kk, a, b):
                return f'Lean Float instance differs from CPython doubles: mdt({case.input}) = {m}, int(k * (a / b)) = {ieee_trunc(kk, a, b)}'
            if abs(r) > abs(a) or (a >= 0 and r < 0) or (a <= 0 and r > 0):
                return f'IEEE instance breaks MulDivTruncLaws: mdt({case.input}) = {r}'
            ri = impl_out.get('ok') if isinstance(impl_out, dict) else None
            if type(ri) is not int or not (min(0, a) <= ri <= max(0, a)):
                return (f'impl={impl_out} model={m}: the real interpolate_points is not between the neighbours '
                        f'(0 and {a}) for {case.input}')
            return None
        if k in ('interp_points', 'interp_baseline', 'height_stats', 'line_distances'):
            return None if impl_out == m else f'impl={impl_out} model={m}'
        if k == 'stats':
            if 'ok' in impl_out and 'ok' in m:
                m = {'ok': sorted([e[0], e[1], q_of(Fraction(e[2][0], e[2][1]))] for e in m['ok'])}
                return None if impl_out['ok'] == m['ok'] else \
                    f'events differ: impl-only={[e for e in impl_out["ok"] if e not in m["ok"]][:5]} ' \
                    f'model-only={[e for e in m["ok"] if e not in impl_out["ok"]][:5]}'
            return None if impl_out == m else f'impl={impl_out} model={m}'
        if 'ok' not in m:
            return f'model answered {m}'
        mo = m['ok']
        if k == 'width':
            return self._cmp_width(case.input, impl_out, mo)
        for key, iv in impl_out.items():
            if key == 'interp' and key not in mo:
                continue
            mv = mo.get(key)
            if key in self.Q_KEYS and isinstance(iv, dict) and 'ok' in iv and isinstance(mv, dict) and 'ok' in mv:
                if not q_same(iv['ok'], mv['ok']):
                    return f'{key}: impl={iv} model={mv}'
            elif k == 'region' and key in self.INVALID_ARG and \
                    case.input.get(self.INVALID_ARG[key][0]) not in self.INVALID_ARG[key][1]:
                # the statement speaks of the macro and micro average and of widths in pixels / characters; for any
                # other avg_type / unit it neither asks for a value nor for a particular exception: model and code
                # are compared on rejected-vs-accepted (and on the value when both accept), not on the class
                if isinstance(iv, dict) and 'err' in iv and isinstance(mv, dict) and 'err' in mv:
                    continue
                if iv != mv:
                    return f'{key}: impl={iv} model={mv}'
            elif key == 'above_below' and isinstance(iv, dict) and 'ok' in iv and isinstance(mv, dict) and 'ok' in mv:
                # "the coordinate points are split into above and below the baseline without loss": which points are
                # above and which below is compared exactly, the order inside the two parts is not part of the statement
                if [sorted(part) for part in iv['ok']] != [sorted(part) for part in mv['ok']]:
                    return f'{key}: impl={iv} model={mv}'
            elif iv != mv:
                return f'{key}: impl={iv} model={mv}'
        return None

    # key of the region outcome -> (input field holding the argument, the values the statement speaks of)
    INVALID_ARG = {'avg_other': ('avg_type', ('macro', 'micro')), 'line_width_other': ('unit', ('char', 'pixel'))}

    @staticmethod
    def _cmp_width(i, io, mo):
        """width categories: everything exact except the tie the statement leaves open — a width lying exactly on a
        boundary point may be in either of the two ranges meeting there (width_tie_ranges); the list of range
        labels, the label of every other width, the keys of the counter (zero entries included) and every count
        not touched by a tied line are compared exactly"""
        ws, bps = i['ws'], i['bps']
        ranges = mo.get('ranges')
        if io['ranges'] != ranges:
            return f'ranges: impl={io["ranges"]} model={ranges}'
        ic, mc = io['categories'], mo.get('categories')
        if not isinstance(mc, list) or len(ic) != len(mc) or len(mc) != len(ws):
            return f'categories: impl={ic} model={mc}'
        for w, a, b in zip(ws, ic, mc):
            if a != b:
                t = width_tie_ranges(w, bps, ranges)
                if t is None or a not in t or b not in t:
                    return (f'categories: width {w} (boundary points {bps}): impl={a} model={b}'
                            + (f'; the width is on a boundary point, its candidate ranges are {sorted(t)}' if t else ''))
        # get_line_width_stats returns a Counter (a mapping: the order of its keys is not part of the statement)
        ist, mst = io['stats'], mo.get('stats')
        di, dm = {a: b for a, b in ist}, {a: b for a, b in (mst or [])}
        if len(di) != len(ist) or not isinstance(mst, list) or len(dm) != len(mst) or set(di) != set(dm):
            return f'stats: keys differ: impl={ist} model={mst}'
        reach = width_counts_reachable(ws, bps, ranges, mc)
        if frozenset(dm.items()) not in reach:
            return f'stats: model counter {mst} does not count the model categories {mc}'
        if frozenset(di.items()) not in reach:
            return (f'stats: impl={ist} model={mst}: not the model counter with lines whose width is on a boundary '
                    f'point moved between the two ranges meeting there (widths {ws}, boundary points {bps})')
        return None

    # ---------------------------------------------------------------- oracle
    def oracle(self, case: Case, out: Any) -> List[Finding]:
        fs: List[Finding] = []
        i = case.input
        k = case.kind
        if self.outside(k, i):
            return fs          # outside the quantifier (see outside()): not judged

        def bad(key, what):
            fs.append(Finding(f'C19:{key}', what, case, out))

        # histories: the same measurement taken a second time on the same objects (after calls with another step)
        # must repeat the first, and the measured objects must be unchanged
        h = out.get('_hist') if isinstance(out, dict) else None
        if h:
            if 'second' in h:
                first = {a: b for a, b in out.items() if a != '_hist'}
                sec = h['second']
                names = [a for a in first if not isinstance(sec, dict) or sec.get(a) != first[a]]
                bad(f'not-repeatable:{k}', f'measured a second time on the same objects: {names} differ: '
                                           f'{short({a: first[a] for a in names}, 300)} -> '
                                           f'{short({a: (sec.get(a) if isinstance(sec, dict) else sec) for a in names}, 300)}')
            if 'mutated' in h:
                bad(f'input-mutated:{k}', f'the measured objects were changed by measuring them: {h["mutated"]}')

        def grid(points, step, items, key):
            """interpolated points lie on multiples of the step inside the x-range, y between neighbours"""
            segs = [(p, q) for p, q in zip(points, points[1:]) if p[0] != q[0]]
            xs = [x for x, _ in items]
            if len(set(xs)) != len(xs):
                bad(f'{key}:duplicate-x', f'interpolated x repeated: {xs}')
            for x, y in items:
                if step > 0 and x % step != 0:
                    bad(f'{key}:off-grid', f'interpolated x={x} is no multiple of step {step}')
                    return
                ok = any(min(p[0], q[0]) <= x <= max(p[0], q[0]) and min(p[1], q[1]) <= y <= max(p[1], q[1])
                         for p, q in segs)
                if not ok:
                    inx = any(min(p[0], q[0]) <= x <= max(p[0], q[0]) for p, q in segs)
                    bad(f'{key}:{"y-outside-neighbours" if inx else "x-outside-range"}',
                        f'interpolated point ({x},{y}) not between neighbouring baseline points of {points}')
                    return

        if k == 'mdt':
            # the first sample of the segment (0, 0) – (b, -a) with step k: the same clause as for interp_points
            if 'ok' in out and type(out['ok']) is int:
                grid([[0, 0], [i['b'], -i['a']]], i['k'], [[i['k'], -out['ok']]], 'segment')
        elif k == 'interp_points':
            if 'ok' in out and i['step'] > 0:
                grid([i['p1'], i['p2']], i['step'], out['ok'], 'segment')
                # every multiple of the step strictly right of the left end, up to the right end, is sampled
                lo, hi = sorted([i['p1'][0], i['p2'][0]])
                want = [x for x in range(lo + 1, hi + 1) if x % i['step'] == 0] if hi - lo < 5000 else None
                if want is not None and lo != hi and [x for x, _ in out['ok']] != want:
                    bad('segment:samples', f'sample x values {[x for x, _ in out["ok"]][:8]}… expected {want[:8]}…')
            elif 'err' in out and i['step'] > 0:
                bad('segment:raises', f'interpolate_points raised {out["err"]} for a positive step')
        elif k == 'interp_baseline':
            if 'ok' in out and i['step'] > 0:
                grid(i['points'], i['step'], out['ok'], 'baseline')
            elif 'err' in out and i['step'] > 0:
                bad('baseline:raises', f'interpolate_baseline_points raised {out["err"]} for a positive step')
        elif k in ('shift', 'distances'):
            p1 = i['p1']
            p2 = shift_pts(p1, i['d']) if k == 'shift' else i['p2']
            step = i['step']
            if step <= 0:
                return fs
            for key in ('points', 'baseline', 'points_rev', 'baseline_rev'):
                if 'ok' not in out[key]:
                    if key.startswith('points') or (p1 and p2):
                        bad(f'{key}:raises', f'{key} distances raised {out[key]}')
                    return fs
                if any(d < 0 for d in out[key]['ok']):
                    bad('negative', f'negative distance in {key}: {out[key]["ok"]}')
            pts, bl = out['points']['ok'], out['baseline']['ok']
            ptr, blr = out['points_rev']['ok'], out['baseline_rev']['ok']
            # symmetry: multisets always, lists for x-monotone baselines
            if sorted(pts) != sorted(ptr) or sorted(bl) != sorted(blr):
                bad('asymmetric', f'distances a→b {bl} and b→a {blr} differ as multisets')
            elif x_monotone(p1) and x_monotone(p2) and (pts != ptr or bl != blr):
                bad('asymmetric-monotone', f'x-monotone baselines: a→b {bl} and b→a {blr} differ as lists')
            # fallback
            a1, a2 = exact_avg_height(p1), exact_avg_height(p2)
            for key, a, p in (('avg1', a1, p1), ('avg2', a2, p2)):
                if a is not None and 'ok' in out[key] and out[key]['ok'] != a:
                    if doubles_back(p):      # the defect repaired by 6c1407f: kept as a regression key
                        bad('avg-height-doubling-back',
                            f'baseline {p} doubles back in x: average_baseline_height is {out[key]["ok"]}, the '
                            f'width-weighted mean height is {a}')
                    else:
                        bad('average-height', f'average_baseline_height of {p} is {out[key]["ok"]}, exact value {a}')
                    return fs
            b1, b2 = box_of(p1), box_of(p2)
            no_overlap = b1[2] < b2[0] or b2[2] < b1[0]
            if no_overlap and pts:
                bad('fallback:sample-without-overlap', f'baselines without horizontal overlap share samples {pts}')
            if not pts:
                if len(bl) != 1:
                    bad('fallback:length', f'no common sample but {len(bl)} distances returned')
                elif a1 is not None and a2 is not None and bl[0] != abs(a1 - a2):
                    bad('fallback:value', f'no common sample: returned {bl}, difference of the average baseline '
                                          f'heights is {abs(a1 - a2)} ({a1} vs {a2})')
            elif bl != pts:
                bad('fallback:spurious', f'common samples exist but baseline distances {bl} ≠ point distances {pts}')
            # shift by d
            if k == 'shift':
                d = i['d']
                if any(x != d for x in pts):
                    bad('shift', f'copy shifted down by {d}: sample distances {pts}')
                if 'ok' in out['interp1'] and len(pts) != len(out['interp1']['ok']):
                    bad('shift:samples', f'{len(out["interp1"]["ok"])} samples on the line but {len(pts)} distances')
                if a1 is not None and min(p[1] for p in p1) >= 0 and any(x != d for x in bl):
                    bad('shift:baseline', f'copy shifted down by {d}: baseline distances {bl}')
        elif k in ('rect', 'line'):
            lj = self._rect_line(i) if k == 'rect' else i
            step = i['step']
            if step <= 0:
                return fs
            ab, itp = out['above_below'], out['interp']
            cb, bb = box_of(lj['coords']), box_of(lj['baseline'])
            if 'ok' not in ab:
                bad('above-below:raises', f'sort_coords_above_below_baseline raised {ab}')
                return fs
            above, below = ab['ok']
            overlap = not (cb[2] < bb[0] or cb[0] > bb[2])
            if 'ok' in itp and itp['ok'] and overlap:
                if sorted(above + below) != sorted(lj['coords']):
                    bad('above-below:lossy', f'{len(lj["coords"])} coordinate points, {len(above)} above + '
                                             f'{len(below)} below')
            elif sorted(above + below) != sorted(lj['coords']) and (above or below):
                bad('above-below:partial', 'some but not all coordinate points returned')
            if any(p not in lj['coords'] for p in above + below):
                bad('above-below:invented', 'a returned point is no coordinate point')
            if k == 'rect':
                w = i['x1'] - i['x0']
                s = narrow_line_step() if w <= step else step
                n_samples = len([x for x in range(i['x0'] + 1, i['x1'] + 1) if x % s == 0])
                hs = out['heights']
                if i['top'] < i['by'] <= i['bottom']:
                    want = [i['by'] - i['top']] * n_samples if n_samples else None
                    if hs != {'ok': want}:
                        bad('text-height', f'rectangle top {i["top"]}, baseline {i["by"]}: heights {hs}, expected {want}')
                    if want and out['height_stats'] != {'ok': {'max': want[0], 'min': want[0], 'mean': want[0],
                                                              'median': want[0]}}:
                        bad('text-height:stats', f'height stats {out["height_stats"]} for constant height {want[0]}')
        elif k == 'height_stats':
            hs = i['hs']
            if hs and 'ok' in out:
                o = out['ok']
                want = {'max': max(hs), 'min': min(hs), 'mean': round_half_even(Fraction(sum(hs), len(hs))),
                        'median': trunc_frac(median_frac([Fraction(h) for h in hs]))}
                if o != want:
                    bad('height-stats', f'{o} for heights {hs}, expected {want}')
        elif k == 'stack':
            n, delta, m = i['n'], i['delta'], i['m']
            x0, _, x1, _ = box_of(i['shape'])
            w = x1 - x0
            ymin = min(p[1] for p in i['shape'])
            if n >= 2 and w > 0 and ymin >= 0 and delta >= 0:
                for key in ('macro', 'micro'):
                    if out[key] != {'ok': [delta, 1]}:
                        bad(f'stack:avg-line-distance-{key}', f'leading {delta}: {key} average line distance {out[key]}')
                ld = out['line_distances']
                if 'ok' not in ld or len(ld['ok']) != n - 1 or any(x != delta for d in ld['ok'] for x in d):
                    bad('stack:line-distances', f'leading {delta}, {n} lines: line distances {ld}')
            if n >= 1 and m >= 1:
                cw = Fraction(n * w, n * m)
                if 'ok' not in out['char_width'] or not q_same(out['char_width']['ok'], [cw.numerator, cw.denominator]):
                    bad('stack:avg-char-width', f'{n} lines of width {w} and {m} chars: {out["char_width"]}')
                if out['line_width_pixel'] != {'ok': [w, 1]}:
                    bad('stack:avg-line-width', f'common width {w}: average line width {out["line_width_pixel"]}')
                if out['line_width_char'] != {'ok': [m, 1]}:
                    bad('stack:avg-line-chars', f'common text length {m}: average line width in chars '
                                                f'{out["line_width_char"]}')
        elif k == 'region':
            for key in ('macro', 'micro', 'char_width', 'line_width_char', 'line_width_pixel'):
                if 'ok' in out[key] and Fraction(*out[key]['ok']) < 0:
                    bad(f'region:negative-{key}', f'{key} is negative: {out[key]}')
            ld = out['line_distances']
            if 'ok' in ld and any(x < 0 for d in ld['ok'] for x in d):
                bad('negative', f'negative line distance {ld}')
        elif k == 'line_distances':
            if 'ok' in out:
                if len(out['ok']) != max(0, len(i['lines']) - 1):
                    bad('line-distances:count', f'{len(i["lines"])} lines, {len(out["ok"])} distance arrays')
                if any(x < 0 for d in out['ok'] for x in d):
                    bad('negative', f'negative line distance {out["ok"]}')
        elif k == 'width':
            ws, bps = i['ws'], i['bps']
            rs = out['ranges']
            want_ranges = [range_str(lo, hi) for lo, hi in zip([0] + bps, bps + [None])]
            if rs != want_ranges:
                bad('width:ranges', f'ranges {rs} for boundary points {bps}')
            inc = all(a < b for a, b in zip(bps, bps[1:]))
            ivs = list(zip([0] + bps, bps + [None]))
            for w, c in zip(ws, out['categories']):
                if c not in rs:
                    bad('width:category-not-a-range', f'width {w} categorised as {c}, ranges {rs}')
                elif inc and w >= 0:
                    # "exactly one range defined by the boundary points": a width that lies ON a boundary
                    # point may go to either neighbouring range — the statement does not decide that tie
                    # (the code's half-open choice is proved for the model and tied by the correspondence)
                    holding = [range_str(lo, hi) for lo, hi in ivs if lo <= w and (hi is None or w <= hi)]
                    if c not in holding:
                        bad('width:wrong-range', f'width {w} categorised as {c}; ranges containing it: {holding}')
            st = dict((key, c) for key, c in out['stats'])
            if sum(st.values()) != len(ws):
                bad('width:counts', f'{len(ws)} lines but counts {out["stats"]}')
            if set(st) != set(rs):
                bad('width:keys', f'stat keys {sorted(st)} differ from the ranges {rs}')
            if Counter(out['categories']) != Counter({key: c for key, c in st.items() if c}):
                bad('width:counts-per-range', f'categories {out["categories"]} but counts {out["stats"]}')
        elif k == 'stats':
            if 'ok' not in out:
                return fs
            evs = out['ok']

            def vals(t, f):
                return sorted(Fraction(*e[2]) for e in evs if e[0] == t and e[1] == f)
            regions, lines, cols, pages, scans = [], [], [], [], []
            for d in i['docs']:
                if d['type'] == 'scan':
                    scans.append(d)
                    regions += d['regions']
                elif d['type'] == 'column':
                    cols.append(d)
                    regions += d['regions']
                elif d['type'] == 'page':
                    pages.append(d)
                    cols += d['columns']
                    regions += [r for c in d['columns'] for r in c['regions']] + d['regions']
                elif d['type'] == 'region':
                    regions.append(d)
                else:
                    lines.append(d)
            lines = lines + [l for r in regions for l in r['lines']]

            def dims(objs, idx):
                bs = [box_of(o['coords']) for o in objs]
                return sorted(Fraction(b[2 + idx] - b[idx]) for b in bs)
            for t, objs in (('textregion', regions), ('line', lines), ('column', cols), ('page', pages), ('scan', scans)):
                for f, idx in (('width', 0), ('height', 1)):
                    got = vals(t, f)
                    if len(got) != len(objs):
                        bad(f'stats:{t}-counted-{"twice" if len(got) > len(objs) else "less"}',
                            f'{len(objs)} {t} elements, {len(got)} {f} observations')
                    elif got != dims(objs, idx):
                        bad(f'stats:{t}-{f}', f'{t} {f} observations {got[:6]} expected {dims(objs, idx)[:6]}')
            if vals('textregion', 'lines') != sorted(Fraction(len(r['lines'])) for r in regions):
                bad('stats:region-lines', 'per-region line counts differ from the regions\' line numbers')
        return fs

    # ---------------------------------------------------------------- evidence helpers
    def nontrivial(self, case: Case) -> bool:
        i = case.input
        k = case.kind

        def wide(pts):
            return len({p[0] for p in pts}) >= 2
        if k == 'mdt':
            return i['a'] != 0
        if k == 'interp_points':
            return i['p1'][0] != i['p2'][0]
        if k == 'interp_baseline':
            return wide(i['points'])
        if k in ('shift', 'distances'):
            return wide(i['p1'])
        if k == 'line':
            return wide(i['baseline'])
        if k == 'rect':
            return i['x0'] != i['x1']
        if k == 'stack':
            return i['n'] >= 2
        if k == 'width':
            return len(i['ws']) >= 2 or len(i['bps']) >= 1
        if k == 'height_stats':
            return len(i['hs']) >= 2
        if k == 'line_distances':
            return len(i['lines']) >= 2
        return True

    def shrink_candidates(self, case: Case):
        """generic structural shrinking: drop list elements (never a coordinate of a point, never the last
        element of a point list), move integers towards zero"""
        def is_point(v):
            return isinstance(v, list) and len(v) == 2 and all(isinstance(x, int) for x in v)

        def variants(v, key=None):
            if isinstance(v, dict):
                for kk in v:
                    for nv in variants(v[kk], kk):
                        d = dict(v)
                        d[kk] = nv
                        yield d
            elif isinstance(v, list) and not is_point(v):
                keep = 1 if (v and is_point(v[0])) or key in ('docs',) else 0
                if key in ('text',):
                    return
                if len(v) > keep:
                    for idx in range(len(v)):
                        yield v[:idx] + v[idx + 1:]
                for idx in range(len(v)):
                    for nv in variants(v[idx]):
                        yield v[:idx] + [nv] + v[idx + 1:]
            elif is_point(v):
                for idx in (0, 1):
                    for nv in variants(v[idx]):
                        p = list(v)
                        p[idx] = nv
                        yield p
            elif isinstance(v, int) and not isinstance(v, bool):
                if key in ('step', 'scan_id', 'column_id'):
                    return
                if abs(v) > 1:
                    yield v // 2 if v > 0 else -((-v) // 2)
                if v != 0:
                    yield v - 1 if v > 0 else v + 1
        for nv in variants(case.input):
            if case.kind == 'mdt' and not (1 <= nv['k'] <= nv['b']):
                continue
            if case.kind == 'rect' and not (nv['x0'] <= nv['x1'] and nv['top'] <= nv['bottom']):
                continue
            if case.kind == 'stack' and nv['n'] < 1:
                continue
            yield Case(case.kind, nv, case.tags)


CHECK = C19()
