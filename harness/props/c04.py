"""C04 — Traversals and statistics count each element once and have no side effects.

Trees are built from real pagexml objects with the constructor operations of the C02 store
model (object number = node id); then sequences of read accessors are applied.  The answers
(line / region / table id sequences, word lists, stats dicts) and the dump of every object after
every call are compared with the Lean model; the oracle judges the statement on the real
answers and on deep snapshots of the real objects.
"""
from __future__ import annotations

import copy
import itertools
import json
import random
from typing import Any, Dict, Iterable, List, Optional

from harness.core import Case, Check, Finding, OUTSIDE, err_name
from harness.props.c02 import World, Gen, cls_of, diff_dumps, model_dump, MAIN

REGION_CLS = ('region', 'column', 'page', 'scan')
ACCS = ['get_lines', 'get_words', 'get_inner_text_regions', 'get_table_regions', 'get_regions', 'stats',
        'num_lines', 'num_words', 'num_text_regions', 'json', 'to_pagexml', 'area']


# ---------------------------------------------------------------------------------------------
# real side
# ---------------------------------------------------------------------------------------------

def call_acc(w: World, acc: str, n: int) -> Dict[str, Any]:
    """one accessor on the real object; canonical answer"""
    o = w.objs[n]
    idx = lambda x: w.index(x)  # noqa
    try:
        if acc in ('get_lines', 'get_inner_text_regions', 'get_table_regions', 'get_regions'):
            return {'ids': [idx(x) for x in getattr(o, acc)()]}
        if acc == 'get_words':
            return {'words': [{'t': x} if isinstance(x, str) else {'n': idx(x)} for x in o.get_words()]}
        if acc == 'stats':
            return {'stats': dict(o.stats)}
        if acc in ('num_lines', 'num_words', 'num_text_regions'):
            v = getattr(o, acc)
            return {'num': v() if callable(v) else v}
        if acc == 'json':
            return {'json': json.dumps(o.json, sort_keys=True, default=str)}
        if acc == 'to_pagexml':
            return {'xml': o.to_pagexml(tostring=True)}
        if acc == 'area':
            return {'area_value': repr(float(o.area))}
    except RecursionError:
        return {'err': 'RecursionError'}
    except Exception as e:  # noqa
        return {'raised': err_name(e)}
    raise ValueError(acc)


def snapshot(w: World) -> List[Dict[str, Any]]:
    """deep structural snapshot of every object: every attribute except the `_area` cache;
    objects by number, coordinates by their points"""
    w._idx = {id(x): i for i, x in enumerate(w.objs)}

    def val(v, depth=0):
        if v is None or isinstance(v, (bool, int, float, str)):
            return v
        if id(v) in w._idx:
            return {'obj': w._idx[id(v)]}
        if hasattr(v, 'points') and hasattr(v, 'point_string'):
            return {'points': [list(p) for p in v.points]}
        if isinstance(v, (list, tuple)):
            return [val(x, depth + 1) for x in v]
        if isinstance(v, dict):
            return {str(k): val(x, depth + 1) for k, x in v.items()}
        if isinstance(v, (set, frozenset)):
            return sorted(json.dumps(val(x, depth + 1), sort_keys=True) for x in v)
        if hasattr(v, '__dict__') and depth < 3:        # an object outside the world (a dummy parent!)
            return {'foreign': type(v).__name__}
        return repr(v)
    out = []
    for o in w.objs:
        d = {k: val(v) for k, v in vars(o).items() if k != '_area'}
        d['__class__'] = type(o).__name__
        out.append(d)
    return out


def col_orders(w: World) -> List[List[Any]]:
    """for every page: the order in which sorted() returns its columns (the sort contract)"""
    out = []
    for i, o in enumerate(w.objs):
        if cls_of(o) == 'page' and o.columns:
            try:
                s = sorted(o.columns)
            except Exception:  # noqa
                continue
            order, used = [], set()
            for c in s:
                for j, x in enumerate(o.columns):
                    if x is c and j not in used:
                        order.append(j)
                        used.add(j)
                        break
            out.append([i, order])
        elif cls_of(o) == 'page':
            out.append([i, []])
    return out


def independent_walk(w: World, n: int) -> Optional[Dict[str, Any]]:
    """an independent reading of the tree below object n (plain attribute access only):
    all lines (with multiplicity), all regions of the closure, page-with-lines flag.
    Scans that hold pages or columns directly are outside the traversal claims (DESIGN §9)."""
    root = w.objs[n]
    lines: List[int] = []
    regions: List[int] = []
    flags = {'page_with_lines': False, 'region_text': False, 'scan_with_pages': False, 'nested_page': False}

    def table(t):
        for row in t.rows:
            for cell in row.cells:
                for l in cell.lines:
                    lines.append(w.index(l))

    def region(r, top=False):
        c = cls_of(r)
        if c == 'page':
            if not top:
                flags['nested_page'] = True
            if r.lines:
                flags['page_with_lines'] = True
            for col in r.columns:
                region(col)
            for tr in r.text_regions:
                region(tr)
            for t in r.table_regions:
                table(t)
            for tr in r.extra:
                region(tr)
            return
        if c == 'scan' and (r.pages or r.columns):
            flags['scan_with_pages'] = True
        regions.append(w.index(r))
        for l in r.lines:
            lines.append(w.index(l))
        for tr in r.text_regions:
            region(tr)
        for t in r.table_regions:
            table(t)
    c = cls_of(root)
    if c in REGION_CLS:
        region(root, top=True)
    elif c == 'table':
        table(root)
    else:
        return None
    return {'lines': sorted(lines), 'regions': regions, 'flags': flags}


# ---------------------------------------------------------------------------------------------
# generators
# ---------------------------------------------------------------------------------------------

class TreeGen(Gen):
    """tree-shaped constructor histories for the traversal claims"""

    def args(self, cls: str, coords_p=1.0, text_p=0.8) -> Dict[str, Any]:
        a = super().args(cls, coords_p=1.0, text_p=text_p)
        a.pop('md', None)
        if cls in ('region',) and self.rng.random() < 0.9:
            a.pop('text', None)                      # region-level text is the exception
        if cls == 'line':
            a['text'] = self.rng.choice(['a b', 'x', 'lorem ipsum dolor', 'a  b', '', None, ' lead', 'trail '])
            if a['text'] is None:
                del a['text']
        return a

    def line(self, need_text=False) -> int:
        ws = [self.word() for _ in range(self.rng.choice([0, 0, 0, 1, 2, 3]))]
        a = self.args('line')
        if need_text and 'text' not in a:
            a['text'] = 'c d'
        return self.add({'op': 'mkLine', 'a': a, 'words': ws}, 'line', ws)

    def region(self, depth: int, col=False) -> int:
        rng = self.rng
        ls = [self.line() for _ in range(rng.choice([0, 0, 1, 2, 3]))]
        rs = [self.region(depth - 1) for _ in range(rng.choice([0, 1, 1, 2]) if depth > 0 else 0)]
        ts = [self.table() for _ in range(1 if rng.random() < 0.25 else 0)]
        cls = 'column' if col else 'region'
        return self.add({'op': 'mkColumn' if col else 'mkRegion', 'a': self.args(cls), 'lines': ls, 'regions': rs,
                         'tables': ts}, cls, ls + rs + ts)

    def page(self, depth: int, with_lines=False, with_tables=False) -> int:
        rng = self.rng
        cols = [self.region(depth, col=True) for _ in range(rng.choice([0, 1, 2, 3]))]
        rs = [self.region(depth) for _ in range(rng.choice([0, 0, 1, 2]))]
        ex = [self.region(max(0, depth - 1)) for _ in range(rng.choice([0, 0, 1, 2]))]
        ls = [self.line()] if with_lines else []
        ts = [self.table()] if with_tables else []
        return self.add({'op': 'mkPage', 'a': self.args('page'), 'lines': ls, 'regions': rs, 'tables': ts,
                         'columns': cols, 'extra': ex}, 'page', ls + rs + ts + cols + ex)

    def scan(self, depth: int, with_pages=False) -> int:
        rng = self.rng
        rs = [self.region(depth) for _ in range(rng.choice([0, 1, 2, 3]))]
        ts = [self.table()] if rng.random() < 0.3 else []
        pages = [self.page(1) for _ in range(rng.choice([1, 2]))] if with_pages else []
        return self.add({'op': 'mkScan', 'a': self.args('scan'), 'lines': [], 'regions': rs, 'tables': ts,
                         'columns': [], 'pages': pages}, 'scan', rs + ts + pages)


class PoolGen(TreeGen):
    """WAVE 4 (rare shapes): ids drawn from a SMALL pool (None included) and boxes from a small pool of coordinate
    tokens, so that regions / lines / words sharing an id (no id, per-container numbering r1, r2 …, equal derived ids
    of equal boxes) are the rule; lines carry Word elements more often than not"""

    def __init__(self, rng: random.Random, pool, coords_pool=None, word_p=0.6):
        super().__init__(rng)
        self.pool = list(pool)
        self.coords_pool = coords_pool
        self.word_p = word_p

    def fresh_id(self):
        self.nid += 1
        return self.rng.choice(self.pool)

    def args(self, cls: str, coords_p=1.0, text_p=0.8):
        a = super().args(cls, coords_p, text_p)
        if self.coords_pool:
            a['coords'] = self.rng.choice(self.coords_pool)
        return a

    def line(self, need_text=False) -> int:
        ws = [self.word() for _ in range(self.rng.choice([1, 2, 3]) if self.rng.random() < self.word_p else 0)]
        a = self.args('line')
        if need_text and 'text' not in a:
            a['text'] = 'c d'
        return self.add({'op': 'mkLine', 'a': a, 'words': ws}, 'line', ws)


ID_MODES = ('percontainer', 'none', 'same', 'mixed', 'distinct')
DUP_TOPS = ('region', 'column', 'scan', 'page-columns', 'page-regions', 'page-extra', 'page-mixed', 'scan-page', 'table')


def dup_tree(top: str, id_mode: str, k: int, m: int, words: bool, equal_boxes: bool):
    """k containers with m leaf regions each (one or two lines per leaf, the first line with Word elements when
    `words`), below every kind of root; the ids of the leaves / lines / words follow `id_mode`:
    per-container numbering (r1, r2 … in every container), no ids at all, one id for all, None and one id
    alternating, or all distinct.  Returns (g, root, nodes to read)."""
    g = TreeGen(random.Random(0))
    cnt = itertools.count(1)

    def ident(prefix, j):
        n = next(cnt)
        if id_mode == 'percontainer':
            return {'s': f'{prefix}{j + 1}'}
        if id_mode == 'none':
            return None
        if id_mode == 'same':
            return {'s': 'dup'}
        if id_mode == 'mixed':
            return None if n % 2 else {'s': 'dup'}
        return {'s': f'{prefix}-{n}'}

    def A(prefix, j, **kw):
        return dict({'id': ident(prefix, j), 'coords': 7 if equal_boxes else next(cnt) % 300}, **kw)

    def line(j, with_words):
        ws = [g.add({'op': 'mkWord', 'a': A('w', i, text=t)}, 'word', []) for i, t in enumerate(['u', 'v'])] if with_words else []
        return g.add({'op': 'mkLine', 'a': A('l', j, text='p q r'), 'words': ws}, 'line', ws)

    def leaf(j, op='mkRegion'):
        ls = [line(i, words and i == 0) for i in range(1 + j % 2)]
        return g.add({'op': op, 'a': A('r', j), 'lines': ls, 'regions': [], 'tables': []}, 'column' if op == 'mkColumn' else 'region', ls)

    def container(c, op='mkRegion'):
        rs = [leaf(j) for j in range(m)]
        return g.add({'op': op, 'a': A('c', c), 'lines': [], 'regions': rs, 'tables': []}, 'column' if op == 'mkColumn' else 'region', rs)

    def page(cols, regs, extra):
        return g.add({'op': 'mkPage', 'a': A('p', 0), 'lines': [], 'regions': regs, 'tables': [], 'columns': cols, 'extra': extra},
                     'page', cols + regs + extra)
    read = []
    if top in ('region', 'column'):
        cs = [container(c) for c in range(k)]
        root = g.add({'op': 'mkRegion' if top == 'region' else 'mkColumn', 'a': A('t', 0), 'lines': [], 'regions': cs, 'tables': []},
                     top, cs)
    elif top == 'scan':
        cs = [container(c) for c in range(k)]
        root = g.add({'op': 'mkScan', 'a': A('s', 0), 'lines': [], 'regions': cs, 'tables': [], 'columns': [], 'pages': []}, 'scan', cs)
    elif top == 'page-columns':
        root = page([container(c, 'mkColumn') for c in range(k)], [], [])
    elif top == 'page-regions':
        root = page([], [container(c) for c in range(k)], [])
    elif top == 'page-extra':
        root = page([], [], [container(c) for c in range(k)])
    elif top == 'page-mixed':
        cols = [container(c, 'mkColumn') for c in range(max(1, k - 1))]
        regs = [leaf(j) for j in range(m)]          # leaf regions directly below the page, numbered like those in the columns
        ex = [leaf(j) for j in range(m)]
        root = page(cols, regs, ex)
    elif top == 'scan-page':
        p = page([container(c, 'mkColumn') for c in range(k)], [], [leaf(0)])
        root = g.add({'op': 'mkScan', 'a': A('s', 0), 'lines': [], 'regions': [], 'tables': [], 'columns': [], 'pages': [p]}, 'scan', [p])
        read.append(p)                              # the page is the document that is read (a scan holding pages is mirrored only)
    elif top == 'table':
        rows = []
        for r in range(k):
            cells = []
            for c in range(m):
                ls = [line(i, words and i == 0) for i in range(1 + c % 2)]
                cells.append(g.add({'op': 'mkCell', 'a': A('cell', c), 'lines': ls, 'row': r, 'col': c}, 'cell', ls))
            rows.append(g.add({'op': 'mkRow', 'a': A('row', r), 'cells': cells}, 'row', cells))
        root = g.add({'op': 'mkTable', 'a': A('t', 0), 'rows': rows}, 'table', rows)
    else:
        raise ValueError(top)
    read.append(root)
    return g, root, read


def accs_for(cls: str) -> List[str]:
    """the read accessors the statement names, per class of the object read"""
    if cls in REGION_CLS:
        return list(ACCS)
    if cls == 'line':
        return ['get_words', 'num_words', 'stats', 'json', 'to_pagexml', 'area', 'get_lines']
    if cls == 'word':
        return ['json', 'to_pagexml', 'area', 'stats']
    return ['get_lines', 'get_words', 'stats', 'num_lines', 'num_words', 'json', 'area']


def battery(g: Gen, nodes: List[int], rng: Optional[random.Random] = None) -> List[Dict[str, Any]]:
    """every accessor of every node in `nodes`, then all of them again in another order ("in any order and any
    number of times … returns the same answers")"""
    first = [{'acc': a, 'n': n} for n in nodes for a in accs_for(g.cls[n])]
    second = list(reversed(first))
    if rng is not None:
        rng.shuffle(second)
    return first + second


def second_read(g: Gen, root: int, acc: str, n: int) -> List[Dict[str, Any]]:
    """`acc` on node n twice on a fresh tree, then the other views of the document (root, first line, first word
    below it), then `acc` again: the second and third answer must equal the first and nothing may have changed"""
    below = [i for i in range(len(g.cls)) if g.below(i, root)]
    probe = [{'acc': a, 'n': root} for a in accs_for(g.cls[root]) if a in ('get_lines', 'get_words', 'stats', 'num_words', 'json',
                                                                            'get_inner_text_regions')]
    for cls, names in (('line', ['get_words', 'num_words', 'json']), ('word', ['json'])):
        x = next((i for i in below if g.cls[i] == cls and (cls != 'line' or g.kids[i])), None)
        if x is not None:
            probe += [{'acc': a, 'n': x} for a in names]
    me = {'acc': acc, 'n': n}
    return [dict(me), dict(me)] + probe + [dict(me)]


def page_with_direct_lines(build: List[Dict[str, Any]]) -> bool:
    """the quantifier: "pages built from columns, regions and extra regions" — a tree holding a page that owns lines
    directly is not one of the documents the property speaks about (what its traversals answer, or whether they raise,
    is not stated)"""
    return any(o.get('op') == 'mkPage' and o.get('lines') for o in build)


def gen_accs(rng: random.Random, g: Gen, root: int, n_accs: int) -> List[Dict[str, Any]]:
    below = [i for i in range(len(g.cls)) if g.below(i, root)]
    accs = []
    for _ in range(n_accs):
        n = root if rng.random() < 0.5 else rng.choice(below)
        c = g.cls[n]
        if c in REGION_CLS:
            a = rng.choice(ACCS)
        elif c == 'line':
            a = rng.choice(['get_words', 'num_words', 'stats', 'json', 'to_pagexml', 'area', 'to_pagexml', 'get_lines'])
        elif c == 'word':
            a = rng.choice(['json', 'to_pagexml', 'area', 'to_pagexml', 'stats'])
        else:
            a = rng.choice(['get_lines', 'get_words', 'stats', 'num_lines', 'num_words', 'json', 'area'])
        accs.append({'acc': a, 'n': n})
        if rng.random() < 0.35:
            accs.append(dict(rng.choice(accs)))          # repeat an earlier call
    return accs


def enum_shapes(max_regions: int):
    """all region shapes (lines 0/1/2, optional table, ordered sub-regions) with at most max_regions regions"""
    def shapes(k):
        if k <= 0:
            return
        for nl, tb in itertools.product([0, 1, 2], [0, 1]):
            for subs in forests(k - 1):
                yield (nl, tb, subs)

    def forests(k):
        yield ()
        for first_size in range(1, k + 1):
            for first in shapes_exact(first_size):
                for rest in forests(k - first_size):
                    yield (first,) + rest

    def size(s):
        return 1 + sum(size(x) for x in s[2])

    cache: Dict[int, list] = {}

    def shapes_exact(k):
        if k not in cache:
            cache[k] = [s for s in shapes(k) if size(s) == k]
        return cache[k]
    for k in range(1, max_regions + 1):
        for s in shapes_exact(k):
            yield s


def shape_to_ops(shape, top: str = 'region') -> List[Dict[str, Any]]:
    ops: List[Dict[str, Any]] = []
    cnt = itertools.count(1)

    def nn():
        return sum(1 for o in ops if o['op'].startswith('mk'))

    def A(**k):
        return dict({'id': {'s': f'e{next(cnt)}'}, 'coords': next(cnt) % 50}, **k)

    def line(words: bool):
        ws = []
        if words:
            ws = [nn()]
            ops.append({'op': 'mkWord', 'a': A(text='w')})
        n = nn()
        ops.append({'op': 'mkLine', 'a': A(text='p q'), 'words': ws})
        return n

    def table():
        l = line(False)
        c = nn()
        ops.append({'op': 'mkCell', 'a': A(), 'lines': [l], 'row': 0, 'col': 0})
        r = nn()
        ops.append({'op': 'mkRow', 'a': A(), 'cells': [c]})
        t = nn()
        ops.append({'op': 'mkTable', 'a': A(), 'rows': [r]})
        return t

    def region(s, op='mkRegion'):
        nl, tb, subs = s
        ls = [line(i == 1) for i in range(nl)]
        rs = [region(x) for x in subs]
        ts = [table()] if tb else []
        n = nn()
        ops.append({'op': op, 'a': A(), 'lines': ls, 'regions': rs, 'tables': ts})
        return n
    if top == 'region':
        region(shape)
    elif top == 'scan':
        r = region(shape)
        ops.append({'op': 'mkScan', 'a': A(), 'regions': [r]})
    elif top == 'page':
        nl, tb, subs = shape
        cols = [region(x, 'mkColumn') for x in subs]
        ex = [region((nl, tb, ()))]
        ops.append({'op': 'mkPage', 'a': A(), 'columns': cols, 'extra': ex})
    return ops


# ---------------------------------------------------------------------------------------------

class C04(Check):
    pid = 'C04'
    props_module = 'PagexmlModel.Props.C04'
    anchors = {'pagexml/model/pagexml_document_model.py': [
        'PageXMLTextRegion.get_regions', 'PageXMLTextRegion.get_lines', 'PageXMLTextRegion.get_words',
        'PageXMLTextRegion.get_inner_text_regions', 'PageXMLTextRegion.get_table_regions', 'PageXMLTextRegion.stats',
        'PageXMLTextRegion.num_lines', 'PageXMLTextRegion.num_words', 'PageXMLPage.get_lines',
        'PageXMLPage.get_inner_text_regions', 'PageXMLPage.get_table_regions', 'PageXMLPage.stats', 'PageXMLScan.stats',
        'PageXMLTextLine.get_words', 'PageXMLTextLine.num_words', 'PageXMLTextLine.stats', 'PageXMLTextLine._to_pagexml',
        'PageXMLWord._to_pagexml', 'PageXMLTableRegion.get_lines', 'PageXMLTableRegion.get_words',
        'PageXMLTableRegion.stats', 'PageXMLTableRow.get_lines', 'PageXMLTableCell.get_words', 'PageXMLDoc.to_pagexml'],
        'pagexml/model/basic_document_model.py': ['PhysicalStructureDoc.area', 'PhysicalStructureDoc.json']}
    level_note = ('proved in Lean for every tree (any depth / width): get_lines is a permutation of all lines of the tree for '
                  'well-formed trees (pages without direct lines; sorted(columns) any permutation) and the exact order for trees '
                  'without pages; words per line; leaf regions = regions with lines and no sub-regions; stats = sizes; every '
                  'accessor (traversals, stats, num_*, json, to_pagexml, area) leaves all existing objects unchanged up to the '
                  '_area cache, for every accessor sequence, and returns the same answer after any such sequence '
                  '(C04_accessor_pure, C04_run_pure, C04_same_answer). The CONTENT of the JSON / XML views is not modelled here '
                  '(C06 / C07): their answers are compared for stability on the real code only; reading orders are excluded '
                  '(C05); the depth bound 1000 of the abstraction function stands for CPython\'s recursion limit; '
                  'correspondence: trees holding a page with direct lines are outside the quantifier ("pages built from '
                  'columns, regions and extra regions") — mirrored, differences recorded only, not judged; an accessor that '
                  'raises is compared as raising-or-not (no exception class is stated). WAVE 4 (histories / rare shapes; the '
                  'store model is a pure function of (store, accessor), so the same model answer must hold for every repeated '
                  'call — no new Lean): families dup-ids (elements sharing an id — None, per-container numbering r1, r2 …, one '
                  'id, None/id alternating — and equal boxes below EVERY root kind: region, column, scan, page built from '
                  'columns / regions / extra / all three, page below a scan, table; every accessor of the root twice in two '
                  'orders), second-read (for every accessor of every root kind and of one object below it: call, same call, the '
                  'other views of the document, call again — same answers, nothing changed) and battery (random trees with ids '
                  'from a small pool, every accessor of several nodes, then all again shuffled)')
    assumptions = [
        'trees are built without reading order (C05 covers the ordered traversal); sorted(page.columns) is a '
        'parameter of the model — the harness passes the order CPython returned and the theorems only use that it '
        'is a permutation',
        'the content of the JSON and XML views is the subject of C06 / C07: here json / to_pagexml are modelled as '
        'reading the subtree (plus, for a word or line, allocating fresh dummy parents); their effect on the objects is '
        'compared with the real code and their answers are compared for stability by the oracle',
        'scans holding pages or columns directly and pages nested inside text regions are outside the traversal claims '
        '(DESIGN §9); the model still mirrors them',
        'recursion depth: the model bounds the nesting depth by 1000 (standing for CPython\'s recursion limit)',
    ]
    nontrivial_rule = 'distinct (tree, accessor sequence) pairs with at least two regions or a table'

    def cases(self, rng: random.Random, tier: str) -> Iterable[Case]:
        out: List[Case] = []
        for build, accs in CORPUS:
            out.append(Case('tree', {'build': build, 'accs': accs}, ['corpus']))
        # exhaustive small shapes
        k = 3 if tier == 'quick' else 4
        fixed = ['get_lines', 'get_words', 'get_inner_text_regions', 'stats', 'json', 'to_pagexml', 'get_lines', 'stats',
                 'get_table_regions', 'num_lines', 'num_words', 'area', 'json']
        for i, s in enumerate(enum_shapes(k)):
            for top in (['region'] if i % (3 if tier == 'quick' else 6) else ['region', 'scan', 'page']):
                ops = shape_to_ops(s, top)
                root = sum(1 for o in ops if o['op'].startswith('mk')) - 1
                out.append(Case('tree', {'build': ops, 'accs': [{'acc': a, 'n': root} for a in fixed]}, ['enum-shapes']))
        n = 150 if tier == 'quick' else 1500
        for _ in range(n):
            g = TreeGen(rng)
            r = rng.random()
            depth = rng.choice([0, 1, 2, 2, 3, 4, 5]) if r < 0.5 else rng.choice([0, 1, 2])
            if r < 0.4:
                root, tag = g.region(depth), 'region'
            elif r < 0.5:
                root, tag = g.region(depth, col=True), 'column'
            elif r < 0.75:
                root, tag = g.page(min(depth, 2)), 'page'
            elif r < 0.95:
                root, tag = g.scan(min(depth, 3)), 'scan'
            else:
                root, tag = g.table(), 'table'
            out.append(Case('tree', {'build': g.ops, 'accs': gen_accs(rng, g, root, rng.randint(3, 9))}, [tag]))
        out.extend(self._wave4(rng, tier))
        for _ in range(max(10, n // 10)):               # outside the traversal claims / error paths: mirrored only
            g = TreeGen(rng)
            kind = rng.choice(['page-lines', 'page-table', 'scan-pages', 'region-text', 'no-coords'])
            if kind == 'page-lines':
                root = g.page(1, with_lines=True)
            elif kind == 'page-table':
                root = g.page(1, with_tables=True)
            elif kind == 'scan-pages':
                root = g.scan(1, with_pages=True)
            elif kind == 'region-text':
                l = g.line()
                root = g.add({'op': 'mkRegion', 'a': {'id': {'s': 'rt'}, 'coords': 2, 'text': rng.choice(['u v', '', 'u  v'])},
                              'lines': [l], 'regions': [], 'tables': []}, 'region', [l])
            else:
                l = g.add({'op': 'mkLine', 'a': {'id': {'s': 'nc'}, 'text': 'a b'}, 'words': []}, 'line', [])
                root = g.add({'op': 'mkRegion', 'a': {'id': {'s': 'r'}}, 'lines': [l], 'regions': [], 'tables': []}, 'region', [l])
            out.append(Case('tree', {'build': g.ops, 'accs': gen_accs(rng, g, root, rng.randint(3, 7))}, ['special', kind]))
        # outside the quantifier ("pages built from columns, regions and extra regions"): pages with direct lines.  The
        # model still mirrors today's behaviour (AttributeError from the page's traversals) and the harness still runs it,
        # but a difference is recorded in the evidence only and the oracle does not judge these trees.  The other
        # 'special' kinds (page-level tables, scans holding pages, region-level text, missing coordinates) are NOT
        # excluded by the quantifier's wording and stay compared exactly.
        for c in out:
            if page_with_direct_lines(c.input['build']) and OUTSIDE not in c.tags:
                c.tags.append(OUTSIDE)
        return out

    # ------------------------------------------------------------------ WAVE 4 families
    def _wave4(self, rng: random.Random, tier: str) -> List[Case]:
        """histories on USED objects and rare id shapes, for every kind of root (every entry point of the traversals:
        region, column, page, scan, table, line):
          dup-ids      elements sharing an id (None, per-container numbering, one id, equal boxes) below every root kind,
                       every accessor of the root (and of the page below a scan) twice in two orders;
          second-read  for EVERY accessor of every root kind: the call, the same call again, the other views of the
                       document, the call a third time — same answers, nothing changed;
          battery      random trees (ids from a small pool, lines with Word elements first), every accessor of the
                       root and of some nodes below it, then all again in a random order."""
        quick = tier == 'quick'
        out: List[Case] = []
        shapes = [(2, 2), (3, 1), (1, 3)] if quick else [(2, 2), (3, 1), (1, 3), (2, 3), (4, 2)]
        i = 0
        for top in DUP_TOPS:
            for mode in ID_MODES:
                for (k, m) in shapes:
                    i += 1
                    g, root, read = dup_tree(top, mode, k, m, words=i % 3 != 0, equal_boxes=i % 4 == 0)
                    out.append(Case('tree', {'build': g.ops, 'accs': battery(g, read)}, ['dup-ids', f'top={top}', f'ids={mode}']))
        pools = [[None, {'s': 'r1'}, {'s': 'r2'}], [None], [{'s': 'dup'}, None, {'s': 'a'}, {'s': 'b'}, {'s': 'c'}]]

        def tree(kind: str, pool):
            g = PoolGen(rng, pool, coords_pool=[3, 3, 5, 8, 13, 21, 34] if rng.random() < 0.5 else None)
            if kind == 'region':
                return g, g.region(rng.choice([1, 2, 3]))
            if kind == 'column':
                return g, g.region(rng.choice([1, 2]), col=True)
            if kind == 'page':
                return g, g.page(rng.choice([0, 1, 2]))
            if kind == 'scan':
                return g, g.scan(rng.choice([1, 2]))
            if kind == 'table':
                return g, g.table()
            ls = g.line()
            return g, ls
        for kind in ('region', 'column', 'page', 'scan', 'table', 'line'):
            for t in range(3 if quick else 8):
                g, root = tree(kind, pools[t % len(pools)])
                for acc in accs_for(g.cls[root]):
                    out.append(Case('tree', {'build': g.ops, 'accs': second_read(g, root, acc, root)},
                                    ['second-read', f'top={kind}', f'acc={acc}']))
                # … and the same for one object BELOW the root (read through the part, then through the whole)
                below = [x for x in range(len(g.cls)) if x != root and g.below(x, root) and g.cls[x] in REGION_CLS + ('line', 'table', 'row', 'cell', 'word')]
                if below:
                    n2 = rng.choice(below)
                    for acc in accs_for(g.cls[n2]):
                        out.append(Case('tree', {'build': g.ops, 'accs': second_read(g, root, acc, n2)},
                                        ['second-read', f'top={kind}', f'sub={g.cls[n2]}', f'acc={acc}']))
        for t in range(40 if quick else 300):
            kind = rng.choice(['region', 'column', 'page', 'page', 'scan', 'table'])
            g, root = tree(kind, rng.choice(pools))
            below = [x for x in range(len(g.cls)) if x != root and g.below(x, root)]
            nodes = [root] + rng.sample(below, min(len(below), rng.choice([0, 1, 2, 3])))
            out.append(Case('tree', {'build': g.ops, 'accs': battery(g, nodes, rng)}, ['battery', f'top={kind}']))
        return out

    # ------------------------------------------------------------------ implementation
    def impl(self, case: Case) -> Any:
        w = World()
        for op in case.input['build']:
            o = w.exec(op)
            if 'err' in o:
                return {'err': o['err']}
        before = snapshot(w)
        res: Dict[str, Any] = {'ord': col_orders(w), 'steps': [], 'walk': {}}
        for a in case.input['accs']:
            n = a['n']
            if str(n) not in res['walk']:
                res['walk'][str(n)] = independent_walk(w, n)
            o = call_acc(w, a['acc'], n)
            snap = snapshot(w)
            res['steps'].append({'out': o, 'store': w.dump(), 'unchanged': snap == before,
                                 'changed': None if snap == before else first_diff(before, snap)})
            before = snap       # the next call is judged against the state it started from
        # facts the oracle needs about the objects (read after all calls; purity is judged separately)
        res['lines'] = {str(i): {'words': [w.index(x) for x in (o.words or [])], 'text': o.text}
                        for i, o in enumerate(w.objs) if cls_of(o) == 'line'}
        res['nodes'] = {str(i): {'cls': cls_of(o), 'n_lines': len(getattr(o, 'lines', None) or []),
                                 'n_subs': len(getattr(o, 'text_regions', None) or []),
                                 'n_tables': len(getattr(o, 'table_regions', None) or []),
                                 'n_columns': len(getattr(o, 'columns', None) or []),
                                 'n_extra': len(getattr(o, 'extra', None) or []),
                                 'n_pages': len(getattr(o, 'pages', None) or []),
                                 'has_text': getattr(o, 'text', None) is not None}
                        for i, o in enumerate(w.objs)}
        return res

    # ------------------------------------------------------------------ model
    def requests(self, case: Case):
        o = _CACHE.get(id(case))
        if o is None:
            o = self.impl(case)
        if 'err' in o:
            return []
        return [{'p': 'C04', 'op': 'accs', 'args': {'build': case.input['build'], 'accs': case.input['accs'], 'ord': o['ord']}}]

    def compare(self, case, impl_out, model_out):
        if 'err' in impl_out:
            return None
        m = model_out[0]
        if 'ok' not in m:
            return f'model answered {m}'
        ms, rs = m['ok'], impl_out['steps']
        if len(ms) != len(rs):
            return f'{len(rs)} real steps, {len(ms)} model steps'
        for i, (r, mm) in enumerate(zip(rs, ms)):
            a = case.input['accs'][i]
            if 'err' in mm:
                return f'step {i} {a}: model error {mm["err"]}, impl {r["out"]}'
            ro, mo = r['out'], dict(mm['out'])
            if a['acc'] in ('json', 'to_pagexml', 'area'):
                pass        # content of the views: C06 / C07 / C09; the store effect is compared below
            else:
                if 'stats' in mo:
                    mo['stats'] = {k: v for k, v in mo['stats']}
                if 'raised' in ro and 'raised' in mo:
                    pass    # the statement names no exception: an accessor that raises is compared as raising-or-not
                elif ro != mo:
                    return f'step {i} {a}: impl={ro} model={mo}'
            d = diff_dumps(r['store'], model_dump(mm['store']))
            if d:
                return f'step {i} {a}: {d}'
        return None

    # ------------------------------------------------------------------ oracle
    def oracle(self, case: Case, out: Any) -> List[Finding]:
        # an answer of the real code that the judgement below cannot even read (an object that is no part of the
        # document, a value of another shape) is an outcome to report, never a crash of the harness
        try:
            return self._oracle(case, out)
        except Exception as e:  # noqa
            return [Finding('C04:answer-shape', f'the answers of the real code cannot be judged ({type(e).__name__}: {e}); '
                                                f'steps: {str([st.get("out") for st in out.get("steps", [])])[:600]}', case, None)]

    def _oracle(self, case: Case, out: Any) -> List[Finding]:
        fs: List[Finding] = []
        seen = set()

        def report(key, what):
            if key not in seen:
                seen.add(key)
                fs.append(Finding(f'C04:{key}', what, case, None))
        if 'err' in out or page_with_direct_lines(case.input['build']):
            return fs           # (a page owning lines: outside the quantifier, see cases())
        accs = case.input['accs']
        answers: Dict[Any, Any] = {}
        last: Dict[Any, Any] = {}
        for i, (a, st) in enumerate(zip(accs, out['steps'])):
            o = st['out']
            n = a['n']
            node = out['nodes'][str(n)]
            cls = node['cls']
            # purity: nothing but the area cache may change
            if not st['unchanged']:
                report(f'impure:{a["acc"]}:{cls}', f'call {i} {a["acc"]}() on node {n} ({cls}) changed the document: {st["changed"]}')
            # same answers
            key = (a['acc'], n)
            if key in answers and answers[key] != o:
                report(f'unstable:{a["acc"]}:{cls}', f'call {i} {a["acc"]}() on node {n} ({cls}) answered differently than before')
            answers.setdefault(key, o)
            walk = out['walk'].get(str(n))
            if walk is None or 'raised' in o or 'err' in o:
                if walk is not None and cls in REGION_CLS and ('raised' in o) and a['acc'] in (
                        'get_lines', 'get_words', 'stats', 'get_inner_text_regions', 'num_lines', 'num_words',
                        'get_table_regions') and not (walk['flags']['page_with_lines'] or walk['flags']['nested_page']):
                    report(f'raises:{a["acc"]}:{cls}', f'{a["acc"]}() on node {n} ({cls}) raised {o["raised"]}')
                continue
            fl = walk['flags']
            in_claim = not (fl['page_with_lines'] or fl['scan_with_pages'] or fl['nested_page'])
            if a['acc'] == 'get_lines' and in_claim:
                if sorted(o['ids']) != walk['lines']:
                    report(f'lines-once:{cls}', f'get_lines() of node {n} ({cls}) = {o["ids"]}; the lines of the tree are {walk["lines"]}')
                last[('lines', n)] = o['ids']
            if a['acc'] == 'get_words' and cls in REGION_CLS and in_claim and not node['has_text']:
                exp = []
                for l in last.get(('lines', n)) or self._lines_of(out, walk):
                    exp += self._line_words(out, l)
                if ('lines', n) in last and o['words'] != exp:
                    report(f'words:{cls}', f'get_words() of node {n} ({cls}) = {o["words"]}, per line: {exp}')
                elif ('lines', n) not in last and sorted(map(json.dumps, o['words'])) != sorted(map(json.dumps, exp)):
                    report(f'words:{cls}', f'get_words() of node {n} ({cls}) = {o["words"]}, per line (any order): {exp}')
            if a['acc'] == 'get_words' and cls == 'line':
                if o['words'] != self._line_words(out, n):
                    report('words:line', f'get_words() of line {n} = {o["words"]}')
            if a['acc'] == 'get_inner_text_regions' and in_claim and cls in REGION_CLS:
                exp = sorted(r for r in walk['regions'] if out['nodes'][str(r)]['n_lines'] > 0 and out['nodes'][str(r)]['n_subs'] == 0)
                if sorted(o['ids']) != exp:
                    report(f'leaf-regions:{cls}', f'get_inner_text_regions() of node {n} ({cls}) = {o["ids"]}, leaf regions: {exp}')
            if a['acc'] == 'stats' and cls in REGION_CLS and in_claim:
                s = o['stats']
                if 'lines' in s and s['lines'] != len(walk['lines']):
                    report(f'stats:lines:{cls}', f'stats of node {n} ({cls}): lines = {s["lines"]}, the tree has {len(walk["lines"])}')
                if 'words' in s and not node['has_text']:
                    nw = sum(len(self._line_words(out, l)) for l in walk['lines'])
                    if s['words'] != nw:
                        report(f'stats:words:{cls}', f'stats of node {n} ({cls}): words = {s["words"]}, the lines hold {nw}')
                for k, f in (('text_regions', 'n_subs'), ('pages', 'n_pages')) + (
                        (('columns', 'n_columns'), ('extra', 'n_extra')) if cls == 'page' else ()):
                    if k in s and s[k] != node[f]:
                        report(f'stats:{k}:{cls}', f'stats of node {n} ({cls}): {k} = {s[k]}, the child list has {node[f]}')
                if 'table_regions' in s and cls != 'page' and s['table_regions'] != node['n_tables']:
                    report(f'stats:table_regions:{cls}', f'stats of node {n} ({cls}): table_regions = {s["table_regions"]}, '
                                                         f'the child list has {node["n_tables"]}')
            if a['acc'] in ('num_lines',) and in_claim and 'num' in o and o['num'] != len(walk['lines']):
                report(f'num_lines:{cls}', f'num_lines of node {n} ({cls}) = {o["num"]}, the tree has {len(walk["lines"])}')
        return fs

    @staticmethod
    def _line_words(out, l: int) -> List[Dict[str, Any]]:
        d = out['lines'].get(str(l))
        if d is None:               # not a line of this document (reported by the caller's comparison)
            return [{'foreign': l}]
        if d['words']:
            return [{'n': x} for x in d['words']]
        if d['text']:
            return [{'t': t} for t in d['text'].split(' ')]
        return []

    @staticmethod
    def _lines_of(out, walk) -> List[int]:
        return walk['lines']

    def nontrivial(self, case: Case) -> bool:
        ops = case.input['build']
        return sum(1 for o in ops if o['op'] in ('mkRegion', 'mkColumn', 'mkPage', 'mkScan')) >= 2 or \
            any(o['op'] == 'mkTable' for o in ops)

    def shrink_candidates(self, case: Case):
        build, accs = case.input['build'], case.input['accs']
        for i in range(len(accs)):
            if len(accs) > 1:
                yield Case('tree', {'build': build, 'accs': accs[:i] + accs[i + 1:]}, case.tags)
        # detach a child from the constructor that lists it; then drop unreferenced nodes
        for i, o in enumerate(build):
            for f in ('words', 'lines', 'regions', 'tables', 'columns', 'extra', 'pages', 'cells', 'rows'):
                for j in range(len(o.get(f, []))):
                    o2 = dict(o)
                    o2[f] = o[f][:j] + o[f][j + 1:]
                    if f in ('cells',) and not o2[f]:
                        continue
                    yield Case('tree', {'build': build[:i] + [o2] + build[i + 1:], 'accs': accs}, case.tags)
        used = {a['n'] for a in accs}
        for i, o in enumerate(build):
            node = sum(1 for x in build[:i] if x['op'].startswith('mk'))
            if node in used or any(node in World._refs(x) for x in build):
                continue

            def ren(x, node=node):
                y = copy.deepcopy(x)
                for f in ('words', 'lines', 'regions', 'tables', 'columns', 'extra', 'pages', 'cells', 'rows'):
                    if f in y:
                        y[f] = [v - 1 if v > node else v for v in y[f]]
                return y
            yield Case('tree', {'build': [ren(x) for j, x in enumerate(build) if j != i],
                                'accs': [dict(a, n=a['n'] - 1 if a['n'] > node else a['n']) for a in accs]}, case.tags)


_CACHE: Dict[int, Any] = {}
_orig_impl = C04.impl


def _impl_cached(self, case):
    o = _orig_impl(self, case)
    _CACHE[id(case)] = o
    return o


C04.impl = _impl_cached


def first_diff(a: List[Dict[str, Any]], b: List[Dict[str, Any]]) -> str:
    for i, (x, y) in enumerate(zip(a, b)):
        if x != y:
            for k in x:
                if x[k] != y.get(k):
                    return f'object {i} attribute {k}: {x[k]!r} -> {y.get(k)!r}'
    return f'{len(a)} -> {len(b)} objects'


B = lambda i, **k: dict({'id': {'s': i}, 'coords': 1}, **k)  # noqa
CORPUS = [
    # 49c5966: exporting a line or word must not re-parent it
    ([{'op': 'mkWord', 'a': B('w', text='a')}, {'op': 'mkLine', 'a': B('l', text='a b'), 'words': [0]},
      {'op': 'mkRegion', 'a': B('r'), 'lines': [1]}],
     [{'acc': 'to_pagexml', 'n': 1}, {'acc': 'to_pagexml', 'n': 0}, {'acc': 'json', 'n': 2}, {'acc': 'to_pagexml', 'n': 1}]),
    # 1b71747 / 15b3f19 / 1929cdb: pages with own regions, tables
    ([{'op': 'mkLine', 'a': B('l', text='a b')}, {'op': 'mkCell', 'a': B('c'), 'lines': [0]}, {'op': 'mkRow', 'a': B('rw'), 'cells': [1]},
      {'op': 'mkTable', 'a': B('t'), 'rows': [2]}, {'op': 'mkLine', 'a': B('l2', text='c')},
      {'op': 'mkRegion', 'a': B('r'), 'lines': [4]}, {'op': 'mkPage', 'a': B('p'), 'regions': [5], 'tables': [3]}],
     [{'acc': 'get_lines', 'n': 6}, {'acc': 'stats', 'n': 6}, {'acc': 'get_table_regions', 'n': 6},
      {'acc': 'get_inner_text_regions', 'n': 6}, {'acc': 'json', 'n': 6}]),
    # double blanks and empty text
    ([{'op': 'mkLine', 'a': B('l', text='a  b')}, {'op': 'mkLine', 'a': B('m', text='')}, {'op': 'mkLine', 'a': B('k')},
      {'op': 'mkRegion', 'a': B('r'), 'lines': [0, 1, 2]}],
     [{'acc': 'get_words', 'n': 3}, {'acc': 'stats', 'n': 3}, {'acc': 'num_words', 'n': 0}, {'acc': 'area', 'n': 3},
      {'acc': 'area', 'n': 3}]),
]

CHECK = C04()
