"""Run a piece of a check in a PRISTINE interpreter state: a process in which the library has been imported but no
library function has been called yet (WAVE 4, histories).

Why: statements such as C01's "parsing ANY conformant document yields …" hold for a document whatever was parsed
before it in the same process.  A case that is a HISTORY ("parse A, then B, then A again") must therefore start from
a known state, or its outcome depends on the cases the harness happened to run before it — and a failing history
minimised inside the long-lived harness process would not reproduce from its replay file in a fresh process.

How: one helper process (the "zygote") is started per harness process; it imports the library and the harness
modules and then only forks: every request is served by a fresh child of the zygote (copy-on-write image of the
import-time state), which runs `getattr(import_module(mod), fn)(arg)` and returns the JSON answer.  A child that
does not answer within `timeout` seconds is killed and reported as {'hermetic_failure': 'timeout'} (a loop that no
longer terminates is an outcome to judge, not a hang of the harness); a child that dies as {'hermetic_failure': …}.
PYTHONPATH / PAGEXML_REPO are inherited, so a patched tree is what the zygote imports.

If the zygote cannot be started at all the function is run in-process (answer tagged by the caller)."""
from __future__ import annotations

import atexit
import json
import os
import subprocess
import sys
from typing import Any

PRELOAD = ['xmltodict', 'pagexml.parser', 'pagexml.model.physical_document_model', 'pagexml.helper.pagexml_helper',
           'harness.core']

_ZYGOTE = r'''
import importlib, json, os, select, signal, sys, time
cfg = json.loads(sys.argv[1])
sys.path[:] = cfg['sys_path']
proto_out = os.fdopen(os.dup(1), 'w', encoding='utf-8')
devnull = os.open(os.devnull, os.O_WRONLY)
os.dup2(devnull, 1)                 # nothing the library prints can reach the protocol stream
sys.stdout = os.fdopen(1, 'w')
for m in cfg['preload']:
    try:
        importlib.import_module(m)
    except Exception as e:          # noqa
        pass
proto_out.write(json.dumps({'ready': True}) + '\n'); proto_out.flush()
for line in sys.stdin:
    req = json.loads(line)
    try:
        importlib.import_module(req['mod'])         # import only: children then share it
    except Exception as e:          # noqa
        proto_out.write(json.dumps({'hermetic_failure': 'import: %s: %s' % (type(e).__name__, e)}) + '\n'); proto_out.flush()
        continue
    r, w = os.pipe()
    pid = os.fork()
    if pid == 0:
        os.close(r)
        try:
            f = getattr(sys.modules[req['mod']], req['fn'])
            ans = {'answer': f(req['arg'])}
        except BaseException as e:  # noqa
            import traceback
            ans = {'hermetic_failure': 'raised %s: %s' % (type(e).__name__, e), 'trace': traceback.format_exc()[-1500:]}
        try:
            data = json.dumps(ans, ensure_ascii=False).encode('utf-8')
        except Exception as e:      # noqa
            data = json.dumps({'hermetic_failure': 'answer is not JSON: %s' % e}).encode('utf-8')
        with os.fdopen(w, 'wb') as fh:
            fh.write(data)
        os._exit(0)
    os.close(w)
    chunks, deadline, timed_out = [], time.time() + req.get('timeout', 60), False
    while True:
        left = deadline - time.time()
        if left <= 0:
            timed_out = True
            break
        ready, _, _ = select.select([r], [], [], left)
        if not ready:
            timed_out = True
            break
        b = os.read(r, 1 << 16)
        if not b:
            break
        chunks.append(b)
    os.close(r)
    if timed_out:
        try:
            os.kill(pid, signal.SIGKILL)
        except OSError:
            pass
    _, status = os.waitpid(pid, 0)
    if timed_out:
        out = json.dumps({'hermetic_failure': 'timeout'})
    elif not chunks:
        out = json.dumps({'hermetic_failure': 'child died, status %d' % status})
    else:
        out = b''.join(chunks).decode('utf-8')
    proto_out.write(out.replace('\n', ' ') + '\n'); proto_out.flush()
'''

_proc = None


def _stop():
    global _proc
    if _proc is not None:
        try:
            _proc.stdin.close()
            _proc.wait(timeout=5)
        except Exception:  # noqa
            try:
                _proc.kill()
            except Exception:  # noqa
                pass
        _proc = None


def _start():
    global _proc
    cfg = {'sys_path': list(sys.path), 'preload': PRELOAD}
    _proc = subprocess.Popen([sys.executable, '-c', _ZYGOTE, json.dumps(cfg)], stdin=subprocess.PIPE,
                             stdout=subprocess.PIPE, stderr=subprocess.DEVNULL, env=dict(os.environ))
    first = _proc.stdout.readline()
    if not first or not json.loads(first.decode('utf-8')).get('ready'):
        _stop()
        raise RuntimeError('zygote did not start')
    atexit.register(_stop)


def run_fresh(mod: str, fn: str, arg: Any, timeout: int = 60) -> Any:
    """`mod.fn(arg)` evaluated in a fresh child of the pristine zygote; JSON in, JSON out.
    Returns the function's answer, or {'hermetic_failure': why} when the child produced none."""
    global _proc
    for attempt in (0, 1):
        try:
            if _proc is None or _proc.poll() is not None:
                _proc = None
                _start()
            _proc.stdin.write((json.dumps({'mod': mod, 'fn': fn, 'arg': arg, 'timeout': timeout}) + '\n').encode('utf-8'))
            _proc.stdin.flush()
            line = _proc.stdout.readline()
            if not line:
                raise RuntimeError('zygote closed the stream')
            ans = json.loads(line.decode('utf-8'))
            return ans['answer'] if 'answer' in ans else ans
        except (OSError, RuntimeError, ValueError):
            _stop()
            if attempt == 1:
                raise
    raise RuntimeError('unreachable')
