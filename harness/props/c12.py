"""C12 — Every source yields the same parsed document; archives are read completely."""
from __future__ import annotations

import contextlib
import hashlib
import io
import itertools
import json
import os
import random
import shutil
import tempfile
from typing import Any, Dict, Iterable, List, Optional

from harness import containers as C
from harness import translate_archives as translate
from harness.core import OUTSIDE, Case, Check, Finding, call, canon, jdump, short

BAD_ARCHIVE = {'BadZipFile', 'ReadError', 'Bad7zFile', 'TarError', 'CompressionError', 'HeaderError',
               'EOFError', 'error', 'LZMAError', 'ArchiveError', 'OSError', 'BadGzipFile'}
EXPECTED_ARCHIVER = {'.zip': 'zip', '.tar': 'tar', '.tar.gz': 'tar', '.tgz': 'tar', '.tar.bz2': 'tar',
                     '.tbz2': 'tar', '.7z': 'py7zr'}


def _fh():
    from pagexml.helper import file_helper
    return file_helper


def _parser():
    from pagexml import parser
    return parser


def _quiet(f, *a, **k):
    with contextlib.redirect_stdout(io.StringIO()):
        return f(*a, **k)


def _err(e: BaseException) -> str:
    n = type(e).__name__
    if 'expat' in type(e).__module__:
        return 'ExpatError'
    return n


def _drain(gen_fn) -> Dict[str, Any]:
    """run a generator function to its end: items yielded and the exception class that ended it"""
    items, exn = [], None
    try:
        with contextlib.redirect_stdout(io.StringIO()):
            for x in gen_fn():
                items.append(x)
    except Exception as e:  # noqa
        exn = _err(e)
    return {'items': items, 'exn': exn}


def _scan_view(scan) -> Dict[str, Any]:
    """scan.json apart from the recorded file name and archive information"""
    j = json.loads(json.dumps(scan.json, default=str))
    md = j.get('metadata', {})
    md.pop('filename', None)
    md.pop('pagefile_info', None)
    return j


def _digest(v: Any) -> str:
    return hashlib.sha256(jdump(canon(v)).encode('utf-8')).hexdigest()[:20]


def _flat_spec(chain: List[str], members, kind: str, names_only: bool):
    """what the statement demands for a judged tree: every regular member once, in order, with base
    name, path, bytes and chain; directories skipped; zip/tar in zip/tar opened in place"""
    out = []
    for m in members:
        if m['t'] == 'd':
            continue
        base = m['p'].rsplit('/', 1)[-1]
        if m['t'] == 'n':
            out.extend(_flat_spec(chain + [m['p']], m['m'], m['k'], names_only))
        else:
            out.append({'source_file': chain, 'archived_filename': base, 'archived_filepath': m['p'],
                        'data': None if names_only else m['d']})
    return out


def _judged(members, kind: str) -> bool:
    """is the tree inside the statement's quantifier: 7z without nested archives, zip/tar nesting only
    zip/tar, plain files that do not carry an archive extension"""
    for m in members:
        if m['t'] == 'n':
            if kind == 'sevenz' or m['k'] == 'sevenz' or not _judged(m['m'], m['k']):
                return False
        elif m['t'] == 'f' and C._ext_kind(m['p']) is not None:
            return False
    return True


def _depth(members) -> int:
    return max([1 + _depth(m['m']) for m in members if m['t'] == 'n'] + [0])


def _count(members) -> int:
    return sum(1 + (_count(m['m']) if m['t'] == 'n' else 0) for m in members)


def _ext_of(name: str) -> str:
    ext = [e for e in C.ACCEPTED_EXTS if name.endswith(e)]
    return max(ext, key=len) if ext else '?'


# ---------------------------------------------------------------------------------------
# WAVE 4 — histories: one or more archive files on disk, a SEQUENCE of passes over them in one process
# ---------------------------------------------------------------------------------------
#: pass op -> (entry point, names-only); every entry point the anchors name that reads an archive:
#:   read       read_page_archive_file(path)                 list   read_page_archive_files([path, …])
#:   str        read_page_archive_files(path)  (a str)        extractor  Extractor(path) iterated directly
#:   7zfile     read_page_7z_file(path)  (.7z only)           peek   read_page_archive_file, first item only,
#:   parse      parse_pagexml_files_from_archive(path)               the generator is left suspended
#: `extractor-again` iterates the Extractor object an earlier pass built for the same file once more;
#: `rewrite` writes a DIFFERENT member set under the SAME file name (the next answer must be the new content)
READ_OPS = {'content': ('read', False), 'names': ('read', True),
            'list-content': ('list', False), 'list-names': ('list', True),
            'str-content': ('str', False), 'str-names': ('str', True),
            'extractor-content': ('extractor', False), 'extractor-names': ('extractor', True),
            'extractor-again': ('extractor', None),
            '7z-content': ('7zfile', False), '7z-names': ('7zfile', True),
            'peek-content': ('peek', False), 'peek-names': ('peek', True),
            'parse': ('parse', None)}


def _reread_plan(inp):
    """states: [(archive index, member tree)] (the initial archives, then one per rewrite);
    plan: per pass None (rewrite) or {'entry', 'names_only', 'ons', 'states', 'history'} where history is
    '' (first read of a fresh file), 'reread' (the file was read before in this process) or 'rewritten'
    (another member set was written under this file name before)"""
    states = [(i, a['members']) for i, a in enumerate(inp['archives'])]
    cur = {i: i for i in range(len(inp['archives']))}
    touched, rewritten, ex_mode = set(), set(), {}
    plan = []
    for p in inp['passes']:
        on = p.get('on', 0)
        ons = list(on) if isinstance(on, list) else [on]
        if p['op'] == 'rewrite':
            states.append((ons[0], p['members']))
            cur[ons[0]] = len(states) - 1
            rewritten.add(ons[0])
            plan.append(None)
            continue
        entry, no = READ_OPS[p['op']]
        if entry != 'list':
            ons = ons[:1]
        if entry == 'extractor':
            if no is None:
                no = ex_mode.get(ons[0], False)
            ex_mode[ons[0]] = no
        hist = 'rewritten' if any(o in rewritten for o in ons) else 'reread' if any(o in touched for o in ons) else ''
        plan.append({'entry': entry, 'names_only': no, 'ons': ons, 'states': [cur[o] for o in ons], 'history': hist})
        touched.update(ons)
    return states, plan


def _drop_empty_xml(members):
    """member tree without empty `.xml` members (for parse passes: an empty document is C13's subject)"""
    out = []
    for m in members:
        if m['t'] == 'f' and m['p'].endswith('.xml') and m['d'] == '':
            continue
        out.append(dict(m, m=_drop_empty_xml(m['m'])) if m['t'] == 'n' else m)
    return out


POOL_XML = ['0001.xml', '0002.xml', 'page.xml']
POOL_OTHER = ['notes.txt', 'img.jpg', 'data.dat']


def _dup_names(rng: random.Random, members, p: float = 0.6):
    """rare shape: the SAME base name in different directories (also inside nested archives and across outer /
    inner archives): base names redrawn from a small pool, full paths stay distinct within one container"""
    used = {m['p'].rstrip('/') for m in members}
    out = []
    for m in members:
        m = dict(m)
        if m['t'] == 'n':
            m['m'] = _dup_names(rng, m['m'], p)
        if m['t'] != 'd' and rng.random() < p:
            d = m['p'].rsplit('/', 1)[0] + '/' if '/' in m['p'] else ''
            if rng.random() < 0.3:
                d = rng.choice(['inv1/', 'inv2/', ''])
            if m['t'] == 'n':
                base = 'in' + _ext_of(m['p'])
            elif m['p'].endswith('.xml'):
                base = rng.choice(POOL_XML)
            else:
                base = rng.choice(POOL_OTHER)
            if d + base not in used:
                used.add(d + base)
                m['p'] = d + base
        out.append(m)
    return out


class C12(Check):
    pid = 'C12'
    props_module = 'PagexmlModel.Props.C12'
    anchors = {'pagexml/helper/file_helper.py': ['parse_archived_filename', 'get_archiver_mode',
                                                 'get_archive_functions', 'Extractor', 'read_tar_handle',
                                                 'read_zip_handle', 'read_7z_handle', 'read_inner_archive',
                                                 'read_page_archive_file', 'read_page_archive_files'],
               'pagexml/parser.py': ['parse_pagexml_file', 'parse_pagexml_files', 'read_pagexml_dirs',
                                     'parse_pagexml_files_from_directory', 'parse_pagexml_files_from_archive']}
    level_note = ('proved: extension dispatch for every accepted extension with any stem and directory (against the '
                  'tables regenerated from the source), enumeration of every regular member once, in order, with base '
                  'name, path, bytes and chain for archive trees of unbounded depth, names-only, and that the '
                  'single-file parser depends on the content only; SAMPLED on real containers: that zipfile / tarfile / '
                  'py7zr list members faithfully and in archive order, that expat treats str / bytes / file content '
                  'alike, and glob\'s directory walk. Archive trees beyond the quantifier (7z in or around other '
                  'containers, corrupt / mislabelled containers, members with an archive extension) are mirrored as an '
                  'observation only (tagged outside-quantifier: differences recorded, not judged).  Histories (case kind '
                  '`reread`): the model is a pure function of the archive content, so the SAME model answer is demanded of '
                  'every pass over a file in one process (read again, names-only then content, parsed then read, through '
                  'read_page_archive_file / read_page_archive_files(list | str) / Extractor (iterated twice) / '
                  'read_page_7z_file / parse_pagexml_files_from_archive, two archives alternately, and after another member '
                  'set was written under the same file name); that the real code keeps no state between calls is SAMPLED '
                  'this way, not proved')
    assumptions = ['zipfile, tarfile and py7zr list the regular members of a container in archive order with their exact '
                   'bytes; member names are distinct within one container (zipfile opens members by name)',
                   'posixpath.split/splitext/normpath transcribed by hand (os.sep = "/"), checked on adversarial paths',
                   'directory routes: glob skips entries whose name starts with a dot; order of a directory walk is '
                   'unspecified and compared as a set',
                   'tar members other than regular files and directories (links, devices) are not generated',
                   'which container format each library call opens (Model/C12.lean `opens`: tarfile mode r:gz only gzip '
                   'tars, …) and that a failed open raises (BadZipFile / ReadError / Bad7zFile, compared as one class)']
    technique = 'Lean 4 proof over hand-written model + tables regenerated from the source by an ast translator + differential correspondence on real containers'
    nontrivial_rule = ('distinct inputs; non-trivial = a container with at least two regular members or a nested '
                       'container, a path with a separator or a double extension, a route case with at least one document, '
                       'a history over an archive with at least two members')

    _model_members: Dict[int, Any] = {}

    def translate(self) -> Dict[str, str]:
        return translate.generated_files()

    # ---------------------------------------------------------------- generation
    def cases(self, rng: random.Random, tier: str) -> Iterable[Case]:
        out: List[Case] = []
        quick = tier == 'quick'
        doc = lambda i: C.hexs(C.doc_xml(C.rand_doc_spec(random.Random(i), f's{i}')).encode('utf-8'))  # noqa
        # -- corpus: past failures first
        for s in ['x.tar.gz', 'x.tar.bz2', 'd/x.tgz', 'a\\b\\c.7z', 'a\\b/c\\x.zip', '.zip', '..zip', 'a/.tar.gz',
                  'a/b/', '', '/', '//a\\b', '///a\\b', 'a\\..//..', 'x.gz', 'x.tar.xz', 'x.TAR.GZ', 'tar.gz',
                  'x.tar.tar.gz', 'x.tar..gz', 'x..tar.gz', 'a.b/c', 'a.zip/c', '../x.tbz2', './x.tar', 'x.tar/',
                  'a\\', '\\a.zip', 'a/\\b.zip', '\\\\a//b.tar']:
            out.append(Case('paf', {'s': s}, ['corpus']))
        tree0 = [{'t': 'd', 'p': 'd/'}, {'t': 'f', 'p': 'd/a.xml', 'd': doc(1)}, {'t': 'f', 'p': 'd/e.txt', 'd': ''},
                 {'t': 'f', 'p': 'd/e.xml', 'd': ''}, {'t': 'f', 'p': 'b.xml', 'd': doc(2)}]
        for ext in C.ACCEPTED_EXTS:
            for no in (False, True):
                out.append(Case('archive', {'name': 'c' + ext, 'kind': C.KIND_OF_EXT[ext], 'members': tree0,
                                            'names_only': no}, ['corpus', 'ext=' + ext]))
        inner = [{'t': 'f', 'p': 'i/p.xml', 'd': doc(3)}, {'t': 'd', 'p': 'i/'}, {'t': 'f', 'p': 'q.txt', 'd': '00ff'}]
        for ok, ik, iext in [('zip', 'tar', '.tar'), ('tar', 'zip', '.zip'), ('zip', 'targz', '.tar.gz'),
                             ('targz', 'tarbz2', '.tbz2'), ('tar', 'targz', '.tgz'), ('zip', 'zip', '.zip'),
                             ('tarbz2', 'tar', '.tar'), ('zip', 'tarbz2', '.tar.bz2')]:
            t = [{'t': 'f', 'p': 'a.xml', 'd': doc(4)}, {'t': 'n', 'p': 'sub/in' + iext, 'k': ik, 'm': inner},
                 {'t': 'f', 'p': 'z.xml', 'd': doc(5)}]
            out.append(Case('archive', {'name': 'o' + C.EXTS_OF_KIND[ok][0], 'kind': ok, 'members': t,
                                        'names_only': False}, ['corpus', 'nested=' + iext]))
        # names that merely look like archives: the double-extension rule must not fire on them
        look = [{'t': 'f', 'p': 'avatar.gz', 'd': '1f8b0800'}, {'t': 'f', 'p': 'd/star.bz2', 'd': '425a'},
                {'t': 'f', 'p': 'x.zip.txt', 'd': '00'}, {'t': 'f', 'p': 'tgz', 'd': '01'}, {'t': 'f', 'p': 'd/.zip', 'd': '02'},
                {'t': 'f', 'p': 'x.tar.xz', 'd': '03'}, {'t': 'f', 'p': 'b.xml', 'd': doc(2)}]
        for okind in ('zip', 'tar'):
            out.append(Case('archive', {'name': 'c' + C.EXTS_OF_KIND[okind][0], 'kind': okind, 'members': look,
                                        'names_only': False}, ['corpus', 'lookalike']))
        # depth 2
        t2 = [{'t': 'n', 'p': 'l1.zip', 'k': 'zip', 'm': [
            {'t': 'f', 'p': 'm.xml', 'd': doc(6)},
            {'t': 'n', 'p': 'x/l2.tgz', 'k': 'targz', 'm': [{'t': 'f', 'p': 'deep/d.xml', 'd': doc(7)}]},
            {'t': 'f', 'p': 'after.xml', 'd': doc(8)}]}, {'t': 'f', 'p': 'top.xml', 'd': doc(9)}]
        out.append(Case('archive', {'name': 'o.tar', 'kind': 'tar', 'members': t2, 'names_only': False},
                        ['corpus', 'depth2']))
        out.append(Case('archive', {'name': 'o.zip', 'kind': 'zip', 'members': t2, 'names_only': True},
                        ['corpus', 'depth2']))
        # beyond the statement (model correspondence only): 7z inside zip, zip inside 7z, corrupt / mislabelled
        out.append(Case('archive', {'name': 'o.zip', 'kind': 'zip', 'names_only': False, 'members': [
            {'t': 'n', 'p': 'in.7z', 'k': 'sevenz', 'm': inner}, {'t': 'f', 'p': 'a.xml', 'd': doc(1)}]}, ['corpus', 'beyond']))
        out.append(Case('archive', {'name': 'o.7z', 'kind': 'sevenz', 'names_only': False, 'members': [
            {'t': 'n', 'p': 'in.zip', 'k': 'zip', 'm': inner}, {'t': 'f', 'p': 'a.xml', 'd': doc(1)}]}, ['corpus', 'beyond']))
        out.append(Case('archive', {'name': 'o.zip', 'kind': 'zip', 'names_only': False, 'members': [
            {'t': 'f', 'p': 'a.xml', 'd': doc(1)}, {'t': 'f', 'p': 'broken.tar', 'd': '6a756e6b'},
            {'t': 'f', 'p': 'b.xml', 'd': doc(2)}]}, ['corpus', 'beyond', 'corrupt']))
        out.append(Case('archive', {'name': 'o.tar', 'kind': 'zip', 'names_only': False, 'members': tree0},
                        ['corpus', 'beyond', 'mislabelled']))
        out.append(Case('archive', {'name': 'o.rar', 'kind': 'zip', 'names_only': False, 'members': tree0},
                        ['corpus', 'beyond', 'unknown-ext']))
        out.append(Case('archive', {'name': 'we\\ird.zip', 'kind': 'zip', 'names_only': False, 'members': tree0},
                        ['corpus', 'backslash-name']))
        # regression: read_pagexml_dirs with / without trailing separator, sibling directory with the same prefix
        out.append(Case('dirs', {'members': [{'t': 'f', 'p': 'dir/a.xml', 'd': doc(1)},
                                             {'t': 'f', 'p': 'dir/sub/b.xml', 'd': doc(2)},
                                             {'t': 'f', 'p': 'dir/sub/deep/c.xml', 'd': doc(3)},
                                             {'t': 'f', 'p': 'dir/n.txt', 'd': '6869'},
                                             {'t': 'f', 'p': 'dir2/z.xml', 'd': doc(4)}], 'root': 'dir'}, ['corpus']))
        for data_kind in ('absent', 'text', 'bytes'):
            out.append(Case('single', {'doc': doc(1), 'data': data_kind, 'empty_data': False}, ['corpus']))
        out.append(Case('single', {'doc': doc(1), 'data': 'text', 'empty_data': True}, ['corpus', 'empty-data']))
        out.append(Case('single', {'doc': doc(1), 'data': 'bytes', 'empty_data': True}, ['corpus', 'empty-data']))

        # -- exhaustive small enumerations
        # every accepted extension x directory form x stem form: dispatch
        stems = ['x', 'a.b', 'x.tar', '.h', 'ü', 'a b', 'x.', 'zip', 'x.tar.gz']
        dirs = ['', '/', 'd/', '/t/d.zip/', './', '../u/', 'd\\', 'c\\d\\', 'a.tar/b.c/']
        for ext, st, d in itertools.product(C.ACCEPTED_EXTS, stems, dirs):
            out.append(Case('dispatch', {'dir': d, 'stem': st, 'ext': ext}, ['enum']))
        # all strings up to length L over an adversarial alphabet through parse_archived_filename
        alpha = ['a', '.', '/', '\\', '.gz', '.tar']
        L = 4 if quick else 5
        for n in range(0, L + 1):
            for combo in itertools.product(alpha, repeat=n):
                out.append(Case('paf', {'s': ''.join(combo)}, ['enum']))
        # every outer kind x every inner zip/tar kind+extension, both modes (WAVE 4: the statement's "zip and tar
        # archives nested inside zip and tar archives" — the quick tier runs the reduced grid outer in {zip, tar})
        for okind in (('zip', 'tar') if quick else ('zip', 'tar', 'targz', 'tarbz2')):
            for iext in C.ACCEPTED_EXTS[:-1]:
                for no in (False, True):
                    t = [{'t': 'f', 'p': 'a.xml', 'd': doc(4)},
                         {'t': 'n', 'p': 'd/in' + iext, 'k': C.KIND_OF_EXT[iext], 'm': inner},
                         {'t': 'f', 'p': 'd/z.xml', 'd': doc(5)}]
                    out.append(Case('archive', {'name': 'o' + C.EXTS_OF_KIND[okind][-1], 'kind': okind,
                                                'members': t, 'names_only': no}, ['enum', 'nested=' + iext]))

        # -- random structured
        n_arch = 120 if quick else 2500
        for i in range(n_arch):
            ext = C.ACCEPTED_EXTS[i % len(C.ACCEPTED_EXTS)]
            kind = C.KIND_OF_EXT[ext]
            beyond = rng.random() < 0.1
            depth = 0 if kind == 'sevenz' and not beyond else rng.choice([0, 1, 1, 2])
            ms = C.rand_members(rng, depth, allow_7z_inside=beyond, in_kind=kind, n_max=rng.choice([3, 6, 10]))
            name = rng.choice(['arch', 'ärch', 'v1.0', 'x.tar', 'a b']) + ext
            tags = ['random', 'ext=' + ext, f'depth={_depth(ms)}']
            inp = {'name': name, 'kind': kind, 'members': ms, 'names_only': rng.random() < 0.35}
            if not _judged(ms, kind):
                tags.append('beyond')
            out.append(Case('archive', inp, tags))
        n_routes = 10 if quick else 200
        for i in range(n_routes):
            ms = [m for m in C.rand_members(rng, 0, False, n_max=10, n_min=3) if not (m['t'] == 'f' and m['p'].endswith('.xml') and m['d'] == '')]
            nest_kind = rng.choice(['zip', 'tar', 'targz', 'tarbz2'])
            out.append(Case('routes', {'members': ms, 'nest_outer': rng.choice(['zip', 'tar', 'targz', 'tarbz2']),
                                       'nest_inner': nest_kind, 'nest_ext': rng.choice(C.EXTS_OF_KIND[nest_kind])},
                            ['random']))
        for i in range(6 if quick else 60):
            ms = [m for m in C.rand_members(rng, 0, False, n_max=10, n_min=2) if m['t'] == 'f' and
                  not (m['p'].endswith('.xml') and m['d'] == '')]
            root = rng.choice(['dir', 'd.x', 'ü'])
            ms = [dict(m, p=rng.choice([root, root, root + '2', root + '/sub']) + '/' + m['p']) for m in ms]
            out.append(Case('dirs', {'members': ms, 'root': root}, ['random']))
        for i in range(10 if quick else 100):
            out.append(Case('single', {'doc': C.hexs(C.doc_xml(C.rand_doc_spec(rng, f'r{i}')).encode('utf-8')),
                                       'data': rng.choice(['absent', 'text', 'bytes']), 'empty_data': False}, ['random']))
        # malformed stream: random path strings
        for _ in range(100 if quick else 3000):
            n = rng.randint(0, 9)
            s = ''.join(rng.choice(['a', 'b', '.', '..', '/', '\\', '.tar', '.gz', '.bz2', '.zip', '.7z', '.tgz', ' ', 'é'])
                        for _ in range(n))
            out.append(Case('paf', {'s': s}, ['random']))
        out.extend(self._wave4_cases(rng, quick, doc))
        # WAVE 3: archive trees "beyond the statement" (7z inside zip/tar, archives inside 7z, corrupt or mislabelled
        # containers, members carrying an archive extension: the quantifier is "zip and tar archives nested inside zip
        # and tar archives", "accepted file-name extensions") are mirrored by the model only as an observation; the
        # oracle never judged them: a difference is recorded in the evidence, it breaks no obligation
        for c in out:
            if c.kind == 'archive' and OUTSIDE not in c.tags and \
                    ('beyond' in c.tags or not _judged(c.input['members'], c.input['kind'])):
                c.tags.append(OUTSIDE)
            if c.kind == 'reread' and OUTSIDE not in c.tags and not self._reread_judged(c.input):
                c.tags.append(OUTSIDE)
        return out

    @staticmethod
    def _reread_judged(inp) -> bool:
        states, _ = _reread_plan(inp)
        return all(_judged(ms, inp['archives'][i]['kind']) for i, ms in states)

    def _wave4_cases(self, rng: random.Random, quick: bool, doc) -> List[Case]:
        """WAVE 4: (A) histories — the same archive file(s) read several times in one process through every entry
        point, also after the file was written again; (D) every entry point on a fresh file; (C) rare shapes —
        the same base name in different directories / in outer and inner archives, more than 10 members"""
        out: List[Case] = []
        txt = lambda s: C.hexs(s.encode('utf-8'))  # noqa
        # member trees: same base name `a.xml` in two directories, an empty member, non-ASCII content
        flat1 = [{'t': 'd', 'p': 'd/'}, {'t': 'f', 'p': 'd/a.xml', 'd': doc(11)}, {'t': 'f', 'p': 'd/e.txt', 'd': ''},
                 {'t': 'f', 'p': 'n/a.xml', 'd': doc(12)}, {'t': 'f', 'p': 'nötes.txt', 'd': txt('plain nötes — ünï\n')},
                 {'t': 'f', 'p': 'b.xml', 'd': doc(13)}]
        # the member set written over it: one name kept with OTHER content, one name gone, new names
        flat2 = [{'t': 'f', 'p': 'd/a.xml', 'd': doc(14)}, {'t': 'f', 'p': 'c.xml', 'd': doc(15)},
                 {'t': 'f', 'p': 'd/new.txt', 'd': txt('nieuw')}, {'t': 'f', 'p': 'b.xml', 'd': doc(16)},
                 {'t': 'f', 'p': 'z/a.xml', 'd': doc(17)}]
        in1 = [{'t': 'f', 'p': 'd/a.xml', 'd': doc(18)}, {'t': 'f', 'p': 'q.txt', 'd': '00ff'}, {'t': 'f', 'p': 'a.xml', 'd': doc(19)}]
        in2 = [{'t': 'f', 'p': 'd/a.xml', 'd': doc(20)}, {'t': 'f', 'p': 'r.txt', 'd': ''}]
        nest1 = flat1[:4] + [{'t': 'n', 'p': 'sub/in.zip', 'k': 'zip', 'm': in1}, flat1[4],
                             {'t': 'n', 'p': 'sub2/in.tgz', 'k': 'targz', 'm': in2}, flat1[5]]
        nest2 = [flat2[0], {'t': 'n', 'p': 'sub/in.zip', 'k': 'zip', 'm': in2}, flat2[1],
                 {'t': 'n', 'p': 'other/in.tar', 'k': 'tar', 'm': in1}] + flat2[2:]
        layouts = [('flat', flat1, flat2), ('nested', nest1, nest2)]

        def arch(ext, members, stem='c'):
            return {'name': stem + ext, 'kind': C.KIND_OF_EXT[ext], 'members': members}

        def reread(archives, passes, tags):
            return Case('reread', {'archives': archives, 'passes': [dict(p) for p in passes]}, tags)
        patterns = [['content', 'content'], ['names', 'content'], ['content', 'names'], ['parse', 'parse'],
                    ['content', 'parse'], ['parse', 'content'], ['content', 'rewrite', 'content'],
                    ['names', 'rewrite', 'names'], ['parse', 'rewrite', 'parse'], ['peek-content', 'content'],
                    ['extractor-content', 'extractor-again'], ['list-content', 'str-content'],
                    ['str-names', 'list-names', 'names']]
        entry_ops = ['list-content', 'list-names', 'str-content', 'str-names', 'extractor-content', 'extractor-names']
        for ext in C.ACCEPTED_EXTS:
            for lname, m1, m2 in layouts:
                if lname == 'nested' and ext == '.7z':
                    continue        # a 7z archive stays flat (`_judged`)
                pats = patterns + ([['7z-content', '7z-content'], ['content', '7z-content'], ['7z-names', 'content']]
                                   if ext == '.7z' else [])
                for pat in pats:
                    passes = [{'op': 'rewrite', 'on': 0, 'members': m2} if op == 'rewrite' else {'op': op, 'on': 0}
                              for op in pat]
                    out.append(reread([arch(ext, m1)], passes, ['enum', 'history', 'ext=' + ext, lname]))
                # (D) every entry point on a fresh file
                for op in entry_ops + (['7z-content', '7z-names'] if ext == '.7z' else []):
                    out.append(reread([arch(ext, m1)], [{'op': op, 'on': 0}], ['enum', 'entry', 'ext=' + ext, lname]))
        # interleaving: two different archives (same member names, other content) read alternately
        inter = [[('content', 0), ('content', 1), ('content', 0)], [('names', 0), ('content', 1), ('content', 0)],
                 [('parse', 0), ('parse', 1), ('parse', 0)], [('list-content', [0, 1]), ('list-content', [1, 0])],
                 [('list-names', [0, 1]), ('content', 1)]]
        for i, ext in enumerate(C.ACCEPTED_EXTS):
            for ext_b in (ext, C.ACCEPTED_EXTS[(i + 1) % len(C.ACCEPTED_EXTS)]):
                nested = i % 2 == 1 and '.7z' not in (ext, ext_b)
                a, b = arch(ext, nest1 if nested else flat1, 'a'), arch(ext_b, nest2 if nested else flat2, 'b')
                for pat in inter:
                    out.append(reread([a, b], [{'op': op, 'on': on} for op, on in pat],
                                      ['enum', 'interleave', 'ext=' + ext, 'ext=' + ext_b]))
        # (C) rare shapes as plain archive reads: more than 10 members, the same base name in many directories
        many = [{'t': 'f', 'p': f'inv{j % 3}/{j // 3:04d}.xml', 'd': doc(30 + j % 4)} for j in range(12)] + \
               [{'t': 'f', 'p': f'inv{j}/readme.txt', 'd': txt(f'réadme {j}') if j else ''} for j in range(3)]
        many_n = many[:5] + [{'t': 'n', 'p': 'inv0/in.zip', 'k': 'zip', 'm': many[3:9]},
                             {'t': 'n', 'p': 'inv1/in.tbz2', 'k': 'tarbz2', 'm': many[6:]}] + many[5:]
        for ext in C.ACCEPTED_EXTS:
            for tree, lname in ((many, 'flat'), (many_n, 'nested')):
                if lname == 'nested' and ext == '.7z':
                    continue
                for no in (False, True):
                    out.append(Case('archive', dict(arch(ext, tree), names_only=no), ['enum', 'samebase', 'many', 'ext=' + ext]))
        # random: archive reads with duplicate base names and up to 14 members per level
        for i in range(60 if quick else 700):
            ext = C.ACCEPTED_EXTS[i % len(C.ACCEPTED_EXTS)]
            kind = C.KIND_OF_EXT[ext]
            depth = 0 if kind == 'sevenz' else rng.choice([0, 1, 1, 2])
            n_max = rng.choice([4, 8]) if kind == 'sevenz' else rng.choice([6, 10, 14])
            ms = _dup_names(rng, C.rand_members(rng, depth, False, in_kind=kind, n_max=n_max, n_min=n_max // 2))
            out.append(Case('archive', {'name': rng.choice(['arch', 'ärch', 'v1.0']) + ext, 'kind': kind, 'members': ms,
                                        'names_only': rng.random() < 0.35}, ['random', 'samebase', 'ext=' + ext]))
        # random histories: random pass sequences over one or two archives, every entry point, rewrites
        for i in range(70 if quick else 700):
            ext = C.ACCEPTED_EXTS[i % len(C.ACCEPTED_EXTS)]
            exts = [ext] + ([rng.choice(C.ACCEPTED_EXTS[:-1] if quick else C.ACCEPTED_EXTS)] if rng.random() < 0.3 else [])

            def tree(e):
                kind = C.KIND_OF_EXT[e]
                ms = C.rand_members(rng, 0 if kind == 'sevenz' else rng.choice([0, 1, 1, 2]), False, in_kind=kind,
                                    n_max=rng.choice([3, 5]) if kind == 'sevenz' else rng.choice([3, 6, 12]), n_min=1)
                return _drop_empty_xml(_dup_names(rng, ms, 0.4))
            archives = [arch(e, tree(e), 'ab'[j]) for j, e in enumerate(exts)]
            passes = []
            for _ in range(rng.choice([2, 2, 3, 4])):
                on = rng.randrange(len(archives))
                ops = [o for o in READ_OPS if not o.startswith('7z') or exts[on] == '.7z']
                op = rng.choice(ops + ['content', 'names', 'parse', 'rewrite'])
                if op == 'rewrite':
                    passes.append({'op': 'rewrite', 'on': on, 'members': tree(exts[on])})
                    op = rng.choice(['content', 'names', 'parse', 'list-content', 'extractor-again'])
                if op.startswith('list') and len(archives) > 1 and rng.random() < 0.5:
                    on = rng.choice([[0, 1], [1, 0], [0, 0]])
                passes.append({'op': op, 'on': on})
            out.append(reread(archives, passes, ['random', 'history', 'ext=' + ext]))
        return out

    # ---------------------------------------------------------------- implementation
    def impl(self, case: Case) -> Any:
        k = case.kind
        if k == 'paf':
            fh = _fh()
            return {'paf': call(lambda: list(fh.parse_archived_filename(case.input['s']))),
                    'mode': call(lambda: list(fh.get_archiver_mode(case.input['s'])))}
        if k == 'dispatch':
            fh = _fh()
            p = case.input['dir'] + case.input['stem'] + case.input['ext']
            return {'paf': call(lambda: list(fh.parse_archived_filename(p))),
                    'mode': call(lambda: list(fh.get_archiver_mode(p)))}
        scratch = tempfile.mkdtemp(prefix='verif-c12-')
        try:
            if k == 'archive':
                return self._impl_archive(case, scratch)
            if k == 'reread':
                return self._impl_reread(case, scratch)
            if k == 'routes':
                return self._impl_routes(case, scratch)
            if k == 'dirs':
                return self._impl_dirs(case, scratch)
            if k == 'single':
                return self._impl_single(case, scratch)
        finally:
            shutil.rmtree(scratch, ignore_errors=True)
        raise ValueError(k)

    @staticmethod
    def _canon_items(items, scratch) -> List[Dict[str, Any]]:
        out = []
        for info, data in items:
            d: Any
            if data is None:
                d = None
            elif isinstance(data, (bytes, bytearray)):
                d = {'hex': bytes(data).hex() if len(data) <= 4096 else None, 'sha': C.sha(bytes(data))}
            else:
                d = {'type': type(data).__name__}
            out.append({'source_file': [s.replace(scratch, '/T') for s in info['source_file']],
                        'archived_filename': info['archived_filename'],
                        'archived_filepath': info['archived_filepath'], 'data': d})
        return out

    def _impl_archive(self, case: Case, scratch: str) -> Any:
        fh = _fh()
        inp = case.input
        members = json.loads(json.dumps(inp['members']))
        path = os.path.join(scratch, inp['name'])
        blob = C.container_bytes(inp['kind'], members, scratch)
        with open(path, 'wb') as f:
            f.write(blob)
        # nested containers are yielded unopened in some cases; the model is given their SHA-256 (same build)
        self._model_members[id(case)] = C.model_members(members, scratch)
        r = _drain(lambda: fh.read_page_archive_file(path, filenames_only=inp['names_only']))
        out = {'items': self._canon_items(r['items'], scratch), 'exn': r['exn']}
        if out['exn'] in BAD_ARCHIVE:
            out['exn'] = 'BadArchive'
        # independent recomputation with the container libraries (oracle input)
        try:
            lib = C.lib_list(path, inp['kind'], ['/T/' + inp['name']])
            out['lib'] = [{'source_file': c, 'archived_filename': b, 'archived_filepath': p,
                           'data': None if inp['names_only'] else {'hex': d.hex() if len(d) <= 4096 else None, 'sha': C.sha(d)}}
                          for c, b, p, d in lib]
        except Exception as e:  # noqa
            out['lib'] = {'err': type(e).__name__}
        return out

    def _impl_reread(self, case: Case, scratch: str) -> Any:
        """archive file(s) written once, then the passes of the case in order, in this process; every pass is
        drained completely and kept: at the end the earlier answers are canonicalised again (they must not have
        been changed by a later call)"""
        fh, P = _fh(), _parser()
        inp = json.loads(json.dumps(case.input))
        archives = inp['archives']
        paths = [os.path.join(scratch, a['name']) for a in archives]
        states, plan = _reread_plan(inp)
        st_out, st_model = [], []

        def write(si: int):
            i, members = states[si]
            a = archives[i]
            with open(paths[i], 'wb') as f:
                f.write(C.container_bytes(a['kind'], members, scratch))
            st_model.append(C.model_members(members, scratch))
            so: Dict[str, Any] = {'on': i}
            try:    # independent recomputation with the container libraries (oracle input)
                so['lib'] = [{'source_file': c, 'archived_filename': b, 'archived_filepath': p,
                              'data': {'sha': C.sha(d)}}
                             for c, b, p, d in C.lib_list(paths[i], a['kind'], ['/T/' + a['name']])]
            except Exception as e:  # noqa
                so['lib'] = {'err': type(e).__name__}
            # every document member parsed from its text alone: the reference scan of the parse passes
            so['refs'] = []
            if any(pl is not None and pl['entry'] == 'parse' for pl in plan):
                for w in _flat_spec(['/T/' + a['name']], members, a['kind'], False):
                    if w['archived_filename'].endswith('.xml'):
                        raw = bytes.fromhex(w['data'])
                        so['refs'].append(call(lambda: _digest(_scan_view(_quiet(
                            P.parse_pagexml_file, w['archived_filename'], pagexml_data=raw.decode('utf-8'))))))
            st_out.append(so)
        for si in range(len(archives)):
            write(si)
        n_written = len(archives)
        extractors: Dict[int, Any] = {}
        suspended = []
        kept = []
        passes_out = []

        def view(scan):
            pi = scan.metadata.get('pagefile_info') or {}
            return {'key': pi.get('archived_filepath'), 'json': _digest(_scan_view(scan)),
                    'filename': scan.metadata.get('filename', '').replace(scratch, '/T'),
                    'chain': [s.replace(scratch, '/T') for s in pi.get('source_file', [])]}

        def snapshot(entry, items):
            return [view(s) for s in items] if entry == 'parse' else self._canon_items(items, scratch)
        for p, pl in zip(inp['passes'], plan):
            if pl is None:
                write(n_written)
                n_written += 1
                passes_out.append({'op': 'rewrite'})
                kept.append(None)
                continue
            entry, no, on = pl['entry'], pl['names_only'], pl['ons'][0]
            path = paths[on]
            po: Dict[str, Any] = {'op': p['op']}
            if entry == 'read':
                r = _drain(lambda: fh.read_page_archive_file(path, filenames_only=no))
            elif entry == 'list':
                arg = [paths[o] for o in pl['ons']]
                r = _drain(lambda: fh.read_page_archive_files(arg, filenames_only=no))
                po['arg_unchanged'] = arg == [paths[o] for o in pl['ons']]
            elif entry == 'str':
                r = _drain(lambda: fh.read_page_archive_files(path, filenames_only=no))
            elif entry == '7zfile':
                r = _drain(lambda: fh.read_page_7z_file(path, filenames_only=no))
            elif entry == 'extractor':
                def it():
                    if p['op'] != 'extractor-again' or on not in extractors:
                        extractors[on] = fh.Extractor(path, filenames_only=no)
                    return iter(extractors[on])
                r = _drain(it)
            elif entry == 'peek':
                def first():
                    g = fh.read_page_archive_file(path, filenames_only=no)
                    suspended.append(g)
                    for x in g:
                        yield x
                        return
                r = _drain(first)
            elif entry == 'parse':
                r = _drain(lambda: P.parse_pagexml_files_from_archive(path))
            else:
                raise ValueError(entry)
            try:
                po['items'] = snapshot(entry, r['items'])
            except Exception as e:  # noqa — what was yielded is not (file_info, data) / a scan
                po['items'] = []
                r = {'items': [], 'exn': 'Unusable:' + _err(e)}
            po['exn'] = 'BadArchive' if r['exn'] in BAD_ARCHIVE else r['exn']
            kept.append((entry, r['items']))
            passes_out.append(po)
        for po, k in zip(passes_out, kept):
            if k is not None:
                try:
                    po['unchanged_later'] = snapshot(*k) == po['items']
                except Exception:  # noqa
                    po['unchanged_later'] = False
        for g in suspended:
            try:
                g.close()
            except Exception:  # noqa
                pass
        self._model_members[id(case)] = st_model
        return {'states': st_out, 'passes': passes_out}

    def _impl_routes(self, case: Case, scratch: str) -> Any:
        P = _parser()
        members = json.loads(json.dumps(case.input['members']))
        docs = [m for m in members if m['t'] == 'f' and m['p'].endswith('.xml')]
        out: Dict[str, Any] = {'ref': {}, 'routes': {}}

        def view(scan, key=None):
            pi = scan.metadata.get('pagefile_info')
            return {'key': key if key is not None else (pi['archived_filepath'] if pi else None),
                    'json': _digest(_scan_view(scan)),
                    'filename': scan.metadata.get('filename', '').replace(scratch, '/T'),
                    'chain': [s.replace(scratch, '/T') for s in pi['source_file']] if pi else None}
        for m in docs:
            text = bytes.fromhex(m['d']).decode('utf-8')
            r = call(lambda: _digest(_scan_view(_quiet(P.parse_pagexml_file, m['p'], pagexml_data=text))))
            out['ref'][m['p']] = r
        root = os.path.join(scratch, 'tree')
        C.write_tree(root, members, scratch)
        # single-file routes
        for route in ('path', 'str', 'bytes'):
            res = []
            for m in docs:
                raw = bytes.fromhex(m['d'])
                if route == 'path':
                    f = lambda: view(_quiet(P.parse_pagexml_file, os.path.join(root, m['p'])), m['p'])  # noqa
                elif route == 'str':
                    f = lambda: view(_quiet(P.parse_pagexml_file, m['p'], pagexml_data=raw.decode('utf-8')), m['p'])  # noqa
                else:
                    f = lambda: view(_quiet(P.parse_pagexml_file, m['p'], pagexml_data=raw), m['p'])  # noqa
                res.append(call(f))
            out['routes'][route] = {'items': res, 'exn': None, 'ordered': True}
        # batch routes on loose files
        paths = [os.path.join(root, m['p']) for m in docs]

        def keyed(scans):
            return [view(s, os.path.relpath(s.metadata['filename'], root)) for s in scans]
        r = _drain(lambda: P.parse_pagexml_files(paths))
        out['routes']['files'] = {'items': keyed(r['items']), 'exn': r['exn'], 'ordered': True}
        r = _drain(lambda: P.parse_pagexml_files(P.read_pagexml_dirs(root)))
        out['routes']['dirs'] = {'items': sorted(keyed(r['items']), key=lambda x: x['key']), 'exn': r['exn'], 'ordered': False}
        r = _drain(lambda: P.parse_pagexml_files_from_directory([root]))
        out['routes']['directory'] = {'items': sorted(keyed(r['items']), key=lambda x: x['key']), 'exn': r['exn'], 'ordered': False}
        # every container format and extension
        for ext in C.ACCEPTED_EXTS:
            path = os.path.join(scratch, 'c' + ext)
            with open(path, 'wb') as f:
                f.write(C.container_bytes(C.KIND_OF_EXT[ext], members, scratch))
            r = _drain(lambda: P.parse_pagexml_files_from_archive(path))
            out['routes']['archive' + ext] = {'items': [view(s) for s in r['items']], 'exn': r['exn'], 'ordered': True}
        # nested: the whole member set inside an inner container inside an outer one (depth 2 with a wrapper)
        inner = {'t': 'n', 'p': 'wrap/in' + case.input['nest_ext'], 'k': case.input['nest_inner'], 'm': members}
        path = os.path.join(scratch, 'n' + C.EXTS_OF_KIND[case.input['nest_outer']][0])
        with open(path, 'wb') as f:
            f.write(C.container_bytes(case.input['nest_outer'], [inner], scratch))
        r = _drain(lambda: P.parse_pagexml_files_from_archive(path))
        out['routes']['nested'] = {'items': [view(s) for s in r['items']], 'exn': r['exn'], 'ordered': True}
        return out

    def _impl_dirs(self, case: Case, scratch: str) -> Any:
        P = _parser()
        members = case.input['members']
        C.write_tree(scratch, members, scratch)
        root = os.path.join(scratch, case.input['root'])
        os.makedirs(root, exist_ok=True)
        out = {}
        for name, arg in (('dirs_noslash', root), ('dirs_slash', root + '/'), ('dirs_list', [root])):
            out[name] = call(lambda: sorted(os.path.relpath(p, root) for p in P.read_pagexml_dirs(arg)))
        for name, arg in (('directory_noslash', root), ('directory_slash', [root + '/'])):
            r = _drain(lambda: P.parse_pagexml_files_from_directory(arg))
            out[name] = {'ok': sorted(os.path.relpath(s.metadata['filename'], root) for s in r['items']), 'exn': r['exn']}
        return out

    def _impl_single(self, case: Case, scratch: str) -> Any:
        P = _parser()
        raw = bytes.fromhex(case.input['doc'])
        path = os.path.join(scratch, 'on-disk.xml')
        with open(path, 'wb') as f:
            f.write(raw)
        ref = _digest(_scan_view(_quiet(P.parse_pagexml_file, 'ref', pagexml_data=raw.decode('utf-8'))))
        kind = case.input['data']
        if kind == 'absent':
            f = lambda: P.parse_pagexml_file(path)  # noqa
        elif kind == 'text':
            f = lambda: P.parse_pagexml_file(path, pagexml_data='' if case.input['empty_data'] else raw.decode('utf-8'))  # noqa
        else:
            f = lambda: P.parse_pagexml_file(path, pagexml_data=b'' if case.input['empty_data'] else raw)  # noqa
        r = call(lambda: (lambda s: {'json': _digest(_scan_view(s)), 'filename': s.metadata['filename'].replace(scratch, '/T')})(_quiet(f)))
        r['ref'] = ref
        return r

    # ---------------------------------------------------------------- model
    def requests(self, case: Case):
        k = case.kind
        if k in ('paf', 'dispatch'):
            s = case.input['s'] if k == 'paf' else case.input['dir'] + case.input['stem'] + case.input['ext']
            return [{'p': 'C12', 'op': 'paf', 'args': {'s': s}},
                    {'p': 'C12', 'op': 'archiver_mode', 'args': {'s': s}}]
        if k == 'archive':
            ms = self._model_members.get(id(case))
            if ms is None:
                self.impl(case)
                ms = self._model_members[id(case)]
            return [{'p': 'C12', 'op': 'read', 'args': {'names_only': case.input['names_only'],
                                                        'path': '/T/' + case.input['name'],
                                                        'kind': case.input['kind'], 'members': ms}}]
        if k == 'reread':
            sm = self._model_members.get(id(case))
            if sm is None:
                self.impl(case)
                sm = self._model_members[id(case)]
            states, plan = _reread_plan(case.input)
            reqs = []
            for pl in plan:     # the model is pure: the same answer must hold for every pass over the same content
                for si in (pl['states'] if pl is not None else []):
                    a = case.input['archives'][states[si][0]]
                    reqs.append({'p': 'C12', 'op': 'read', 'args': {
                        'names_only': True if pl['entry'] == 'parse' else pl['names_only'],
                        'path': '/T/' + a['name'], 'kind': a['kind'], 'members': sm[si]}})
            return reqs
        if k == 'routes':
            ms = [dict(m, raw='00') if m['t'] == 'n' else m for m in case.input['members']]
            reqs = [{'p': 'C12', 'op': 'glob', 'args': {'members': ms}}]
            for ext in C.ACCEPTED_EXTS:
                reqs.append({'p': 'C12', 'op': 'read', 'args': {'names_only': True, 'path': '/T/c' + ext,
                                                                'kind': C.KIND_OF_EXT[ext], 'members': ms}})
            inner = {'t': 'n', 'p': 'wrap/in' + case.input['nest_ext'], 'k': case.input['nest_inner'], 'raw': '00', 'm': ms}
            reqs.append({'p': 'C12', 'op': 'read', 'args': {'names_only': True, 'kind': case.input['nest_outer'],
                                                            'path': '/T/n' + C.EXTS_OF_KIND[case.input['nest_outer']][0],
                                                            'members': [inner]}})
            return reqs
        if k == 'dirs':
            root = case.input['root'] + '/'
            ms = [dict(m, p=m['p'][len(root):]) for m in case.input['members'] if m['p'].startswith(root)]
            return [{'p': 'C12', 'op': 'glob', 'args': {'members': ms}}]
        if k == 'single':
            raw = bytes.fromhex(case.input['doc'])
            text = raw.decode('utf-8')
            args = {'name': '/T/on-disk.xml', 'disk': [['/T/on-disk.xml', text]], 'kind': case.input['data']}
            if case.input['data'] == 'text':
                args['v'] = '' if case.input['empty_data'] else text
            elif case.input['data'] == 'bytes':
                args['v'] = [] if case.input['empty_data'] else list(raw)
            return [{'p': 'C13', 'op': 'parse_file', 'args': args}]
        return []

    @staticmethod
    def _same_item(i: Dict[str, Any], m: Dict[str, Any]) -> bool:
        if any(i[k] != m[k] for k in ('source_file', 'archived_filename', 'archived_filepath')):
            return False
        if i['data'] is None or m['data'] is None:
            return i['data'] is None and m['data'] is None
        # the model passes content through: either the member's bytes (hex) or, for a nested container
        # that is yielded unopened, the SHA-256 the harness gave it as `raw`
        return m['data'] == i['data'].get('sha') or C.sha(bytes.fromhex(m['data'])) == i['data'].get('sha')

    def _cmp_read(self, items, exn, m_items, m_exn) -> Optional[str]:
        if exn != m_exn:
            return f'exception: impl={exn} model={m_exn}'
        if len(items) != len(m_items):
            return f'{len(items)} items yielded, model {len(m_items)}'
        for n, (i, mi) in enumerate(zip(items, m_items)):
            if not self._same_item(i, mi):
                return f'item {n}: impl={short(i)} model={short(mi)}'
        return None

    def compare(self, case, impl_out, model_out):
        k = case.kind
        if k in ('paf', 'dispatch'):
            if impl_out['paf'] != model_out[0]:
                return f'parse_archived_filename: impl={impl_out["paf"]} model={model_out[0]}'
            if impl_out['mode'] != model_out[1]:
                return f'get_archiver_mode: impl={impl_out["mode"]} model={model_out[1]}'
            return None
        if k == 'archive':
            m = model_out[0]['ok']
            return self._cmp_read(impl_out['items'], impl_out['exn'], m['items'], m['exn'])
        if k == 'reread':
            _, plan = _reread_plan(case.input)
            idx = 0
            for n, (po, pl) in enumerate(zip(impl_out['passes'], plan)):
                if pl is None:
                    continue
                m_items, m_exn = [], None
                for _ in pl['states']:      # the list dispatcher: one archive after the other, until one raises
                    a = model_out[idx]['ok']
                    idx += 1
                    if m_exn is None:
                        m_items, m_exn = m_items + a['items'], a['exn']
                if pl['entry'] == 'parse':
                    want = [(it['archived_filepath'], it['source_file'], it['archived_filename']) for it in m_items
                            if it['archived_filename'].endswith('.xml')]
                    got = [(x['key'], x['chain'], x['filename']) for x in po['items']]
                    d = None if got == want and po['exn'] == m_exn else \
                        f'impl={short(got)} exn={po["exn"]} model={short(want)} exn={m_exn}'
                else:
                    if pl['entry'] == 'peek':
                        m_items, m_exn = m_items[:1], (None if m_items else m_exn)
                    d = self._cmp_read(po['items'], po['exn'], m_items, m_exn)
                if d is not None:
                    return f'pass {n} ({po["op"]}{", " + pl["history"] if pl["history"] else ""}): {d}'
            return None
        if k == 'routes':
            docs = {m['p'] for m in case.input['members'] if m['t'] == 'f' and m['p'].endswith('.xml')}
            g = sorted(model_out[0]['ok'])
            for r in ('dirs', 'directory'):
                got = [x['key'] for x in impl_out['routes'][r]['items']]
                if got != g:
                    return f'{r}: impl={got} model={g}'
            names = ['archive' + e for e in C.ACCEPTED_EXTS] + ['nested']
            for r, mo in zip(names, model_out[1:]):
                want = [(it['archived_filepath'], it['source_file'], it['archived_filename']) for it in mo['ok']['items']
                        if it['archived_filepath'] in docs]
                got = [(x['key'], x['chain'], x['filename']) for x in impl_out['routes'][r]['items']]
                if got != want or impl_out['routes'][r]['exn'] != mo['ok']['exn']:
                    return f'{r}: impl={short(got)} exn={impl_out["routes"][r]["exn"]} model={short(want)}'
            return None
        if k == 'dirs':
            g = sorted(model_out[0]['ok'])
            for name in ('dirs_noslash', 'dirs_slash', 'dirs_list', 'directory_noslash', 'directory_slash'):
                if impl_out[name].get('ok') != g:
                    return f'{name}: impl={impl_out[name]} model={g}'
            return None
        if k == 'single':
            m = model_out[0]
            if 'err' in m or 'err' in impl_out:
                # the model parser parameter is the identity: an empty byte string reaching it corresponds to
                # expat's "no element found"
                if 'ok' in m and m['ok']['parsed_bytes'] == [] and impl_out.get('err') == 'ExpatError':
                    return None
                return f'impl={impl_out} model={short(m)}'
            raw = list(bytes.fromhex(case.input['doc']))
            if m['ok']['parsed_bytes'] == [] and 'err' not in impl_out:
                return f'model hands empty content to the parser, impl parsed a document: {impl_out}'
            if m['ok']['parsed_bytes'] != raw or m['ok']['filename'] != impl_out['ok']['filename']:
                return f'impl={impl_out} model filename={m["ok"]["filename"]} bytes_equal={m["ok"]["parsed_bytes"] == raw}'
            return None

    # ---------------------------------------------------------------- oracle
    def oracle(self, case: Case, out: Any) -> List[Finding]:
        # an outcome of the real code that the judgement cannot even read is an outcome to report, never a crash (exit 2)
        try:
            return self._oracle(case, out)
        except Exception as e:  # noqa
            return [Finding('C12:answer-shape', f'the outcome of the real code cannot be judged: {type(e).__name__}: {e}', case, out)]

    def _oracle(self, case: Case, out: Any) -> List[Finding]:
        fs: List[Finding] = []

        def bad(key, what):
            fs.append(Finding(f'C12:{key}', what, case, out))
        k = case.kind
        if k == 'dispatch':
            st, ext = case.input['stem'], case.input['ext']
            # the statement: every container format under each of its accepted file-name extensions
            if any(ch != '.' for ch in st):
                if 'ok' not in out['mode']:
                    bad(f'ext={ext}', f'{case.input["dir"] + st + ext}: rejected with {out["mode"]}')
                elif out['mode']['ok'][0] != EXPECTED_ARCHIVER[ext]:
                    bad(f'ext={ext}', f'{st + ext}: dispatched to {out["mode"]["ok"]}')
        elif k == 'archive':
            if 'beyond' in case.tags or not _judged(case.input['members'], case.input['kind']):
                return fs
            want = _flat_spec(['/T/' + case.input['name']], case.input['members'], case.input['kind'],
                              case.input['names_only'])
            self._judge_read(bad, case.input['name'], case.input['kind'], case.input['members'],
                             case.input['names_only'], want, out['items'], out['exn'], out.get('lib'))
        elif k == 'reread':
            # the statement judged on EVERY pass: "reading an archive yields every regular member exactly once, in
            # archive order, with its base name, path, exact bytes and chain" holds for a file that was read before
            # and for a file written again just as for a fresh one
            if OUTSIDE in case.tags or not self._reread_judged(case.input):
                return fs
            states, plan = _reread_plan(case.input)
            for n, (po, pl) in enumerate(zip(out['passes'], plan)):
                if pl is None:
                    continue
                a0 = case.input['archives'][pl['ons'][0]]
                entry, no = pl['entry'], pl['names_only']
                # key suffix = the class of history / entry point, never the input
                suffix = ':' + pl['history'] if pl['history'] else (':via=' + entry if entry not in ('read', 'parse') else '')
                where = f'pass {n} ({po["op"]}{", " + pl["history"] if pl["history"] else ""}) '

                def badp(key, what, where=where):
                    bad(key, where + what)
                want, lib, members = [], [], []
                for si in pl['states']:
                    a = case.input['archives'][states[si][0]]
                    members = members + states[si][1]
                    want += _flat_spec(['/T/' + a['name']], states[si][1], a['kind'], bool(no) and entry != 'parse')
                    sl = out['states'][si].get('lib')
                    lib = None if lib is None or not isinstance(sl, list) else lib + sl
                if po.get('unchanged_later') is False:
                    badp('earlier-answer-changed' + suffix, 'what this pass yielded was changed by a later call')
                if po.get('arg_unchanged') is False:
                    badp('argument-mutated', 'the list of archive files passed in was changed')
                if entry == 'parse':
                    docs = [w for w in want if w['archived_filename'].endswith('.xml')]
                    refs = [r for si in pl['states'] for r in out['states'][si]['refs']]
                    self._judge_parse(badp, a0['name'], docs, refs, po['items'], po['exn'], suffix)
                    continue
                if lib is not None and no:
                    lib = [dict(l, data=None) for l in lib]
                if entry == 'peek':
                    want, lib = want[:1], (lib[:1] if lib is not None else None)
                kinds = '+'.join(dict.fromkeys(case.input['archives'][o]['kind'] for o in pl['ons']))
                self._judge_read(badp, a0['name'], kinds, members, bool(no), want, po['items'], po['exn'], lib, suffix)
        elif k == 'routes':
            docs = [m['p'] for m in case.input['members'] if m['t'] == 'f' and m['p'].endswith('.xml')]
            for p in docs:
                if 'ok' not in out['ref'][p]:
                    return fs   # not a usable document: generator problem, not judged
            for route, r in out['routes'].items():
                items = r['items']
                if r['exn'] is not None or any('err' in x for x in items):
                    bad(f'route={route}:raised', f'route {route} raised {r["exn"] or [x for x in items if "err" in x][:1]}')
                    continue
                items = [x['ok'] if 'ok' in x else x for x in items]
                keys = [x['key'] for x in items]
                want = docs if r['ordered'] else sorted(docs)
                if keys != want:
                    bad(f'route={route}:members', f'route {route} yielded {short(keys, 300)} expected {short(want, 300)}')
                    continue
                for x in items:
                    if x['json'] != out['ref'][x['key']]['ok']:
                        bad(f'route={route}:json', f'route {route}: scan of {x["key"]} differs from the scan parsed from text')
                        break
        elif k == 'dirs':
            root = case.input['root'] + '/'
            want = sorted(m['p'][len(root):] for m in case.input['members'] if m['t'] == 'f' and m['p'].startswith(root)
                          and m['p'].endswith('.xml') and not any(c.startswith('.') for c in m['p'].split('/')))
            for name in ('dirs_noslash', 'dirs_slash', 'dirs_list'):
                if out[name].get('ok') != want:
                    key = 'read_pagexml_dirs-no-trailing-sep' if name != 'dirs_slash' else 'read_pagexml_dirs'
                    bad(key, f'{name}: found {out[name]} expected {want}')
            for name in ('directory_noslash', 'directory_slash'):
                if out[name].get('ok') != want or out[name].get('exn'):
                    bad('directory-route', f'{name}: parsed {out[name]} expected {want}')
        elif k == 'single':
            if case.input['empty_data']:
                # empty content passed explicitly must not be replaced by the file on disk
                if 'ok' in out:
                    bad('empty-data-read-from-disk', 'empty pagexml_data: a document was parsed (the file on disk was read)')
            elif 'ok' not in out or out['ok']['json'] != out['ref']:
                bad(f'route={case.input["data"]}:json', f'single-file route {case.input["data"]}: {short(out)}')
        return fs

    def _judge_read(self, bad, name, kind, members, names_only, want, got, exn, lib, suffix='') -> None:
        """one complete read of an archive judged against the statement: `want` = every regular member once, in
        archive order, with base name, path, bytes (None in names-only mode) and chain"""
        ext = _ext_of(name)
        if exn is not None:
            key = f'ext={ext}' if (not got and exn == 'ValueError') else f'aborted:{exn}'
            bad(key + suffix, f'reading {name} raised {exn} after {len(got)} items')
            return
        for it in got:
            if it['data'] is not None and 'type' in it['data']:
                bad('content-type' + suffix, f'member content is a {it["data"]["type"]}, not bytes')
                return

        def same(a, w):
            if any(a[x] != w[x] for x in ('source_file', 'archived_filename', 'archived_filepath')):
                return False
            if w['data'] is None or a['data'] is None:
                return w['data'] is None and a['data'] is None
            return a['data']['sha'] == C.sha(bytes.fromhex(w['data']))
        if len(got) != len(want) or not all(same(a, w) for a, w in zip(got, want)):
            nested_exts = sorted({e for m in self._nested_paths(members) for e in C.ACCEPTED_EXTS if m.endswith(e)})
            gk = [(a['source_file'], a['archived_filepath']) for a in got]
            wk = [(w['source_file'], w['archived_filepath']) for w in want]
            if gk == wk:
                key = 'names-only' if names_only else f'content:{kind}'
            elif sorted(map(str, gk)) == sorted(map(str, wk)):
                key = f'order:{kind}'
            elif [x[1] for x in gk] == [x[1] for x in wk]:
                key = 'chain'
            elif nested_exts and len(gk) != len(wk):
                missing = [e for e in nested_exts if any(p.endswith(e) for _, p in gk)]
                key = 'nested=' + (missing[0] if missing else nested_exts[0])
            else:
                key = f'members:{kind}'
            bad(key + suffix, f'{name}: yielded {short(gk, 300)} expected {short(wk, 300)}')
            return
        # the same list recomputed with the container libraries
        if isinstance(lib, list):
            if len(lib) != len(got) or any(
                    (a['source_file'], a['archived_filename'], a['archived_filepath']) !=
                    (l['source_file'], l['archived_filename'], l['archived_filepath']) or
                    (a['data'] or {}).get('sha') != (l['data'] or {}).get('sha') for a, l in zip(got, lib)):
                bad(f'library-listing:{kind}' + suffix, 'the members differ from an independent listing with '
                    f'the container library: {short([l["archived_filepath"] for l in lib], 300)}')

    def _judge_parse(self, bad, name, docs, refs, got, exn, suffix='') -> None:
        """one parse pass over an archive: the document members in archive order, each scan equal (JSON view apart
        from file name and archive information) to the same document parsed from its text alone"""
        route = 'archive' + _ext_of(name)
        if len(refs) != len(docs) or any('ok' not in r for r in refs):
            return      # not a usable document: generator problem, not judged
        if exn is not None:
            bad(f'route={route}:raised' + suffix, f'parsing {name} raised {exn} after {len(got)} scans')
            return
        keys = [x['key'] for x in got]
        want = [w['archived_filepath'] for w in docs]
        if keys != want:
            bad(f'route={route}:members' + suffix, f'parsing {name} yielded {short(keys, 300)} expected {short(want, 300)}')
            return
        for x, r in zip(got, refs):
            if x['json'] != r['ok']:
                bad(f'route={route}:json' + suffix, f'parsing {name}: scan of {x["key"]} differs from the scan parsed from text')
                return

    def _nested_paths(self, members) -> List[str]:
        out = []
        for m in members:
            if m['t'] == 'n':
                out.append(m['p'])
                out.extend(self._nested_paths(m['m']))
        return out

    def nontrivial(self, case: Case) -> bool:
        k = case.kind
        if k == 'paf':
            s = case.input['s']
            return len(s) >= 3 and ('/' in s or '\\' in s or s.count('.') >= 2)
        if k == 'dispatch':
            return True
        if k == 'archive':
            return _count(case.input['members']) >= 2
        if k in ('routes', 'dirs'):
            return any(m['t'] == 'f' and m['p'].endswith('.xml') for m in case.input['members'])
        if k == 'reread':
            return any(_count(a['members']) >= 2 for a in case.input['archives'])
        return True

    def shrink_candidates(self, case: Case):
        k = case.kind
        if k == 'paf':
            s = case.input['s']
            for i in range(len(s)):
                yield Case('paf', {'s': s[:i] + s[i + 1:]}, case.tags)
        elif k == 'dispatch':
            if case.input['dir']:
                yield Case(k, dict(case.input, dir=''), case.tags)
            if case.input['stem'] != 'x':
                yield Case(k, dict(case.input, stem='x'), case.tags)
        elif k == 'reread':
            inp = case.input
            ps = inp['passes']
            for i in range(len(ps)):        # fewer passes first
                rest = ps[:i] + ps[i + 1:]
                if any(p['op'] != 'rewrite' for p in rest):
                    yield Case(k, dict(inp, passes=rest), case.tags)
            for i, p in enumerate(ps):
                if isinstance(p.get('on'), list) and len(p['on']) > 1:
                    for o in p['on']:
                        yield Case(k, dict(inp, passes=ps[:i] + [dict(p, on=[o])] + ps[i + 1:]), case.tags)
            for j, a in enumerate(inp['archives']):
                for ms in _shrink_members(a['members']):
                    yield Case(k, dict(inp, archives=inp['archives'][:j] + [dict(a, members=ms)] + inp['archives'][j + 1:]),
                               case.tags)
            for i, p in enumerate(ps):
                if p['op'] == 'rewrite':
                    for ms in _shrink_members(p['members']):
                        yield Case(k, dict(inp, passes=ps[:i] + [dict(p, members=ms)] + ps[i + 1:]), case.tags)
        elif k in ('archive', 'routes', 'dirs'):
            for ms in _shrink_members(case.input['members']):
                yield Case(k, dict(case.input, members=ms), case.tags)
            if k == 'archive' and case.input['name'] not in ['c' + e for e in C.ACCEPTED_EXTS]:
                for e in sorted(C.ACCEPTED_EXTS, key=len, reverse=True):
                    if case.input['name'].endswith(e):
                        yield Case(k, dict(case.input, name='c' + e), case.tags)
                        break


def _shrink_members(members):
    tiny = C.hexs(C.doc_xml({'id': 's', 'w': 1, 'h': 1, 'lines': []}).encode('utf-8'))
    for i, m in enumerate(members):
        yield members[:i] + members[i + 1:]
    for i, m in enumerate(members):
        if m['t'] == 'n':
            for sub in _shrink_members(m['m']):
                yield members[:i] + [dict(m, m=sub)] + members[i + 1:]
        elif m['t'] == 'f' and len(m['d']) > len(tiny) and m['p'].endswith('.xml'):
            yield members[:i] + [dict(m, d=tiny)] + members[i + 1:]
        elif m['t'] == 'f' and len(m['d']) > 2 and not m['p'].endswith('.xml'):
            yield members[:i] + [dict(m, d=m['d'][:2])] + members[i + 1:]
        if m['t'] != 'd' and '/' in m['p']:
            yield members[:i] + [dict(m, p=m['p'].rsplit('/', 1)[-1])] + members[i + 1:]


CHECK = C12()
