"""C01 — Parsing is lossless and order-preserving for the text hierarchy."""
from __future__ import annotations

import datetime
import glob
import itertools
import json
import os
import random
import xml.etree.ElementTree as ET
from typing import Any, Dict, Iterable, List, Optional

from harness.core import Case, Check, Finding, VERIF, short
from harness.props._doc import (DocCheck, Gen, page_class, random_mutation, r_doc, region_state, fix_regions,
                                mark_nonconformant)

CORPUS = os.path.join(VERIF, 'harness', 'corpus', 'C01')


# ---------------------------------------------------------------------------------------
# the independent reader (xml.etree.ElementTree) — what the file says
# ---------------------------------------------------------------------------------------

def _tag(e):
    return e.tag.split('}')[-1]


def _kids(e, tag):
    return [k for k in e if _tag(k) == tag]


def _points(e, tag='Coords'):
    ks = _kids(e, tag)
    if not ks or not ks[0].get('points'):
        return None
    return [[int(v) for v in tok.split(',')] for tok in ks[0].get('points').split(' ') if tok]


def _text_equiv(e):
    ks = _kids(e, 'TextEquiv')
    if not ks:
        return None
    te = ks[0]
    u = _kids(te, 'Unicode')
    p = _kids(te, 'PlainText')
    text = (u[0].text or '') if u else ((p[0].text or '') if p else '')
    return {'text': text, 'conf': te.get('conf')}


def read_word(e):
    return {'id': e.get('id'), 'coords': _points(e), 'te': _text_equiv(e)}


def read_line(e):
    return {'id': e.get('id'), 'coords': _points(e), 'baseline': _points(e, 'Baseline'), 'te': _text_equiv(e),
            'words': [read_word(w) for w in _kids(e, 'Word')]}


def read_region(e):
    return {'id': e.get('id'), 'orientation': e.get('orientation'), 'coords': _points(e), 'te': _text_equiv(e),
            'lines': [read_line(l) for l in _kids(e, 'TextLine')],
            'regions': [read_region(r) for r in _kids(e, 'TextRegion')]}


def read_doc(xml: str):
    root = ET.fromstring(xml.encode('utf-8'))
    page = _kids(root, 'Page')[0]
    md = _kids(root, 'Metadata')
    meta = {}
    if md:
        for k in md[0]:
            meta[_tag(k)] = k.text or ''
    return {'image_filename': page.get('imageFilename'), 'width': page.get('imageWidth'), 'height': page.get('imageHeight'),
            'meta': meta, 'regions': [read_region(r) for r in _kids(page, 'TextRegion')],
            'has_ro': bool(_kids(page, 'ReadingOrder'))}


def has_content(r) -> bool:
    """coordinates, or content: lines, text, or a sub-region that itself has coordinates or content"""
    text = r['te'] is not None and r['te']['text'].strip() != ''
    return bool(r['coords']) or bool(r['lines']) or text or any(has_content(s) for s in r['regions'])


def located(r) -> bool:
    """is there anything below (or at) the region that has coordinates?"""
    return bool(r['coords']) or any(l['coords'] for l in r['lines']) or any(located(s) for s in r['regions'])


def all_points(r):
    pts = list(r['coords'] or [])
    for l in r['lines']:
        pts += l['coords'] or []
    for s in r['regions']:
        pts += all_points(s)
    return pts


def instant(s: str) -> Optional[float]:
    """the instant a Created / LastChange value denotes (naive values: local time, as Python reads them)"""
    from dateutil.parser import parse as dparse
    if s.isdigit():
        return int(s) / 1000
    return dparse(s).timestamp()


class C01(DocCheck):
    pid = 'C01'
    model_pid = 'C01'
    props_module = 'PagexmlModel.Props.C01'
    anchors = {
        'pagexml/parser.py': ['parse_coords', 'parse_baseline', 'parse_line_words', 'parse_text_equiv', 'parse_textline',
                              'parse_conf', 'parse_textline_list', 'parse_textregion', 'parse_textregion_list',
                              'parse_page_metadata', 'parse_page_image_size', 'parse_pagexml_json', 'parse_pagexml_file'],
        'pagexml/model/pagexml_document_model.py': ['PageXMLWord.__init__', 'PageXMLTextLine.__init__',
                                                    'PageXMLTextRegion.__init__', 'PageXMLScan.__init__',
                                                    'PageXMLTextRegion.get_all_text_regions', 'set_scan_id',
                                                    'PageXMLTextRegion.stats', 'PageXMLTextRegion.get_lines',
                                                    'PageXMLTextRegion.get_words'],
        'pagexml/model/coords.py': ['parse_points', 'Coords.__init__', 'parse_derived_coords', 'coords_list_to_hull_coords'],
    }
    level_note = (
        'proved for every conformant source page (any nesting depth, any number of children, every optional part '
        'present or absent): parseScan(toDict(render s)) = mirror s, with toDict a written-out model of xmltodict.parse; '
        'text values are compared after xmltodict\'s white-space stripping (known finding C01:text-edge-whitespace, '
        'proved counter-example); a region without Coords gets hull(children) with hull a parameter (C09 contract); '
        'sampled, not proved: expat tokenisation / entity decoding, dateutil instants of Created/LastChange, float() of '
        'confidences and orientations (opaque literals), custom attributes (C11), the namespace URI (never read by the parser); '
        'documents with tables: C08_scan_lossless; correspondence compared at the level of the statement: two rejections agree '
        'whatever the exception classes (only raising-or-not is stated), scan.metadata must hold every key of the model with the '
        'same value but may hold more, a falsy scan.reading_order is one value (None = {}), mutated documents that are no longer '
        'conformant (mandatory attribute / child missing, untyped number, repeated id) are outside the quantifier: recorded only')
    assumptions = [
        'xmltodict.parse with default options behaves as toDict (validated on every generated document, canonical and shuffled)',
        'the hull routine is a function of its input point list (C09); its answers are supplied to the model as a table',
        'parse_custom_metadata does not raise on the generated custom strings (C11)',
        'dateutil accepts the generated date strings; str.isdigit coincides with ASCII digits on generated metadata '
        '(the non-ASCII digit class is exercised separately as a finding stream)',
        'CPython int()/float() agree with pyInt?/isFloatLit on the generated ASCII literals',
    ]
    nontrivial_rule = 'distinct documents with at least one text region or table (empty pages count as trivial)'

    # ---------------------------------------------------------------- generation
    def cases(self, rng: random.Random, tier: str) -> Iterable[Case]:
        out: List[Case] = []
        for path in sorted(glob.glob(os.path.join(CORPUS, '*.json'))):
            body = json.load(open(path, encoding='utf-8'))
            c = body['case']
            out.append(Case(c['kind'], c['input'], list(c.get('tags', [])) + ['corpus']))
        gen = Gen(rng)
        seq = itertools.count(1)

        def doc(src, *tags, **kw):
            out.append(Case('doc', dict({'src': src, 'fname': 'page_%d.xml' % next(seq), 'seed': rng.randrange(10 ** 9)}, **kw),
                            list(tags)))

        # -- python's str.isspace table and float literals against the model's tables
        out.append(Case('tables', {'cps': list(range(0, 0x3100)) + [0xFEFF, 0x1F600, 0xE0020]}, ['tables']))
        # -- exhaustive presence/absence lattices (one line; one region)
        line_masks = list(itertools.product([0, 1], repeat=7))
        region_masks = list(itertools.product([0, 1], [0, 1], [0, 1], [0, 1], [0, 1, 2], [0, 1, 2], [0, 1]))
        if tier == 'quick':
            line_masks = rng.sample(line_masks, 40)
            region_masks = rng.sample(region_masks, 60)
        for m in line_masks:
            doc(self.lattice_line(gen, m), 'lattice-line', 'expect-mirror')
        for m in region_masks:
            src = self.lattice_region(gen, m)
            tags = ['lattice-region', 'expect-mirror'] + self.finding_tags(src)
            doc(src, *tags)
        # -- random conformant documents
        n = 220 if tier == 'quick' else 3500
        for _ in range(n):
            doc(gen.page(depth=rng.choice([0, 1, 2, 3, 4]), ntables=rng.choice([0, 0, 0, 1])), 'random', 'expect-mirror')
        # -- deep and wide
        for _ in range(6 if tier == 'quick' else 60):
            src = gen.page(depth=0, nregions=1)
            r = gen.conformant_region(0)
            for _d in range(rng.randint(5, 12)):
                r = dict(gen.conformant_region(0), subs=[r] + ([gen.conformant_region(0)] if rng.random() < 0.3 else []))
            src['regions'] = [r]
            src['ro'] = {'kind': 'absent'}
            doc(src, 'deep', 'expect-mirror')
        # -- known finding: leading / trailing white space in text nodes
        for _ in range(25 if tier == 'quick' else 300):
            doc(gen.page(depth=1, nregions=rng.randint(1, 2), edge=True), 'edge-ws')
        # -- finding candidates: regions without coordinates and without located children; bare <TextRegion/>
        for _ in range(12 if tier == 'quick' else 120):
            src = gen.page(depth=1, nregions=rng.randint(1, 3))
            victim = rng.choice(src['regions'])
            kind = rng.choice(['bare', 'unlocated-skipped', 'unlocated-text'])
            self.make_unlocated(gen, victim, kind)
            src['ro'] = {'kind': 'absent'}
            doc(src, 'unlocated:' + kind, 'expect-mirror')
        # -- finding candidate: a metadata field made of non-ASCII digits
        for s in ['²', '١٢٣', '①'][: (1 if tier == 'quick' else 3)]:
            src = gen.page(depth=0, nregions=1)
            src['meta'] = {'creator': s, 'created': None, 'last_change': None, 'comments': None}
            doc(src, 'meta-digit', 'no-model' if s.isdecimal() else 'expect-mirror')
        # -- malformed stream: one mutation of the canonical tree; error classes must agree
        for _ in range(150 if tier == 'quick' else 2500):
            src = gen.page(depth=rng.choice([0, 1, 2]), ntables=rng.choice([0, 0, 1]))
            m = random_mutation(r_doc(src), rng)
            if m is not None:
                out.append(Case('mut', {'src': src, 'fname': 'page_%d.xml' % next(seq), 'mut': m}, ['malformed', 'mut:' + m['op']]))
        # "Parsing any conformant PageXML document …": a mutated tree that is no longer conformant is outside the
        # quantifier (mirrored, differences recorded only); mutations that leave it conformant stay compared exactly
        return mark_nonconformant(out)

    def finding_tags(self, src):
        return ['class:' + c for c in page_class(src)]

    def lattice_line(self, gen: Gen, m):
        has_id, has_custom, has_xh, has_base, te_kind, conf, nwords = m
        te = None
        if te_kind:
            te = {'conf': '0.75' if conf else None, 'plain': 'pl' if conf and has_base else None, 'unicode': gen.text()}
        line = {'id': gen.uid('l') if has_id else None, 'custom': 'structure {type:x;}' if has_custom else None,
                'xheight': 17 if has_xh else None, 'coords': gen.rect(), 'baseline': gen.polyline() if has_base else None,
                'te': te, 'words': [gen.mkword() for _ in range(nwords * (1 + has_custom))]}
        region = {'id': 'r', 'orientation': None, 'custom': None, 'coords': gen.rect(), 'te': None, 'lines_first': True,
                  'lines': [line], 'subs': []}
        return self.bare_page([region])

    def lattice_region(self, gen: Gen, m):
        has_id, has_or, has_coords, has_te, nl, ns, lf = m
        sub = lambda: {'id': gen.uid('s'), 'orientation': None, 'custom': None, 'coords': gen.rect(), 'te': None,
                       'lines_first': True, 'lines': [gen.line()], 'subs': []}
        region = {'id': gen.uid('r') if has_id else None, 'orientation': '90.0' if has_or else None, 'custom': None,
                  'coords': gen.rect() if has_coords else None, 'te': gen.te() if has_te else None, 'lines_first': bool(lf),
                  'lines': [gen.line() for _ in range(nl)], 'subs': [sub() for _ in range(ns)]}
        return self.bare_page([region])

    def bare_page(self, regions):
        return {'ns2019': False, 'meta': None, 'image_filename': 'img.jpg', 'width': 100, 'height': 200, 'ro_first': True,
                'ro': {'kind': 'absent'}, 'regions': regions, 'tables': []}

    def make_unlocated(self, gen: Gen, r, kind):
        empty = {'id': gen.uid('e'), 'orientation': None, 'custom': None, 'coords': None, 'te': None, 'lines_first': True,
                 'lines': [], 'subs': []}
        if kind == 'bare':
            r['subs'] = r['subs'] + [dict(empty, id=None)]
        else:
            r['coords'] = None
            r['lines'] = [] if gen.rng.random() < 0.5 else r['lines']
            r['lines_first'] = False
            if kind == 'unlocated-text':
                empty['te'] = {'conf': None, 'plain': None, 'unicode': 'text only'}
            r['subs'] = [empty] + ([dict(empty, id=gen.uid('e'))] if gen.rng.random() < 0.4 else [])

    # ---------------------------------------------------------------- implementation / model
    def impl(self, case: Case) -> Any:
        if case.kind == 'tables':
            return {'space': [chr(c).isspace() for c in case.input['cps']]}
        return super().impl(case)

    def requests(self, case: Case):
        if case.kind == 'tables':
            return [{'p': 'C01', 'op': 'is_space', 'args': {'cps': case.input['cps']}}]
        return super().requests(case)

    def compare(self, case, impl_out, model_out):
        if case.kind == 'tables':
            bad = [c for c, a, b in zip(case.input['cps'], impl_out['space'], model_out[0]['ok']) if a != b]
            return None if not bad else f'str.isspace differs from isPySpace at code points {bad[:10]}'
        return super().compare(case, impl_out, model_out)

    def nontrivial(self, case: Case) -> bool:
        return case.kind != 'tables' and super().nontrivial(case)

    # ---------------------------------------------------------------- oracle
    def oracle(self, case: Case, out: Any) -> List[Finding]:
        if case.kind != 'doc':
            return []          # malformed documents are outside the statement
        fs: List[Finding] = []
        seen = set()

        def bad(key, what):
            if key not in seen:
                seen.add(key)
                fs.append(Finding(f'C01:{key}', what, case, {'real': out['real'] if 'err' in out['real'] else '(scan)', 'what': what}))

        src = case.input['src']
        real = out['real']
        if 'err' in real:
            cls = page_class(src)
            m = src['meta'] or {}
            digit = any(v and v.strip().isdigit() and not v.strip().isascii() for v in m.values() if isinstance(v, str))
            if digit and real['err'] == 'ValueError':
                bad('metadata-nonascii-digit', f'a Metadata field of non-ASCII digits makes the parser raise {real["err"]}')
            elif 'bare' in cls and real['err'] == 'TypeError':
                bad('bare-empty-region', 'an empty <TextRegion/> without attributes makes the parser raise TypeError instead of being skipped')
            elif 'unlocated' in cls and real['err'] in ('IndexError', 'AttributeError'):
                bad('coordless-region-unlocated-subregions',
                    f'a TextRegion without Coords whose sub-regions have no coordinates makes the parser raise {real["err"]}')
            else:
                bad('raises:' + real['err'], f'conformant document rejected with {real["err"]}')
            return fs
        scan, extra = real['ok']['scan'], real['ok']['extra']
        exp = read_doc(out['xml'])
        fname = case.input.get('fname', 'doc.xml')
        # -- scan id, size
        want_id = exp['image_filename'] if exp['image_filename'] is not None else fname
        if scan['id'] != want_id:
            bad('scan-id', f'scan id {scan["id"]!r}, image file name {want_id!r}')
        w, h = int(exp['width']), int(exp['height'])
        if w != 0 and h != 0:
            if scan['coords'] is None or sorted(map(tuple, scan['coords'])) != sorted([(0, 0), (w, 0), (w, h), (0, h)]):
                bad('scan-size', f'scan coords {scan["coords"]} for image {w}x{h}')
        # -- metadata
        for tag, key in (('Creator', 'creator'), ('Comments', 'comments')):
            v = exp['meta'].get(tag, '')
            if v.strip():
                got = extra[key]
                if got is None or str(got) != v.strip():
                    if got is not None and not (v.strip().isdigit() and str(got) == str(int(v.strip()))):
                        bad('metadata:' + tag, f'{tag} {v!r} carried over as {got!r}')
                    elif got is None:
                        bad('metadata:' + tag, f'{tag} {v!r} lost')
        for tag, key in (('Created', 'created'), ('LastChange', 'last_change')):
            v = exp['meta'].get(tag, '')
            if v.strip():
                got = extra[key]
                try:
                    ok = got is not None and abs(instant(got) - instant(v.strip())) < 1e-3
                except Exception as e:  # noqa
                    ok = False
                if not ok:
                    bad('metadata:' + tag, f'{tag} {v!r} carried over as {got!r} (different instant)')
        # -- the text hierarchy
        exp_regions = [r for r in exp['regions']]
        self.cmp_regions(exp_regions, scan['regions'], 'page', bad, ordered=not exp['has_ro'])
        return fs

    def cmp_regions(self, exp, got, where, bad, ordered=True):
        exp = [r for r in exp if has_content(r)]
        if len(exp) != len(got):
            bad('region-count', f'{where}: {len(exp)} TextRegion elements with coordinates or content, {len(got)} parsed')
            return
        if not ordered:
            key = lambda r: (r['id'] is None, r['id'] or '')
            if sorted(r['id'] or '' for r in exp) != sorted(r['id'] or '' for r in got):
                bad('region-ids', f'{where}: region ids {[r["id"] for r in got]} vs file {[r["id"] for r in exp]}')
                return
            if len(set(r['id'] for r in exp)) != len(exp):
                return
            exp, got = sorted(exp, key=key), sorted(got, key=key)
        for e, g in zip(exp, got):
            w = f'{where}/{e["id"]}'
            if e['id'] != g['id']:
                bad('region-order', f'{where}: region {g["id"]!r} where the file has {e["id"]!r}')
                return
            if e['coords']:
                if g['coords'] != e['coords']:
                    bad('region-coords', f'{w}: points {g["coords"]} vs file {e["coords"]}')
            elif located(e):
                # derived: the hull of the kept sub-regions that have coordinates, followed by the lines
                pool = [tuple(p) for sub in g['regions'] if sub['coords'] for p in sub['coords']]
                pool += [tuple(p) for l in e['lines'] for p in (l['coords'] or [])]
                got_pts = [tuple(p) for p in (g['coords'] or [])]
                if not got_pts or not set(got_pts) <= set(pool):
                    bad('region-derived-coords', f'{w}: derived points {g["coords"]} are not points of its children')
                else:
                    box = lambda ps: (min(x for x, _ in ps), min(y for _, y in ps), max(x for x, _ in ps), max(y for _, y in ps))
                    if box(got_pts) != box(pool):
                        bad('region-derived-coords', f'{w}: derived points {g["coords"]} do not span all sub-regions and lines '
                                                     f'(box {box(got_pts)} vs {box(pool)})')
            elif g['coords'] is not None:
                bad('region-derived-coords', f'{w}: points {g["coords"]} although nothing below the region has coordinates')
            if (e['orientation'] is None) != (g['orientation'] is None) or (
                    e['orientation'] is not None and repr(float(e['orientation'])) != g['orientation']):
                bad('region-orientation', f'{w}: orientation {g["orientation"]} vs file {e["orientation"]}')
            self.cmp_text(e['te'], g['text'], w, 'region', bad, none_when_absent=True)
            if len(e['lines']) != len(g['lines']):
                bad('line-count', f'{w}: {len(e["lines"])} TextLine elements, {len(g["lines"])} parsed')
            else:
                for el, gl in zip(e['lines'], g['lines']):
                    self.cmp_line(el, gl, w, bad)
            self.cmp_regions(e['regions'], g['regions'], w, bad)

    def cmp_text(self, te, got, where, kind, bad, none_when_absent):
        want = '' if te is None else te['text']
        have = got if isinstance(got, str) else ('' if got is None else repr(got))
        if want == have:
            return
        if want.strip() == have:
            bad('text-edge-whitespace', f'{where}: {kind} text {want!r} parsed as {got!r}')
        else:
            bad(kind + '-text', f'{where}: {kind} text {want!r} parsed as {got!r}')

    def cmp_conf(self, te, got, where, kind, bad):
        want = None if te is None or te['conf'] in (None, '') else float(te['conf'])
        have = None if got in (None, '') else float(got)
        same = (want is None and have is None) or (want is not None and have is not None
                                                    and (want == have or (want != want and have != have)))
        if not same:
            bad(kind + '-conf', f'{where}: {kind} confidence {got!r} vs file {None if te is None else te["conf"]!r}')

    def cmp_line(self, e, g, where, bad):
        w = f'{where}/{e["id"]}'
        if e['id'] != g['id']:
            bad('line-order', f'{where}: line {g["id"]!r} where the file has {e["id"]!r}')
            return
        if g['coords'] != e['coords']:
            bad('line-coords', f'{w}: points {g["coords"]} vs file {e["coords"]}')
        if g['baseline'] != e['baseline']:
            bad('line-baseline', f'{w}: baseline {g["baseline"]} vs file {e["baseline"]}')
        self.cmp_text(e['te'], g['text'], w, 'line', bad, True)
        self.cmp_conf(e['te'], g['conf'], w, 'line', bad)
        if len(e['words']) != len(g['words']):
            bad('word-count', f'{w}: {len(e["words"])} Word elements, {len(g["words"])} parsed')
            return
        for ew, gw in zip(e['words'], g['words']):
            ww = f'{w}/{ew["id"]}'
            if ew['id'] != gw['id']:
                bad('word-order', f'{w}: word {gw["id"]!r} where the file has {ew["id"]!r}')
                return
            if gw['coords'] != ew['coords']:
                bad('word-coords', f'{ww}: points {gw["coords"]} vs file {ew["coords"]}')
            self.cmp_text(ew['te'], gw['text'], ww, 'word', bad, True)
            self.cmp_conf(ew['te'], gw['conf'], ww, 'word', bad)


CHECK = C01()
