"""C01 — Parsing is lossless and order-preserving for the text hierarchy."""
from __future__ import annotations

import copy
import datetime
import glob
import itertools
import json
import os
import random
import xml.etree.ElementTree as ET
from typing import Any, Dict, Iterable, List, Optional

from harness.core import Case, Check, Finding, VERIF, call, canon, short
from harness.props._doc import (DocCheck, Gen, page_class, random_mutation, r_doc, region_state, fix_regions,
                                mark_nonconformant, PAGE_META_TAGS, dump_scan, dump_extra, real_todict, all_paths, node_at,
                                hull_table, norm_answer, scan_diff)

CORPUS = os.path.join(VERIF, 'harness', 'corpus', 'C01')


# ---------------------------------------------------------------------------------------
# the independent reader (xml.etree.ElementTree) — what the file says
# ---------------------------------------------------------------------------------------

def _tag(e):
    return e.tag.split('}')[-1]


def _kids(e, tag):
    return [k for k in e if _tag(k) == tag]


def _points(e, tag='Coords'):
    ks = _kids(e, tag)
    if not ks or not ks[0].get('points'):
        return None
    return [[int(v) for v in tok.split(',')] for tok in ks[0].get('points').split(' ') if tok]


def _text_equiv(e):
    ks = _kids(e, 'TextEquiv')
    if not ks:
        return None
    te = ks[0]
    u = _kids(te, 'Unicode')
    p = _kids(te, 'PlainText')
    text = (u[0].text or '') if u else ((p[0].text or '') if p else '')
    # a TextEquiv whose Unicode is empty (or white space only) next to a non-empty PlainText: "the same text as in
    # the file" does not say which of the two is "the text" then (the reference reader above takes Unicode; a parser
    # falling back to the PlainText rendering reads the same file no less faithfully), so both answers are accepted
    # (false alarm of probe 2, behaviour_preserving/C01-plaintext-fallback-bp; DESIGN §12.9)
    alt = (p[0].text or '') if (u and p and not text.strip() and (p[0].text or '').strip()) else None
    return {'text': text, 'conf': te.get('conf'), 'alt_text': alt}


def read_word(e):
    return {'id': e.get('id'), 'coords': _points(e), 'te': _text_equiv(e)}


def read_line(e):
    return {'id': e.get('id'), 'coords': _points(e), 'baseline': _points(e, 'Baseline'), 'te': _text_equiv(e),
            'words': [read_word(w) for w in _kids(e, 'Word')]}


def read_region(e):
    return {'id': e.get('id'), 'orientation': e.get('orientation'), 'coords': _points(e), 'te': _text_equiv(e),
            'lines': [read_line(l) for l in _kids(e, 'TextLine')],
            'regions': [read_region(r) for r in _kids(e, 'TextRegion')]}


def read_doc(xml: str):
    root = ET.fromstring(xml.encode('utf-8'))
    page = _kids(root, 'Page')[0]
    md = _kids(root, 'Metadata')
    meta = {}
    filled = set()          # the Metadata children that carry anything (text, attributes or children)
    if md:
        for k in md[0]:
            meta[_tag(k)] = k.text or ''
            if (k.text or '').strip() or len(k) or k.attrib:
                filled.add(_tag(k))
    return {'image_filename': page.get('imageFilename'), 'width': page.get('imageWidth'), 'height': page.get('imageHeight'),
            'meta': meta, 'meta_filled': sorted(filled), 'regions': [read_region(r) for r in _kids(page, 'TextRegion')],
            'has_ro': bool(_kids(page, 'ReadingOrder'))}


def has_content(r, alt=False) -> bool:
    """coordinates, or content: lines, text, or a sub-region that itself has coordinates or content.
    `alt`: under the other reading of an empty Unicode next to a non-empty PlainText (see _text_equiv) — the PlainText
    rendering is the text, and so is content"""
    te = r['te']
    text = te is not None and (te['text'].strip() != '' or (alt and te.get('alt_text') is not None))
    return bool(r['coords']) or bool(r['lines']) or text or any(has_content(s, alt) for s in r['regions'])


# ---------------------------------------------------------------------------------------
# the two readings of <TextEquiv><PlainText>x</PlainText><Unicode/></TextEquiv>  (element trees of _doc.py)
# ---------------------------------------------------------------------------------------
# Such a document IS inside the quantifier ("every optional attribute or child independently present or absent": PlainText
# is an optional child of TextEquiv), so it must parse, and every id, point list, confidence, order … is fixed.  What the
# statement does not fix is which of the two renderings is "the same … text … as in the file" when the Unicode one is
# empty — and, as a consequence, whether a region without coordinates whose only content is such a TextEquiv has
# "content" (kept, with the PlainText as its text) or not (skipped).  The model mirrors "Unicode wins".  The
# correspondence therefore compares the real parse with the model's answer for the document as it is AND, only when
# these differ, with the model's answers for the same document under the other reading of any subset of those TextEquivs
# (the Unicode element given the PlainText content): equal to one of them = no difference.  Everything else in the
# document stays compared exactly, and a document without such a TextEquiv has exactly one reading.

MAX_FREE_TE = 4


def free_te_paths(tree) -> List[List[int]]:
    """paths of the Unicode elements that are empty (white space only, no attributes) next to a non-empty PlainText"""
    out = []
    for p in all_paths(tree):
        n = node_at(tree, p)
        if n['t'] != 'TextEquiv':
            continue
        us = [i for i, k in enumerate(n['c']) if k['t'] == 'Unicode']
        ps = [k for k in n['c'] if k['t'] == 'PlainText']
        if len(us) == 1 and len(ps) == 1 and not n['c'][us[0]]['a'] and not n['c'][us[0]]['c'] and not ps[0]['a'] \
                and not ps[0]['c'] and n['c'][us[0]]['x'].strip() == '' and ps[0]['x'].strip() != '':
            out.append(p + [us[0]])
    return out


def other_readings(tree) -> List[Any]:
    """the trees of the other readings: for every non-empty subset of the free TextEquivs (all subsets up to MAX_FREE_TE
    of them; beyond that the whole set and the single ones) the Unicode element carries the PlainText content"""
    free = free_te_paths(tree)
    if not free:
        return []
    if len(free) <= MAX_FREE_TE:
        subsets = [[p for i, p in enumerate(free) if m >> i & 1] for m in range(1, 2 ** len(free))]
    else:
        subsets = [free] + [[p] for p in free]
    out = []
    for sub in subsets:
        t = copy.deepcopy(tree)
        for p in sub:
            te = node_at(t, p[:-1])
            te['c'][p[-1]]['x'] = next(k['x'] for k in te['c'] if k['t'] == 'PlainText')
        out.append(t)
    return out


def located(r) -> bool:
    """is there anything below (or at) the region that has coordinates?"""
    return bool(r['coords']) or any(l['coords'] for l in r['lines']) or any(located(s) for s in r['regions'])


def all_points(r):
    pts = list(r['coords'] or [])
    for l in r['lines']:
        pts += l['coords'] or []
    for s in r['regions']:
        pts += all_points(s)
    return pts


def instant(s: str) -> Optional[float]:
    """the instant a Created / LastChange value denotes (naive values: local time, as Python reads them)"""
    from dateutil.parser import parse as dparse
    if s.isdigit():
        return int(s) / 1000
    return dparse(s).timestamp()


# ---------------------------------------------------------------------------------------
# histories (WAVE 4): several documents parsed in ONE process, in a given order, through every entry point
# ---------------------------------------------------------------------------------------

ROUTES = ('data', 'file', 'json', 'json-again')


def seq_worker(arg: Dict[str, Any]) -> Dict[str, Any]:
    """Runs one history on the real code.  arg = {'steps': [{'xml', 'xml_c', 'fname', 'route'}, …]}.
    Called in a pristine child process (harness/props/_hermetic.py) so that the outcome depends on THIS history
    only; the working directory of that child is a scratch directory (route 'file' reads ./<fname> from it).
      data        parse_pagexml_file(fname, pagexml_data=xml)          (the form named in observe_at)
      file        the text written to ./fname, parse_pagexml_file(fname)
      json        parse_pagexml_json(fname, xmltodict.parse(xml))       (the function behind it, named in the anchors)
      json-again  the same, and then AGAIN on the very same (by then used) dict: the second scan is the one dumped
    After the last step every scan object built so far is read once more (after its JSON view has been taken):
    'unchanged'[i] says whether step i's scan still dumps as it did right after its own parse."""
    import shutil
    import tempfile
    import xmltodict
    from pagexml import parser
    scratch = tempfile.mkdtemp(prefix='verif-c01-seq-')
    old_cwd = os.getcwd()
    os.chdir(scratch)
    try:
        outs, scans = [], []
        for st in arg['steps']:
            xml, fname, route = st['xml'], st['fname'], st['route']
            holder: Dict[str, Any] = {}

            def f():
                if route == 'data':
                    scan = parser.parse_pagexml_file(fname, pagexml_data=xml)
                elif route == 'file':
                    os.makedirs(os.path.dirname(fname) or '.', exist_ok=True)
                    with open(fname, 'wt', encoding='utf-8') as fh:
                        fh.write(xml)
                    scan = parser.parse_pagexml_file(fname)
                else:
                    d = xmltodict.parse(xml)
                    scan = parser.parse_pagexml_json(fname, d)
                    if route == 'json-again':
                        scan = parser.parse_pagexml_json(fname, d)
                holder['scan'] = scan
                return {'scan': dump_scan(scan), 'extra': dump_extra(scan)}
            o: Dict[str, Any] = {'real': call(f), 'xml': xml, 'dict_s': real_todict(xml), 'route': route, 'fname': fname}
            if st.get('xml_c') is not None:
                o['dict_c'] = real_todict(st['xml_c'])
            outs.append(canon(o))
            scans.append(holder.get('scan'))
        unchanged = []
        for o, scan in zip(outs, scans):
            if scan is None:
                unchanged.append(None)
                continue
            call(lambda: scan.json)               # a used object: its JSON view has been taken
            again = call(lambda: canon({'scan': dump_scan(scan), 'extra': dump_extra(scan)}))
            unchanged.append(again == o['real'])
        return {'steps': outs, 'unchanged': unchanged}
    finally:
        os.chdir(old_cwd)
        shutil.rmtree(scratch, ignore_errors=True)


class C01(DocCheck):
    pid = 'C01'
    model_pid = 'C01'
    props_module = 'PagexmlModel.Props.C01'
    anchors = {
        'pagexml/parser.py': ['parse_coords', 'parse_baseline', 'parse_line_words', 'parse_text_equiv', 'parse_textline',
                              'parse_conf', 'parse_textline_list', 'parse_textregion', 'parse_textregion_list',
                              'parse_page_metadata', 'parse_page_image_size', 'parse_pagexml_json', 'parse_pagexml_file'],
        'pagexml/model/pagexml_document_model.py': ['PageXMLWord.__init__', 'PageXMLTextLine.__init__',
                                                    'PageXMLTextRegion.__init__', 'PageXMLScan.__init__',
                                                    'PageXMLTextRegion.get_all_text_regions', 'set_scan_id',
                                                    'PageXMLTextRegion.stats', 'PageXMLTextRegion.get_lines',
                                                    'PageXMLTextRegion.get_words'],
        'pagexml/model/coords.py': ['parse_points', 'Coords.__init__', 'parse_derived_coords', 'coords_list_to_hull_coords'],
    }
    level_note = (
        'proved for every conformant source page (any nesting depth, any number of children, every optional part '
        'present or absent): parseScan(toDict(render s)) = mirror s, with toDict a written-out model of xmltodict.parse; '
        'text values are compared after xmltodict\'s white-space stripping (known finding C01:text-edge-whitespace, '
        'proved counter-example); a region without Coords gets hull(children) with hull a parameter (C09 contract); '
        'sampled, not proved: expat tokenisation / entity decoding, dateutil instants of Created/LastChange, float() of '
        'confidences and orientations (opaque literals), custom attributes (C11), the namespace URI (never read by the parser); '
        'documents with tables: C08_scan_lossless; correspondence compared at the level of the statement: two rejections agree '
        'whatever the exception classes (only raising-or-not is stated), scan.metadata must hold every key of the model with the '
        'same value but may hold more, a falsy scan.reading_order is one value (None = {}), mutated documents that are no longer '
        'conformant (mandatory attribute / child missing, untyped number, repeated id) are outside the quantifier: recorded only; '
        'keys of scan.metadata named like a PAGE Metadata child (Creator, Created, LastChange, Comments, UserDefined, MetadataItem) '
        'must be exactly the model\'s; a TextEquiv whose Unicode element is empty next to a non-empty PlainText has two readings of '
        '"the text" (the statement fixes neither; such documents stay inside the quantifier): the model mirrors "Unicode wins", and '
        'when the real parse differs from it, it is compared with the model\'s parse of the same document under the other reading '
        'of every subset of those elements (incl. whether a region without coordinates whose only content is such a text is kept) — '
        'equal to one of them is no difference, everything else in the document stays exact; HISTORIES (wave 4, case kind seq): several documents parsed one after the other in ONE pristine '
        'process (a forked child of a helper that has imported the library and called nothing), in varying order and with repeats, '
        'through parse_pagexml_file(data) / parse_pagexml_file(path) / parse_pagexml_json(dict) / the same dict twice; the model is a '
        'pure function of the document, so its one answer is compared with every parse of it, every parse is judged by the oracle, '
        'and every scan is re-read at the end (after its JSON view was taken)')
    assumptions = [
        'xmltodict.parse with default options behaves as toDict (validated on every generated document, canonical and shuffled)',
        'the hull routine is a function of its input point list (C09); its answers are supplied to the model as a table',
        'parse_custom_metadata does not raise on the generated custom strings (C11)',
        'dateutil accepts the generated date strings; str.isdigit coincides with ASCII digits on generated metadata '
        '(the non-ASCII digit class is exercised separately as a finding stream)',
        'CPython int()/float() agree with pyInt?/isFloatLit on the generated ASCII literals',
    ]
    nontrivial_rule = 'distinct documents with at least one text region or table (empty pages count as trivial)'

    # ---------------------------------------------------------------- generation
    def cases(self, rng: random.Random, tier: str) -> Iterable[Case]:
        out: List[Case] = []
        for path in sorted(glob.glob(os.path.join(CORPUS, '*.json'))):
            body = json.load(open(path, encoding='utf-8'))
            c = body['case']
            out.append(Case(c['kind'], c['input'], list(c.get('tags', [])) + ['corpus']))
        n_corpus = len(out)
        gen = Gen(rng)
        seq = itertools.count(1)

        def doc(src, *tags, **kw):
            out.append(Case('doc', dict({'src': src, 'fname': 'page_%d.xml' % next(seq), 'seed': rng.randrange(10 ** 9)}, **kw),
                            list(tags)))

        # -- python's str.isspace table and float literals against the model's tables
        out.append(Case('tables', {'cps': list(range(0, 0x3100)) + [0xFEFF, 0x1F600, 0xE0020]}, ['tables']))
        # -- exhaustive presence/absence lattices (one line; one region)
        line_masks = list(itertools.product([0, 1], repeat=7))
        region_masks = list(itertools.product([0, 1], [0, 1], [0, 1], [0, 1], [0, 1, 2], [0, 1, 2], [0, 1]))
        if tier == 'quick':
            line_masks = rng.sample(line_masks, 40)
            region_masks = rng.sample(region_masks, 60)
        for m in line_masks:
            doc(self.lattice_line(gen, m), 'lattice-line', 'expect-mirror')
        for m in region_masks:
            src = self.lattice_region(gen, m)
            tags = ['lattice-region', 'expect-mirror'] + self.finding_tags(src)
            doc(src, *tags)
        # -- random conformant documents
        n = 220 if tier == 'quick' else 3500
        for _ in range(n):
            doc(gen.page(depth=rng.choice([0, 1, 2, 3, 4]), ntables=rng.choice([0, 0, 0, 1])), 'random', 'expect-mirror')
        # -- deep and wide
        for _ in range(6 if tier == 'quick' else 60):
            src = gen.page(depth=0, nregions=1)
            r = gen.conformant_region(0)
            for _d in range(rng.randint(5, 12)):
                r = dict(gen.conformant_region(0), subs=[r] + ([gen.conformant_region(0)] if rng.random() < 0.3 else []))
            src['regions'] = [r]
            src['ro'] = {'kind': 'absent'}
            doc(src, 'deep', 'expect-mirror')
        # -- known finding: leading / trailing white space in text nodes
        for _ in range(25 if tier == 'quick' else 300):
            doc(gen.page(depth=1, nregions=rng.randint(1, 2), edge=True), 'edge-ws')
        # -- finding candidates: regions without coordinates and without located children; bare <TextRegion/>
        for _ in range(12 if tier == 'quick' else 120):
            src = gen.page(depth=1, nregions=rng.randint(1, 3))
            victim = rng.choice(src['regions'])
            kind = rng.choice(['bare', 'unlocated-skipped', 'unlocated-text'])
            self.make_unlocated(gen, victim, kind)
            src['ro'] = {'kind': 'absent'}
            doc(src, 'unlocated:' + kind, 'expect-mirror')
        # -- finding candidate: a metadata field made of non-ASCII digits
        for s in ['²', '١٢٣', '①'][: (1 if tier == 'quick' else 3)]:
            src = gen.page(depth=0, nregions=1)
            src['meta'] = {'creator': s, 'created': None, 'last_change': None, 'comments': None}
            doc(src, 'meta-digit', 'no-model' if s.isdecimal() else 'expect-mirror')
        # -- malformed stream: one mutation of the canonical tree; error classes must agree
        for _ in range(150 if tier == 'quick' else 2500):
            src = gen.page(depth=rng.choice([0, 1, 2]), ntables=rng.choice([0, 0, 1]))
            m = random_mutation(r_doc(src), rng)
            if m is not None:
                out.append(Case('mut', {'src': src, 'fname': 'page_%d.xml' % next(seq), 'mut': m}, ['malformed', 'mut:' + m['op']]))
        # "Parsing any conformant PageXML document …": a mutated tree that is no longer conformant is outside the
        # quantifier (mirrored, differences recorded only); mutations that leave it conformant stay compared exactly
        out = mark_nonconformant(out)
        # ---- WAVE 4 (generated LAST so that the streams above are what they were; the histories are PLACED right
        #      after the corpus: when a failure shows in a history and in the single-document stream under the same
        #      key, the history — which is evaluated in a pristine process and so replays exactly — is what is kept)
        # -- rare shapes: optional parts of TextEquiv crossed at every level (conf with and without text, PlainText)
        for level, conf, uni, plain in itertools.product(('line', 'word', 'region'), (None, '0.12', '0'), ('Anno 1650', ''),
                                                         (None, 'pl')):
            doc(self.te_lattice_doc(gen, level, conf, uni, plain), 'lattice-te', 'expect-mirror')
        # -- rare shapes: more than ten children at one level; lines with and without a Word layer side by side
        for _ in range(4 if tier == 'quick' else 40):
            doc(self.wide_doc(gen, rng), 'wide', 'expect-mirror')
        histories = self.seq_cases(rng, gen, tier)
        # ---- WAVE 5 (generated after everything above): regions without coordinates whose ONLY content is an empty Unicode
        #      next to a non-empty PlainText — kept or skipped, depending on the reading (see `other_readings`)
        for shape in ('alone', 'nested', 'beside', 'two', 'with-unicode-sibling'):
            for conf in ((None,) if tier == 'quick' else (None, '0.5')):
                doc(self.free_region_doc(gen, shape, conf), 'free-region', 'expect-mirror')
        return out[:n_corpus] + histories + out[n_corpus:]

    # ---------------------------------------------------------------- WAVE 4 generators
    def te_lattice_doc(self, gen: Gen, level, conf, uni, plain):
        te = {'conf': conf, 'plain': plain, 'unicode': uni}
        other = {'conf': '0.9', 'plain': None, 'unicode': 'den 3 Meij'}
        word = {'id': gen.uid('w'), 'custom': None, 'coords': gen.rect(), 'te': te if level == 'word' else other}
        mk = lambda t, ws: {'id': gen.uid('l'), 'custom': None, 'xheight': None, 'coords': gen.rect(),  # noqa: E731
                            'baseline': gen.polyline(), 'te': t, 'words': ws}
        lines = [mk(other, []), mk(te if level == 'line' else other, [word] if level == 'word' else []), mk(other, [])]
        region = {'id': 'r', 'orientation': None, 'custom': None, 'coords': gen.rect(), 'te': te if level == 'region' else None,
                  'lines_first': True, 'lines': lines, 'subs': []}
        return self.bare_page([region])

    def free_region_doc(self, gen: Gen, shape, conf):
        def free():
            return {'id': gen.uid('f'), 'orientation': None, 'custom': None, 'coords': None, 'lines_first': True, 'lines': [],
                    'subs': [], 'te': {'conf': conf, 'plain': 'alleen platte tekst', 'unicode': ''}}
        plain = dict(free(), id=gen.uid('u'), te={'conf': conf, 'plain': None, 'unicode': 'Anno 1650'})
        normal = gen.conformant_region(0)
        normal['coords'] = normal['coords'] or gen.rect()
        if shape == 'alone':
            regions = [normal, free()]
        elif shape == 'nested':
            regions = [dict(free(), te=None, subs=[free()]), normal]
        elif shape == 'beside':
            regions = [dict(normal, subs=[free(), dict(gen.conformant_region(0), coords=gen.rect())])]
        elif shape == 'two':
            regions = [free(), normal, free()]
        else:
            regions = [dict(free(), te=None, subs=[plain, free()]), normal]
        return self.bare_page(regions)

    def wide_doc(self, gen: Gen, rng: random.Random):
        src = gen.page(depth=1, nregions=rng.choice([1, 2, 11, 14]))
        src['ro'] = {'kind': 'absent'}
        if not src['regions']:
            return src
        r = rng.choice(src['regions'])
        r['lines'] = [gen.line() for _ in range(rng.randint(11, 24))]
        for i, l in enumerate(r['lines']):            # mixed: Word layer on some lines only, one line with many words
            l['words'] = [] if i % 3 == 0 else l['words']
        rng.choice(r['lines'])['words'] = [gen.mkword() for _ in range(rng.randint(11, 16))]
        if rng.random() < 0.5:
            r['subs'] = [gen.conformant_region(0) for _ in range(rng.randint(11, 13))]
        return src

    META_VALUES = {'creator': ['Transkribus', 'Loghi', 'PyLaia'], 'created': ['2021-03-04T10:11:12', '2023-07-08T09:10:11'],
                   'last_change': ['2022-05-06T01:02:03', '2024-02-03T10:11:12'], 'comments': ['checked by hand', 'second pass']}
    FNAMES = ['page_%d.xml', 'a/page_%d.xml', 'b/page_%d.xml', 'a/b/page.xml', 'b/page.xml', 'a/page.xml']

    def seq_cases(self, rng: random.Random, gen: Gen, tier: str) -> List[Case]:
        """histories: documents parsed one after the other in one (pristine) process, in varying order, with repeats,
        through every entry point; every parse is judged, and every scan is read again at the end"""
        out: List[Case] = []
        n = itertools.count(1)

        def fname():
            f = rng.choice(self.FNAMES)
            return f % next(n) if '%d' in f else f

        def small(mask, which):
            src = gen.page(depth=0, nregions=1)
            src['ro'] = {'kind': 'absent'}
            keys = ('creator', 'created', 'last_change', 'comments')
            src['meta'] = {k: (self.META_VALUES[k][which % 2] if mask >> i & 1 else None) for i, k in enumerate(keys)}
            if mask == 0 and rng.random() < 0.5:
                src['meta'] = None                      # no Metadata element at all
            return {'src': src, 'fname': fname(), 'seed': rng.randrange(10 ** 9)}
        # (a) Metadata presence lattice: every pair of field subsets, A then B then A again
        pairs = list(itertools.product(range(16), repeat=2))
        if tier == 'quick':
            pairs = rng.sample(pairs, 56) + [(15, 0), (15, 3), (12, 1), (3, 12)]
        for a, b in pairs:
            docs = [small(a, 0), small(b, 1)]
            steps = [[0, rng.choice(ROUTES)], [1, rng.choice(ROUTES)], [0, rng.choice(ROUTES)]]
            out.append(Case('seq', {'docs': docs, 'steps': steps}, ['history', 'seq-meta-lattice']))
        # (b) random documents (nested regions, tables, reading orders), random order with repeats
        for _ in range(30 if tier == 'quick' else 400):
            k = rng.randint(2, 4)
            docs = [{'src': gen.page(depth=rng.choice([0, 1, 2]), ntables=rng.choice([0, 0, 1])), 'fname': fname(),
                     'seed': rng.randrange(10 ** 9)} for _ in range(k)]
            if rng.random() < 0.3:                      # the same base name in different directories
                docs[1]['fname'] = 'other/' + os.path.basename(docs[0]['fname'])
            order = list(range(k)) + [rng.randrange(k) for _ in range(rng.randint(0, k))]
            rng.shuffle(order)
            steps = [[i, rng.choice(ROUTES)] for i in order]
            out.append(Case('seq', {'docs': docs, 'steps': steps}, ['history', 'seq-random']))
        return out

    def finding_tags(self, src):
        return ['class:' + c for c in page_class(src)]

    def lattice_line(self, gen: Gen, m):
        has_id, has_custom, has_xh, has_base, te_kind, conf, nwords = m
        te = None
        if te_kind:
            te = {'conf': '0.75' if conf else None, 'plain': 'pl' if conf and has_base else None, 'unicode': gen.text()}
        line = {'id': gen.uid('l') if has_id else None, 'custom': 'structure {type:x;}' if has_custom else None,
                'xheight': 17 if has_xh else None, 'coords': gen.rect(), 'baseline': gen.polyline() if has_base else None,
                'te': te, 'words': [gen.mkword() for _ in range(nwords * (1 + has_custom))]}
        region = {'id': 'r', 'orientation': None, 'custom': None, 'coords': gen.rect(), 'te': None, 'lines_first': True,
                  'lines': [line], 'subs': []}
        return self.bare_page([region])

    def lattice_region(self, gen: Gen, m):
        has_id, has_or, has_coords, has_te, nl, ns, lf = m
        sub = lambda: {'id': gen.uid('s'), 'orientation': None, 'custom': None, 'coords': gen.rect(), 'te': None,
                       'lines_first': True, 'lines': [gen.line()], 'subs': []}
        region = {'id': gen.uid('r') if has_id else None, 'orientation': '90.0' if has_or else None, 'custom': None,
                  'coords': gen.rect() if has_coords else None, 'te': gen.te() if has_te else None, 'lines_first': bool(lf),
                  'lines': [gen.line() for _ in range(nl)], 'subs': [sub() for _ in range(ns)]}
        return self.bare_page([region])

    def bare_page(self, regions):
        return {'ns2019': False, 'meta': None, 'image_filename': 'img.jpg', 'width': 100, 'height': 200, 'ro_first': True,
                'ro': {'kind': 'absent'}, 'regions': regions, 'tables': []}

    def make_unlocated(self, gen: Gen, r, kind):
        empty = {'id': gen.uid('e'), 'orientation': None, 'custom': None, 'coords': None, 'te': None, 'lines_first': True,
                 'lines': [], 'subs': []}
        if kind == 'bare':
            r['subs'] = r['subs'] + [dict(empty, id=None)]
        else:
            r['coords'] = None
            r['lines'] = [] if gen.rng.random() < 0.5 else r['lines']
            r['lines_first'] = False
            if kind == 'unlocated-text':
                empty['te'] = {'conf': None, 'plain': None, 'unicode': 'text only'}
            r['subs'] = [empty] + ([dict(empty, id=gen.uid('e'))] if gen.rng.random() < 0.4 else [])

    # ---------------------------------------------------------------- implementation / model
    def impl(self, case: Case) -> Any:
        if case.kind == 'tables':
            return {'space': [chr(c).isspace() for c in case.input['cps']]}
        if case.kind == 'seq':
            return self.impl_seq(case)
        return super().impl(case)

    # -- histories
    def seq_docs(self, case: Case) -> List[Case]:
        """the single-document case of every step (same source, same rendering seed: the same text every time)"""
        return [Case('doc', case.input['docs'][di], ['expect-mirror']) for di, _route in case.input['steps']]

    def impl_seq(self, case: Case) -> Any:
        steps = []
        for (di, route), pseudo in zip(case.input['steps'], self.seq_docs(case)):
            _canonical, _shuffled, text_c, text_s = self.trees(pseudo)
            steps.append({'xml': text_s, 'xml_c': text_c, 'fname': pseudo.input['fname'], 'route': route})
        from harness.props import _hermetic
        try:
            out = _hermetic.run_fresh(__name__, 'seq_worker', {'steps': steps}, timeout=120)
            if isinstance(out, dict) and 'steps' in out:
                out['hermetic'] = True
            return out
        except Exception:  # noqa — no pristine process available here: the history runs in this (used) one
            out = seq_worker({'steps': steps})
            out['hermetic'] = False
            return out

    def requests(self, case: Case):
        if case.kind == 'tables':
            return [{'p': 'C01', 'op': 'is_space', 'args': {'cps': case.input['cps']}}]
        if case.kind == 'seq':
            # the model is a pure function of the document: the answer for a document is the answer for EVERY parse of it
            return [r for pseudo in self.seq_docs(case) for r in self.requests(pseudo)]
        return super().requests(case) + self.reading_requests(case)

    def reading_requests(self, case: Case):
        """the model's parse of the same document under its other readings (see `other_readings`; none for a document
        without an empty Unicode next to a non-empty PlainText).  The text of a TextEquiv does not enter the hull table."""
        if case.kind not in ('doc', 'mut'):
            return []
        _canonical, shuffled, _text_c, _text_s = self.trees(case)
        alts = other_readings(shuffled)
        if not alts:
            return []
        fname, hulls = case.input.get('fname', 'doc.xml'), hull_table(shuffled)
        return [{'p': self.model_pid, 'op': 'parse_xml', 'args': {'xml': t, 'fname': fname, 'hulls': hulls}} for t in alts]

    def n_base_requests(self, case: Case) -> int:
        return 3 if case.kind == 'doc' else 2

    def compare_doc(self, case, impl_out, model_out):
        """DocCheck.compare on the document as it is; a difference in the PARSE (not in xmltodict's tree) of a document that
        has other readings is no difference if the real parse equals the model's parse under one of them"""
        nb = self.n_base_requests(case)
        d = super().compare(case, impl_out, model_out[:nb])
        if d is None or len(model_out) <= nb or not d.startswith('parse_pagexml_file vs'):
            return d
        real = impl_out['real']
        real_cmp = {'ok': real['ok']['scan']} if 'ok' in real else real
        for a in model_out[nb:]:
            if scan_diff(real_cmp, canon(norm_answer(a))) is None:
                return None
        return d + f' (nor does it equal the model under any of the {len(model_out) - nb} other readings of the empty ' \
                   f'Unicode / non-empty PlainText elements)'

    @staticmethod
    def _without_filename(ans):
        """`metadata['filename']` is written by parse_pagexml_file, not by parse_pagexml_json (routes 'json*')"""
        def strip(scan):
            return dict(scan, metadata=[kv for kv in scan['metadata'] if kv[0] != 'filename'])
        a = dict(ans)
        if 'ok' in a and isinstance(a['ok'], dict) and 'metadata' in a['ok']:
            a['ok'] = strip(a['ok'])
        if 'parsed' in a and 'ok' in a['parsed']:
            a['parsed'] = {'ok': strip(a['parsed']['ok'])}
        if 'mirror' in a:
            a['mirror'] = strip(a['mirror'])
        return a

    def compare(self, case, impl_out, model_out):
        if case.kind == 'tables':
            bad = [c for c, a, b in zip(case.input['cps'], impl_out['space'], model_out[0]['ok']) if a != b]
            return None if not bad else f'str.isspace differs from isPySpace at code points {bad[:10]}'
        if case.kind == 'seq':
            if 'steps' not in impl_out:
                return f'the history gave no answer: {short(impl_out)}'
            pseudos = self.seq_docs(case)
            at = 0
            for i, (pseudo, o) in enumerate(zip(pseudos, impl_out['steps'])):
                per = self.n_base_requests(pseudo) + len(other_readings(self.trees(pseudo)[1]))
                ans = model_out[at:at + per]
                at += per
                if o['route'].startswith('json'):
                    ans = [ans[0]] + [self._without_filename(a) for a in ans[1:]]
                d = self.compare_doc(pseudo, o, ans)
                if d:
                    return f'step {i} ({o["route"]}, {o["fname"]}): {d}'
            return None
        return self.compare_doc(case, impl_out, model_out)

    def nontrivial(self, case: Case) -> bool:
        if case.kind == 'seq':
            return any(d['src']['regions'] or d['src']['tables'] for d in case.input['docs']) and len(case.input['steps']) > 1
        return case.kind != 'tables' and super().nontrivial(case)

    def shrink_candidates(self, case: Case):
        if case.kind != 'seq':
            yield from super().shrink_candidates(case)
            return
        inp = case.input
        docs, steps = inp['docs'], inp['steps']

        def tidy(docs2, steps2):
            used = sorted({di for di, _ in steps2})
            return Case('seq', {'docs': [docs2[i] for i in used], 'steps': [[used.index(di), r] for di, r in steps2]}, case.tags)
        for i in range(len(steps)):
            if len(steps) > 1:
                yield tidy(docs, steps[:i] + steps[i + 1:])
        for i, (di, r) in enumerate(steps):
            if r != 'data':
                yield tidy(docs, steps[:i] + [[di, 'data']] + steps[i + 1:])
        for di, d in enumerate(docs):
            for v in super().shrink_candidates(Case('doc', d, [])):
                yield tidy(docs[:di] + [v.input] + docs[di + 1:], steps)
            m = d['src'].get('meta')
            if m:
                for k in m:
                    if m[k] is not None:
                        yield tidy(docs[:di] + [dict(d, src=dict(d['src'], meta=dict(m, **{k: None})))] + docs[di + 1:], steps)

    # ---------------------------------------------------------------- oracle
    def oracle(self, case: Case, out: Any) -> List[Finding]:
        fs: List[Finding] = []
        seen = set()
        if case.kind == 'seq':
            # "Parsing ANY conformant PageXML document yields …": whatever was parsed before it in the same process, by
            # whichever entry point — every parse of the history is judged like a single document, and the scans built
            # earlier must still read the same after the later parses
            def sbad(key, what):
                if key not in seen:
                    seen.add(key)
                    fs.append(Finding(f'C01:{key}', what, case, {'what': what}))
            if 'steps' not in out:
                sbad('history-no-answer', f'the parser did not get through the history: {short(out)}')
                return fs
            for i, (pseudo, o) in enumerate(zip(self.seq_docs(case), out['steps'])):
                where = f'step {i} of {len(out["steps"])} ({o["route"]}, {o["fname"]}): '
                self.judge_doc(pseudo.input, o, lambda key, what, w=where: sbad(key, w + what))
            for i, same in enumerate(out.get('unchanged') or []):
                if same is False:
                    sbad('scan-changed-by-later-parse', f'the scan of step {i} reads differently after the later parses of the '
                                                        f'history (and after its JSON view was taken)')
            return fs
        if case.kind != 'doc':
            return []          # malformed documents are outside the statement

        def bad(key, what):
            if key not in seen:
                seen.add(key)
                fs.append(Finding(f'C01:{key}', what, case, {'real': out['real'] if 'err' in out['real'] else '(scan)', 'what': what}))
        self.judge_doc(case.input, out, bad)
        return fs

    def judge_doc(self, doc_input: Dict[str, Any], out: Any, bad) -> None:
        """the statement judged on ONE parse: `doc_input` = {'src', 'fname', …}, `out` = {'real', 'xml'}"""
        src = doc_input['src']
        real = out['real']
        if 'err' in real:
            cls = page_class(src)
            m = src['meta'] or {}
            digit = any(v and v.strip().isdigit() and not v.strip().isascii() for v in m.values() if isinstance(v, str))
            if digit and real['err'] == 'ValueError':
                bad('metadata-nonascii-digit', f'a Metadata field of non-ASCII digits makes the parser raise {real["err"]}')
            elif 'bare' in cls and real['err'] == 'TypeError':
                bad('bare-empty-region', 'an empty <TextRegion/> without attributes makes the parser raise TypeError instead of being skipped')
            elif 'unlocated' in cls and real['err'] in ('IndexError', 'AttributeError'):
                bad('coordless-region-unlocated-subregions',
                    f'a TextRegion without Coords whose sub-regions have no coordinates makes the parser raise {real["err"]}')
            else:
                bad('raises:' + real['err'], f'conformant document rejected with {real["err"]}')
            return
        scan, extra = real['ok']['scan'], real['ok']['extra']
        exp = read_doc(out['xml'])
        fname = doc_input.get('fname', 'doc.xml')
        # -- scan id, size
        want_id = exp['image_filename'] if exp['image_filename'] is not None else fname
        if scan['id'] != want_id:
            bad('scan-id', f'scan id {scan["id"]!r}, image file name {want_id!r}')
        w, h = int(exp['width']), int(exp['height'])
        if w != 0 and h != 0:
            if scan['coords'] is None or sorted(map(tuple, scan['coords'])) != sorted([(0, 0), (w, 0), (w, h), (0, h)]):
                bad('scan-size', f'scan coords {scan["coords"]} for image {w}x{h}')
        # -- metadata
        for tag, key in (('Creator', 'creator'), ('Comments', 'comments')):
            v = exp['meta'].get(tag, '')
            if v.strip():
                got = extra[key]
                if got is None or str(got) != v.strip():
                    if got is not None and not (v.strip().isdigit() and str(got) == str(int(v.strip()))):
                        bad('metadata:' + tag, f'{tag} {v!r} carried over as {got!r}')
                    elif got is None:
                        bad('metadata:' + tag, f'{tag} {v!r} lost')
        for tag, key in (('Created', 'created'), ('LastChange', 'last_change')):
            v = exp['meta'].get(tag, '')
            if v.strip():
                got = extra[key]
                try:
                    ok = got is not None and abs(instant(got) - instant(v.strip())) < 1e-3
                except Exception as e:  # noqa
                    ok = False
                if not ok:
                    bad('metadata:' + tag, f'{tag} {v!r} carried over as {got!r} (different instant)')
        # "the Metadata fields are carried over": the fields of THIS file.  A key of scan.metadata that bears the name of
        # a PAGE Metadata child element must come from such an element of the file (keys with other names — scan_id,
        # namespace, filename, … — are the library's own and free)
        for k, v in scan['metadata']:
            if k in PAGE_META_TAGS and k not in exp['meta_filled'] and v not in ('', None):
                bad('metadata-field-not-in-file', f'scan.metadata[{k!r}] = {short(v, 80)} but the Metadata element of the file has '
                                                  f'{"an empty" if k in exp["meta"] else "no"} {k} (fields of the file: {exp["meta_filled"]})')
        # -- the text hierarchy
        exp_regions = [r for r in exp['regions']]
        self.cmp_regions(exp_regions, scan['regions'], 'page', bad, ordered=not exp['has_ro'])

    def cmp_regions(self, exp, got, where, bad, ordered=True, alt=False):
        """`alt`: below a region that is kept only under the PlainText reading (so that reading is the one in force)"""
        must = [r for r in exp if has_content(r, alt)]
        # "only a region with neither coordinates nor content is skipped": a region without coordinates whose only content
        # is an empty Unicode next to a non-empty PlainText (at itself or at such sub-regions) has content under one
        # reading of "the text" and none under the other (see _text_equiv): it may be kept or skipped.  When the parser
        # delivers more regions than the Unicode reading demands, the additional ones must be such regions, in document
        # order, and everything else is judged as before (the choice with the fewest failures is what is reported)
        free = [] if alt else [i for i, r in enumerate(exp) if not has_content(r) and has_content(r, True)]
        extra = len(got) - len(must)
        if free and 0 < extra <= len(free):
            best = None
            for chosen in itertools.islice(itertools.combinations(free, extra), 64):
                fs: List[Any] = []
                kept = [(r, i in chosen) for i, r in enumerate(exp) if has_content(r) or i in chosen]
                self.cmp_kept(kept, got, where, lambda key, what: fs.append((key, what)), ordered)
                if best is None or len(fs) < len(best):
                    best = fs
                if not fs:
                    break
            for key, what in best:
                bad(key, what)
            return
        self.cmp_kept([(r, alt) for r in must], got, where, bad, ordered)

    def cmp_kept(self, exp_alt, got, where, bad, ordered=True):
        """`exp_alt`: the regions of the file that are kept, each with the reading in force below it"""
        alt_of = {id(r): a for r, a in exp_alt}
        exp = [r for r, _a in exp_alt]
        if len(exp) != len(got):
            bad('region-count', f'{where}: {len(exp)} TextRegion elements with coordinates or content, {len(got)} parsed')
            return
        if not ordered:
            key = lambda r: (r['id'] is None, r['id'] or '')
            if sorted(r['id'] or '' for r in exp) != sorted(r['id'] or '' for r in got):
                bad('region-ids', f'{where}: region ids {[r["id"] for r in got]} vs file {[r["id"] for r in exp]}')
                return
            if len(set(r['id'] for r in exp)) != len(exp):
                return
            exp, got = sorted(exp, key=key), sorted(got, key=key)
        for e, g in zip(exp, got):
            w = f'{where}/{e["id"]}'
            if e['id'] != g['id']:
                bad('region-order', f'{where}: region {g["id"]!r} where the file has {e["id"]!r}')
                return
            if e['coords']:
                if g['coords'] != e['coords']:
                    bad('region-coords', f'{w}: points {g["coords"]} vs file {e["coords"]}')
            elif located(e):
                # derived: the hull of the kept sub-regions that have coordinates, followed by the lines
                pool = [tuple(p) for sub in g['regions'] if sub['coords'] for p in sub['coords']]
                pool += [tuple(p) for l in e['lines'] for p in (l['coords'] or [])]
                got_pts = [tuple(p) for p in (g['coords'] or [])]
                if not got_pts or not set(got_pts) <= set(pool):
                    bad('region-derived-coords', f'{w}: derived points {g["coords"]} are not points of its children')
                else:
                    box = lambda ps: (min(x for x, _ in ps), min(y for _, y in ps), max(x for x, _ in ps), max(y for _, y in ps))
                    if box(got_pts) != box(pool):
                        bad('region-derived-coords', f'{w}: derived points {g["coords"]} do not span all sub-regions and lines '
                                                     f'(box {box(got_pts)} vs {box(pool)})')
            elif g['coords'] is not None:
                bad('region-derived-coords', f'{w}: points {g["coords"]} although nothing below the region has coordinates')
            if (e['orientation'] is None) != (g['orientation'] is None) or (
                    e['orientation'] is not None and repr(float(e['orientation'])) != g['orientation']):
                bad('region-orientation', f'{w}: orientation {g["orientation"]} vs file {e["orientation"]}')
            self.cmp_text(e['te'], g['text'], w, 'region', bad, none_when_absent=True)
            if len(e['lines']) != len(g['lines']):
                bad('line-count', f'{w}: {len(e["lines"])} TextLine elements, {len(g["lines"])} parsed')
            else:
                for el, gl in zip(e['lines'], g['lines']):
                    self.cmp_line(el, gl, w, bad)
            self.cmp_regions(e['regions'], g['regions'], w, bad, alt=alt_of[id(e)])

    def cmp_text(self, te, got, where, kind, bad, none_when_absent):
        want = '' if te is None else te['text']
        have = got if isinstance(got, str) else ('' if got is None else repr(got))
        if want == have:
            return
        alt = None if te is None else te.get('alt_text')
        if alt is not None and have in (alt, alt.strip()):
            return
        if want.strip() == have:
            bad('text-edge-whitespace', f'{where}: {kind} text {want!r} parsed as {got!r}')
        else:
            bad(kind + '-text', f'{where}: {kind} text {want!r} parsed as {got!r}')

    def cmp_conf(self, te, got, where, kind, bad):
        want = None if te is None or te['conf'] in (None, '') else float(te['conf'])
        have = None if got in (None, '') else float(got)
        same = (want is None and have is None) or (want is not None and have is not None
                                                    and (want == have or (want != want and have != have)))
        if not same:
            bad(kind + '-conf', f'{where}: {kind} confidence {got!r} vs file {None if te is None else te["conf"]!r}')

    def cmp_line(self, e, g, where, bad):
        w = f'{where}/{e["id"]}'
        if e['id'] != g['id']:
            bad('line-order', f'{where}: line {g["id"]!r} where the file has {e["id"]!r}')
            return
        if g['coords'] != e['coords']:
            bad('line-coords', f'{w}: points {g["coords"]} vs file {e["coords"]}')
        if g['baseline'] != e['baseline']:
            bad('line-baseline', f'{w}: baseline {g["baseline"]} vs file {e["baseline"]}')
        self.cmp_text(e['te'], g['text'], w, 'line', bad, True)
        self.cmp_conf(e['te'], g['conf'], w, 'line', bad)
        if len(e['words']) != len(g['words']):
            bad('word-count', f'{w}: {len(e["words"])} Word elements, {len(g["words"])} parsed')
            return
        for ew, gw in zip(e['words'], g['words']):
            ww = f'{w}/{ew["id"]}'
            if ew['id'] != gw['id']:
                bad('word-order', f'{w}: word {gw["id"]!r} where the file has {ew["id"]!r}')
                return
            if gw['coords'] != ew['coords']:
                bad('word-coords', f'{ww}: points {gw["coords"]} vs file {ew["coords"]}')
            self.cmp_text(ew['te'], gw['text'], ww, 'word', bad, True)
            self.cmp_conf(ew['te'], gw['conf'], ww, 'word', bad)


CHECK = C01()
