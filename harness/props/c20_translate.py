"""C20 translator -> PagexmlModel/Generated/C20.lean.

Two parts:
  * the words-per-line tables of pagexml.analysis.text_stats, computed at import time with np.log: the one
    place where the translator imports the module and evaluates it (DESIGN §4.1);
  * the defaults and literals of stats.py / text_stats.py / layout_stats.py the model depends on, read with
    `ast` (harness/translate.py) from the current working tree — never imported, never guessed: a shape that
    is not recognised raises TranslateError.
"""
from __future__ import annotations

from typing import Any, Dict

ST = 'pagexml/analysis/stats.py'
TS = 'pagexml/analysis/text_stats.py'
LS = 'pagexml/analysis/layout_stats.py'


def lean_str(s: str) -> str:
    return '"' + s.replace('\\', '\\\\').replace('"', '\\"') + '"'


def wpl_tables() -> str:
    import pagexml.analysis.text_stats as ts
    keys = list(ts.wpl_cat_range.keys())          # dict order = order of first use
    cats = []
    for k in keys:
        cats.append((ts.wpl_cat_range[k], int(ts.wpl_cat_min[k]), int(ts.wpl_cat_max[k])))
    wpls = sorted(ts.wpl_to_cat.keys())
    if wpls != list(range(len(wpls))):
        raise ValueError(f'wpl_to_cat keys are not 0..n: {wpls[:5]}…')
    to_cat = [keys.index(ts.wpl_to_cat[w]) for w in wpls]
    overflow = keys.index(max(ts.wpl_cat_range.keys()))
    lines = [
        '/-- `wpl_cat_range` in dict order: (range label, `wpl_cat_min`, `wpl_cat_max`) -/',
        'def wplCats : List (String × Nat × Nat) := [',
        ',\n'.join(f'  ({lean_str(s)}, {lo}, {hi})' for s, lo, hi in cats),
        ']',
        '',
        '/-- for `wpl` = 0, 1, …: index into `wplCats` of `wpl_cat_range[wpl_to_cat[wpl]]` -/',
        'def wplToCat : List Nat := [' + ', '.join(str(i) for i in to_cat) + ']',
        '',
        '/-- index of `wpl_cat_range[max(wpl_cat_range.keys())]` (lines with more words than the table covers) -/',
        f'def wplOverflow : Nat := {overflow}',
        '',
    ]
    return '\n'.join(lines)


def constants() -> Dict[str, Any]:
    """the defaults and literals, as plain Python values (also used by the harness, e.g. `_SMALL`)"""
    from harness import translate as tr
    E = tr.TranslateError

    def nat(v, what):
        i = tr.as_int(v)
        if i < 0:
            raise E(f'{what} is negative: {i}')
        return i

    def named(fn, callee, param, pos, var):
        a = tr.call_argument(ST, fn, callee, param, pos)
        if a != ('NAME', var):
            raise E(f'{ST}:{fn}: {callee}(… {param}) is {a!r}, expected the variable {var}')

    c: Dict[str, Any] = {}
    # --- get_doc_stats: its defaults, and what it hands to the two functions that bin word lengths ---------
    d = tr.func_defaults(ST, 'get_doc_stats')
    for k in ('line_width_boundary_points', 'max_word_length', 'line_bin_width', 'max_bin'):
        if k not in d:
            raise E(f'{ST}:get_doc_stats has no default for {k}')
    if d['line_width_boundary_points'] is not None:
        raise E(f'{ST}:get_doc_stats: line_width_boundary_points defaults to {d["line_width_boundary_points"]!r}, not None')
    c['defaultMaxWordLength'] = nat(d['max_word_length'], 'default max_word_length of get_doc_stats')
    c['defaultLineBinWidth'] = tr.as_int(d['line_bin_width'])
    c['defaultMaxBin'] = tr.as_int(d['max_bin'])
    # the default boundary points: `if line_width_boundary_points is None: … = [point for point in range(…)]`
    tr.literals_in(ST, 'get_doc_stats', '[point for point in range(line_bin_width, max_bin, line_bin_width)]')
    tr.literals_in(ST, 'get_doc_stats', 'line_width_boundary_points is None', count=2)
    if tr.import_alias(ST, 'text_stats') != 'pagexml.analysis.text_stats':
        raise E(f'{ST}: text_stats is not pagexml.analysis.text_stats')
    if tr.import_alias(ST, 'layout_stats') != 'pagexml.analysis.layout_stats':
        raise E(f'{ST}: layout_stats is not pagexml.analysis.layout_stats')
    named('get_doc_stats', '_init_doc_stats', 'line_width_boundary_points', 0, 'line_width_boundary_points')
    named('get_doc_stats', '_init_doc_stats', 'max_word_length', 2, 'max_word_length')
    named('get_doc_stats', 'get_word_cat_stats', 'max_word_length', 2, 'max_word_length')
    c['initBinSize'] = nat(tr.effective_argument(ST, 'get_doc_stats', '_init_doc_stats', 'word_length_bin_size', 1, ST),
                           'word_length_bin_size reaching _init_doc_stats')
    c['wordCatBinSize'] = nat(tr.effective_argument(ST, 'get_doc_stats', 'get_word_cat_stats', 'word_length_bin_size',
                                                    3, TS), 'word_length_bin_size reaching get_word_cat_stats')
    # --- get_word_cat_stats called directly ---------------------------------------------------------------
    w = tr.func_defaults(TS, 'get_word_cat_stats')
    for k in ('max_word_length', 'word_length_bin_size'):
        if k not in w:
            raise E(f'{TS}:get_word_cat_stats has no default for {k}')
    c['wordCatDefaultMaxLen'] = nat(w['max_word_length'], 'default max_word_length of get_word_cat_stats')
    c['wordCatDefaultBinSize'] = nat(w['word_length_bin_size'], 'default word_length_bin_size of get_word_cat_stats')
    # --- the loop bounds of the two binning loops ------------------------------------------------------------
    c['initBinStopPlus'] = nat(tr.literal_in(
        ST, '_init_doc_stats', 'range(word_length_bin_size, max_word_length + _N0, word_length_bin_size)'),
        'stop offset of the bin range of _init_doc_stats')
    m = tr.literals_in(TS, 'get_word_cat_stats', 'range(_N0, max_word_length + _N1)')[0]
    c['wordLoop'] = (nat(m['_N0'], 'start of the length loop'), nat(m['_N1'], 'stop offset of the length loop'))
    # --- the fixed columns ------------------------------------------------------------------------------------
    c['defaultElements'] = tr.str_list_value(tr.module_constant(ST, 'DEFAULT_ELEMENTS'), f'{ST}: DEFAULT_ELEMENTS')
    c['initFields'] = tr.assigned_str_list(ST, '_init_doc_stats', 'fields')
    c['wordCatKeys'] = tr.assigned_dict_str_keys(TS, 'get_word_cat_stats', 'word_cat_stats')
    # --- line widths: where the first range starts ------------------------------------------------------------
    for key, fn in (('catWidthStart', 'categorise_line_width'), ('rangesWidthStart', 'get_boundary_width_ranges')):
        vs = tr.assigned_literals(LS, fn, 'prev_point')
        if len(vs) != 1:
            raise E(f'{LS}:{fn}: expected one `prev_point = <number>`, found {vs}')
        c[key] = tr.as_int(vs[0])
    # --- keyness: the regularisation constant and the factor of the score --------------------------------------
    small = tr.module_constant(TS, '_SMALL')
    f = tr.as_fraction(small)
    if f < 0:
        raise E(f'{TS}: _SMALL is negative')
    c['small'] = (f.numerator, f.denominator)
    c['smallFloat'] = float(small)
    tr.literals_in(TS, 'compute_log_likelihood',
                   'observed[i, j] * np.log((observed[i, j] + _SMALL) / (expected[i, j] + _SMALL))')
    c['scoreFactor'] = nat(tr.literal_in(TS, 'compute_log_likelihood', '_N0 * sum_likelihood'), 'factor of the score')
    return c


def generate() -> str:
    from harness import translate as tr
    c = constants()
    head = (
        '/- GENERATED on every run by harness/props/c20_translate.py from the current /repo working tree.\n'
        '   Do not edit: the property theorems are re-checked against what the code says NOW.\n'
        '   (1) pagexml/analysis/text_stats.py: module constants wpl_to_cat / wpl_cat_min / wpl_cat_max / wpl_cat_range,\n'
        '       evaluated at run time because they are computed with np.log;\n'
        '   (2) read with `ast`: pagexml/analysis/stats.py (defaults of get_doc_stats, the arguments with which it reaches\n'
        '       _init_doc_stats and text_stats.get_word_cat_stats, DEFAULT_ELEMENTS, `fields` and the bin range of\n'
        '       _init_doc_stats), pagexml/analysis/text_stats.py (defaults, dict keys and length loop of get_word_cat_stats, _SMALL and\n'
        '       the factor of the score in compute_log_likelihood), pagexml/analysis/layout_stats.py (`prev_point = N` of\n'
        '       categorise_line_width / get_boundary_width_ranges). -/\n'
        'namespace Pagexml.Generated.C20\n\n')
    body = wpl_tables() + '\n' + '\n'.join([
        '/-- default `max_word_length` of get_doc_stats -/',
        f'def defaultMaxWordLength : Nat := {c["defaultMaxWordLength"]}',
        '',
        '/-- default `line_bin_width` of get_doc_stats (`range(line_bin_width, max_bin, line_bin_width)` are the boundary',
        '    points when none are passed) -/',
        f'def defaultLineBinWidth : Int := {tr.lean_int(c["defaultLineBinWidth"])}',
        '',
        '/-- default `max_bin` of get_doc_stats -/',
        f'def defaultMaxBin : Int := {tr.lean_int(c["defaultMaxBin"])}',
        '',
        '/-- `word_length_bin_size` with which get_doc_stats reaches _init_doc_stats (the literal passed, else the default) -/',
        f'def initBinSize : Nat := {c["initBinSize"]}',
        '',
        '/-- `word_length_bin_size` with which get_doc_stats reaches text_stats.get_word_cat_stats -/',
        f'def wordCatBinSize : Nat := {c["wordCatBinSize"]}',
        '',
        '/-- default `max_word_length` of get_word_cat_stats (called directly) -/',
        f'def wordCatDefaultMaxLen : Nat := {c["wordCatDefaultMaxLen"]}',
        '',
        '/-- default `word_length_bin_size` of get_word_cat_stats (called directly) -/',
        f'def wordCatDefaultBinSize : Nat := {c["wordCatDefaultBinSize"]}',
        '',
        '/-- `N` of `range(word_length_bin_size, max_word_length + N, word_length_bin_size)` in _init_doc_stats -/',
        f'def initBinStopPlus : Nat := {c["initBinStopPlus"]}',
        '',
        '/-- `(A, B)` of `for wl in range(A, max_word_length + B)` in get_word_cat_stats -/',
        f'def wordLoop : Nat × Nat := ({c["wordLoop"][0]}, {c["wordLoop"][1]})',
        '',
        '/-- `DEFAULT_ELEMENTS` of stats.py -/',
        f'def defaultElements : List String := {tr.lean_str_list(c["defaultElements"])}',
        '',
        '/-- `fields` of _init_doc_stats (the columns that do not depend on the configuration) -/',
        f'def initFields : List String := {tr.lean_str_list(c["initFields"])}',
        '',
        '/-- the keys of the dict display `word_cat_stats = {…}` of get_word_cat_stats (get_doc_stats appends each to the',
        '    column of that name) -/',
        f'def wordCatKeys : List String := {tr.lean_str_list(c["wordCatKeys"])}',
        '',
        '/-- `prev_point = N` at the start of categorise_line_width -/',
        f'def catWidthStart : Int := {tr.lean_int(c["catWidthStart"])}',
        '',
        '/-- `prev_point = N` at the start of get_boundary_width_ranges -/',
        f'def rangesWidthStart : Int := {tr.lean_int(c["rangesWidthStart"])}',
        '',
        '/-- `_SMALL` of text_stats.py as the exact ratio (numerator, denominator) its decimal literal denotes -/',
        f'def small : Nat × Nat := ({c["small"][0]}, {c["small"][1]})',
        '',
        '/-- `N` of `return N * sum_likelihood, …` in compute_log_likelihood -/',
        f'def scoreFactor : Nat := {c["scoreFactor"]}',
        '',
        'end Pagexml.Generated.C20',
        '',
    ])
    return head + body


if __name__ == '__main__':
    print(generate())
