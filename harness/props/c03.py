"""C03 — Coordinates report the exact bounding box of their points."""
from __future__ import annotations

import itertools
import random
from typing import Any, Dict, Iterable, List

from harness.core import Case, Check, Finding, OUTSIDE, call, canon


def _real():
    from pagexml.model.coords import Coords, Baseline
    return Coords, Baseline


NONINT = {'float': 1.5, 'str': 'a', 'none': None}
NOTSEQ = {'int': 7, 'none': None, 'str': 'ab'}


def _py_points(inp: Dict[str, Any]):
    """JSON input -> the Python object handed to Coords (null scalars / elements are the
    malformed values named by the case)"""
    pts = []
    for p in inp['points']:
        if p is None:
            pts.append(NOTSEQ[inp.get('notseq', 'int')])
        else:
            xs = [NONINT[inp.get('nonint', 'float')] if v is None else v for v in p]
            pts.append(tuple(xs) if inp.get('as_tuple', True) else list(xs))
    return pts


def _list_class(pts) -> str:
    """where a list input stands with respect to the statement: 'wellformed' (a non-empty sequence of integer pairs:
    the quantifier), 'malformed' (empty, or a non-sequence / non-integer where a point / coordinate should be: "rejected
    with an error"), else 'outside' (elements that are not pairs — DESIGN §9: the model mirrors the code, nothing is
    claimed)"""
    if len(pts) > 0 and all(isinstance(p, list) and len(p) == 2 and all(isinstance(v, int) for v in p) for p in pts):
        return 'wellformed'
    if len(pts) == 0 or any(p is None or any(v is None for v in p) for p in pts):
        return 'malformed'
    return 'outside'


def _str_outside(s: str) -> bool:
    """a points string of integer "x,y" pairs AND some blank-separated token that is not a pair ('1,2 x 3,4',
    '1,2,3 4,5', doubled / leading / trailing blanks): not one of the "accepted input forms" of the quantifier, and not
    the empty or non-integer list the last clause speaks of (DESIGN §9: outside the statement, mirrored only)"""
    toks = [t.split(',') for t in s.split(' ')]
    pairs = [t for t in toks if len(t) == 2]
    if not pairs or len(pairs) == len(toks):
        return False
    try:
        [(int(a), int(b)) for a, b in pairs]
    except ValueError:
        return False        # a non-integer pair: "rejected" whatever else the string holds
    return True


def _outside(case: Case) -> bool:
    if case.kind == 'used':
        return False
    if case.kind == 'str':
        return _str_outside(case.input['s'])
    return _list_class(case.input['points']) == 'outside'


def _dump(c) -> Dict[str, Any]:
    return canon({'points': [list(p) for p in c.points], 'x': c.x, 'y': c.y, 'w': c.w, 'h': c.h,
                  'left': c.left, 'right': c.right, 'top': c.top, 'bottom': c.bottom,
                  'width': c.width, 'height': c.height, 'point_string': c.point_string})


# ---------------------------------------------------------------------------------------
# WAVE 4 — used objects (oracle-only case kind 'used').  The laws of the statement are laws of the coordinates OBJECT:
# it "keeps the points in input order", reports the box of those points, and "its points string parses back to the same
# points and box" — for as long as the object is in use, not only right after construction.  A 'used' case builds
# several Coords / Baseline objects (in both accepted input forms), hands the elements that carry them to a library
# routine that reads coordinates (the routes below), and then judges the same laws again ON EACH INPUT OBJECT.
# No model request: the model's answer for a point list does not depend on what happened to another object.
# ---------------------------------------------------------------------------------------

USED_ROUTES = ('derive', 'hull', 'add_child', 'page_add_child', 'merge_lines', 'rows', 'json', 'area')


def _use(route: str, lines, coords_objs):
    """hand the objects to the library the way a caller would"""
    import pagexml.model.physical_document_model as pdm
    from pagexml.model import coords as co
    if route == 'derive':
        co.parse_derived_coords(lines)
        co.parse_derived_coords(lines[::-1])
    elif route == 'hull':
        co.coords_list_to_hull_coords(coords_objs)
    elif route == 'add_child':
        region = pdm.PageXMLTextRegion(doc_id='r')
        for line in lines:
            region.add_child(line)
    elif route == 'page_add_child':
        page = pdm.PageXMLPage(doc_id='p')
        for i, line in enumerate(lines):
            page.add_child(pdm.PageXMLColumn(doc_id=f'c{i}', coords=line.coords, lines=[line]))
    elif route == 'merge_lines':
        import pagexml.helper.pagexml_helper as ph
        ph.merge_lines(lines)
    elif route == 'rows':
        import pagexml.parser as pa
        pa.make_rows_from_cells([pdm.PageXMLTableCell(doc_id=f'c{i}', coords=line.coords, row=0, col=i)
                                 for i, line in enumerate(lines)])
    elif route == 'json':
        for line in lines:
            _ = line.json
    elif route == 'area':
        for line in lines:
            _ = line.area
    else:
        raise ValueError(route)


class C03(Check):
    pid = 'C03'
    props_module = 'PagexmlModel.Props.C03'
    anchors = {'pagexml/model/coords.py': ['parse_points', 'Coords.__init__', 'Coords.box', 'Coords.left',
                                           'Coords.right', 'Coords.top', 'Coords.bottom', 'Coords.width',
                                           'Coords.height', 'Baseline.__init__']}
    level_note = ('proved for every non-empty integer point list (no bound on length or magnitude): exact box, '
                  'point-string round trip, rejection of empty / non-integer input; Python int() on non-ASCII '
                  'digits and 3-or-more-element points are outside the model and not generated; correspondence: rejected '
                  'inputs are compared as rejected-vs-accepted (the statement fixes no exception class; the model keeps '
                  'the class the code raises today), accepted inputs value by value; used objects (wave 4): the same laws '
                  'are judged again, by the oracle only, on every Coords / Baseline object after the element carrying it was '
                  'handed to a routine that reads coordinates (derive, hull, add_child, merge_lines, table rows, JSON view, area): '
                  'the model\'s theorems are about one point list and say nothing about aliasing between objects')
    assumptions = ['CPython int()/str() agree with pyInt?/showInt on ASCII input (sampled by the correspondence)',
                   'list.__getitem__/isinstance semantics of parse_points mirrored by hand']
    nontrivial_rule = ('distinct inputs; non-trivial = at least two points or a malformed element '
                       '(single well-formed points are counted as trivial)')

    # ---------------------------------------------------------------- generation
    def cases(self, rng: random.Random, tier: str) -> Iterable[Case]:
        out: List[Case] = []
        # corpus: regression inputs
        for pts in ([[0, 0]], [[5, 7], [5, 7]], [[3, 1], [1, 3], [2, 2]], [[-4, 10 ** 30], [4, -10 ** 30]]):
            out.append(Case('list', {'points': pts}, ['corpus']))
            out.append(Case('roundtrip', {'points': pts}, ['corpus']))
        for s in ['', ' ', '1,2', '1,2 3,4', '1,2  3,4', ' 1,2', '1,2 ', '1,2 x 3,4', '1,2,3 4,5', 'a,b', '1,2 a,b',
                  '1.5,2', '+1,-2', '1_0,2', '1__0,2', '_1,2', '1_,2', ',', '1,', '1,2\n', '1,2\t3,4', '\t1,2',
                  '1 ,2', '0x10,1', '-0,+0', '007,08', '- 1,2', '+-1,2', '1,2\x1c']:
            out.append(Case('str', {'s': s}, ['corpus']))
        for pts, extra in [([], {}), ([None], {'notseq': 'int'}), ([None], {'notseq': 'str'}), ([[1, None]], {}),
                           ([[None, 1]], {'nonint': 'str'}), ([[None, None]], {'nonint': 'none'}), ([[1]], {}),
                           ([[]], {}), ([[1, 2], [1, None]], {}), ([[1, 2], None, [3, 4]], {'notseq': 'none'}),
                           ([[None]], {}), ([[1, 2], [3]], {})]:
            out.append(Case('list', dict(points=pts, **extra), ['corpus', 'malformed']))
        # exhaustive small lattice: all point lists of length <= L over a k x k lattice
        k, L = (3, 2) if tier == 'quick' else (4, 3)
        lattice = [[x, y] for x in range(k) for y in range(k)]
        for n in range(1, L + 1):
            for combo in itertools.product(lattice, repeat=n):
                out.append(Case('list', {'points': [list(p) for p in combo]}, ['lattice']))
                if n <= 2:
                    out.append(Case('roundtrip', {'points': [list(p) for p in combo]}, ['lattice']))
        # random
        n_rand = 300 if tier == 'quick' else 6000
        for _ in range(n_rand):
            n = rng.choice([1, 2, 3, 5, 8, 20, 60, 200]) if rng.random() < 0.3 else rng.randint(1, 8)
            mag = rng.choice([5, 100, 10 ** 4, 10 ** 9, 10 ** 18, 10 ** 40])
            pts = [[rng.randint(-mag, mag), rng.randint(-mag, mag)] for _ in range(n)]
            if rng.random() < 0.3 and n > 1:   # repeated / collinear points
                pts[rng.randrange(n)] = list(pts[rng.randrange(n)])
            kind = rng.choice(['list', 'roundtrip', 'list'])
            out.append(Case(kind, {'points': pts, 'as_tuple': rng.random() < 0.5}, ['random']))
        for _ in range(n_rand // 2):
            out.append(Case('str', {'s': self._rand_str(rng)}, ['random']))
        for _ in range(n_rand // 4):
            n = rng.randint(1, 5)
            pts: List[Any] = [[rng.randint(-50, 50), rng.randint(-50, 50)] for _ in range(n)]
            i = rng.randrange(n)
            pts[i] = rng.choice([None, [None, 1], [1, None], [None, None], [1], []])
            out.append(Case('list', {'points': pts, 'nonint': rng.choice(list(NONINT)),
                                     'notseq': rng.choice(list(NOTSEQ)), 'as_tuple': rng.random() < 0.5},
                            ['random', 'malformed']))
        # inputs the statement neither quantifies over nor names as "rejected" (DESIGN §9): model and code are still
        # compared on them, a difference is recorded in the evidence only, and the oracle does not judge them
        for c in out:
            if _outside(c) and OUTSIDE not in c.tags:
                c.tags.append(OUTSIDE)
        # WAVE 4: objects that are used after they were built (generated last: the streams above are what they were)
        for route in USED_ROUTES:
            out.append(Case('used', {'docs': [[[0, 0], [50, 0], [50, 20], [0, 20]], [[10, 30], [90, 30], [90, 55], [10, 55]],
                                              [[5, 60], [40, 60], [40, 80]]], 'forms': ['list', 'str', 'list'],
                                     'route': route}, ['corpus', 'used']))
        for _ in range(n_rand // 2):
            k = rng.choice([1, 2, 2, 3, 4, 6])
            mag = rng.choice([5, 100, 10 ** 4, 10 ** 6])
            docs = [[[rng.randint(-mag, mag), rng.randint(-mag, mag)] for _ in range(rng.choice([1, 2, 3, 4, 4, 7]))]
                    for _ in range(k)]
            out.append(Case('used', {'docs': docs, 'forms': [rng.choice(['list', 'str', 'lists']) for _ in docs],
                                     'route': rng.choice(USED_ROUTES)}, ['random', 'used']))
        return out

    def _rand_str(self, rng: random.Random) -> str:
        def num():
            r = rng.random()
            v = rng.randint(-10 ** rng.choice([1, 3, 20]), 10 ** rng.choice([1, 3, 20]))
            if r < 0.7:
                return str(v)
            return rng.choice(['+' + str(abs(v)), str(v) + ' ', ' ' + str(v), '1_000', 'a', '', '1.0', '--1', '1__1',
                               '٣', str(v) + '_', '0' + str(abs(v)), '\t' + str(v), str(v) + '\n'])
        toks = []
        for _ in range(rng.randint(0, 6)):
            r = rng.random()
            if r < 0.75:
                toks.append(num() + ',' + num())
            elif r < 0.85:
                toks.append(num())
            elif r < 0.95:
                toks.append(num() + ',' + num() + ',' + num())
            else:
                toks.append('')
        s = ' '.join(toks)
        # the model covers ASCII only (DESIGN §3.2): drop any non-ASCII digit again
        return ''.join(ch for ch in s if ord(ch) < 128)

    # ---------------------------------------------------------------- implementation
    def impl(self, case: Case) -> Any:
        Coords, Baseline = _real()
        if case.kind == 'list':
            pts = _py_points(case.input)
            r = call(lambda: _dump(Coords(pts)))
            b = call(lambda: _dump(Baseline(_py_points(case.input))))
            r['baseline_same'] = (b == {k: v for k, v in r.items() if k in ('ok', 'err')})
            r['input_same'] = (pts == _py_points(case.input))      # the caller's own list is left as it was
            return r
        if case.kind == 'str':
            return call(lambda: _dump(Coords(case.input['s'])))
        if case.kind == 'roundtrip':
            def f():
                c = Coords([tuple(p) for p in case.input['points']])
                d = Coords(c.point_string)
                return {'first': _dump(c), 'second': _dump(d)}
            return call(f)
        if case.kind == 'used':
            import pagexml.model.physical_document_model as pdm
            inp = case.input

            def build(cls, pts, form):
                if form == 'str':
                    return cls(' '.join(f'{p[0]},{p[1]}' for p in pts))
                return cls([list(p) for p in pts] if form == 'lists' else [tuple(p) for p in pts])

            def reread(c):
                return {'now': _dump(c), 'from_string': _dump(Coords(c.point_string))}
            cs = [build(Coords, d, f) for d, f in zip(inp['docs'], inp['forms'])]
            bs = [build(Baseline, d, f) for d, f in zip(inp['docs'], inp['forms'])]
            lines = [pdm.PageXMLTextLine(doc_id=f'l{i}', coords=c, baseline=b, text='t') for i, (c, b) in enumerate(zip(cs, bs))]
            used = call(lambda: _use(inp['route'], lines, cs))
            return {'used': {'unit': None} if 'ok' in used else used,
                    'coords': [call(lambda c=c: reread(c)) for c in cs], 'baselines': [call(lambda b=b: reread(b)) for b in bs],
                    'same_objects': all(l.coords is c and l.baseline is b for l, c, b in zip(lines, cs, bs))}
        raise ValueError(case.kind)

    # ---------------------------------------------------------------- model
    def requests(self, case: Case):
        if case.kind == 'list':
            return [{'p': 'C03', 'op': 'coords_list', 'args': {'points': case.input['points']}}]
        if case.kind == 'str':
            return [{'p': 'C03', 'op': 'coords_str', 'args': {'s': case.input['s']}}]
        if case.kind == 'roundtrip':
            return [{'p': 'C03', 'op': 'coords_list', 'args': {'points': case.input['points']}}]
        return []

    def compare(self, case, impl_out, model_out):
        if case.kind == 'used':
            return None         # oracle-only (see the WAVE 4 comment above USED_ROUTES)
        m = model_out[0]
        # the statement: "an empty or non-integer point list is rejected with an error rather than accepted" — it
        # fixes THAT such an input is rejected, not the exception class (nor which statement raises first), and no
        # other clause speaks of exceptions: rejections are compared as rejected-vs-accepted; every accepted input
        # is compared value by value as before
        if 'err' in impl_out and 'err' in m:
            return None
        if case.kind == 'list':
            i = {k: v for k, v in impl_out.items() if k in ('ok', 'err')}
            return None if i == m else f'impl={i} model={m}'
        if case.kind == 'str':
            return None if impl_out == m else f'impl={impl_out} model={m}'
        if case.kind == 'roundtrip':
            if 'ok' in impl_out and 'ok' in m and impl_out['ok']['first'] == m['ok']:
                return None
            return f'impl={impl_out} model={m}'

    # ---------------------------------------------------------------- oracle
    def oracle(self, case: Case, out: Any) -> List[Finding]:
        fs: List[Finding] = []

        def bad(key, what):
            fs.append(Finding(f'C03:{key}', what, case, out))
        if _outside(case):
            return fs
        if case.kind == 'used':
            route = case.input['route']
            for which in ('coords', 'baselines'):
                for i, (pts, o) in enumerate(zip(case.input['docs'], out[which])):
                    name = f'{which[:-1] if which == "baselines" else which} object {i} after {route}'
                    if 'ok' not in o:
                        bad('used:unreadable', f'{name}: reading it again raised {o}')
                        continue
                    now, back = o['ok']['now'], o['ok']['from_string']
                    xs, ys = [p[0] for p in pts], [p[1] for p in pts]
                    exp = {'points': pts, 'left': min(xs), 'right': max(xs), 'top': min(ys), 'bottom': max(ys),
                           'width': max(xs) - min(xs), 'height': max(ys) - min(ys), 'x': min(xs), 'y': min(ys),
                           'w': max(xs) - min(xs), 'h': max(ys) - min(ys)}
                    if now['points'] != pts:
                        bad('used:points', f'{name}: points {now["points"]} are no longer the input points {pts}')
                    wrong = [k for k, v in exp.items() if k != 'points' and now[k] != v]
                    if wrong:
                        bad('used:box', f'{name}: {wrong[0]} is {now[wrong[0]]}, the input points have {exp[wrong[0]]}')
                    if back['points'] != now['points'] or any(back[k] != now[k] for k in exp if k != 'points'):
                        bad('used:string-roundtrip', f'{name}: points string {now["point_string"]!r} does not parse back to '
                                                     f'its points {now["points"]} and box')
            if not out.get('same_objects', True):
                bad('used:replaced', f'after {route} an element no longer carries the coordinates object it was given')
            return fs
        if case.kind in ('list', 'roundtrip'):
            pts = case.input['points']
            wellformed = _list_class(pts) == 'wellformed'
            if wellformed:
                if 'ok' not in out:
                    bad('valid-rejected', f'valid point list rejected with {out}')
                    return fs
                o = out['ok']['first'] if case.kind == 'roundtrip' else out['ok']
                xs = [p[0] for p in pts]
                ys = [p[1] for p in pts]
                exp = {'points': pts, 'left': min(xs), 'right': max(xs), 'top': min(ys), 'bottom': max(ys),
                       'width': max(xs) - min(xs), 'height': max(ys) - min(ys), 'x': min(xs), 'y': min(ys),
                       'w': max(xs) - min(xs), 'h': max(ys) - min(ys)}
                for k, v in exp.items():
                    if o[k] != v:
                        bad(f'box:{k}', f'{k} is {o[k]}, expected {v}')
                if case.kind == 'roundtrip':
                    s = out['ok']['second']
                    if s['points'] != pts or any(s[k] != exp[k] for k in exp):
                        bad('string-roundtrip', 'points string does not parse back to the same points and box')
                elif not out.get('baseline_same', True):
                    bad('baseline', 'Baseline differs from Coords on the same points')
                if not out.get('input_same', True):
                    bad('input-list-changed', 'building the coordinates changed the point list that was passed in')
            else:
                # the statement: an empty or non-integer point list is rejected
                malformed = _list_class(pts) == 'malformed'
                if malformed and 'err' not in out:
                    bad('malformed-accepted', 'empty or non-integer point list accepted')
        elif case.kind == 'str':
            s = case.input['s']
            if s == '' and 'err' not in out:
                bad('empty-string-accepted', 'empty points string accepted')
            # the PageXML points string: blank-separated "x,y" pairs.  A pair with a field that
            # Python's int() does not accept is a non-integer point and must be rejected; when all
            # pairs are integers they are exactly the points, in order (strings with other tokens next to
            # pairs are outside the statement, DESIGN §9: not judged, see _str_outside)
            pairs = [t.split(',') for t in s.split(' ') if len(t.split(',')) == 2]
            if pairs:
                try:
                    exp = [[int(a), int(b)] for a, b in pairs]
                except ValueError:
                    exp = None
                if exp is None:
                    if 'err' not in out:
                        bad('nonint-string-accepted', f'points string {s!r} has a pair with a non-integer field '
                                                     f'but was accepted as {out["ok"]["points"]}')
                elif 'ok' not in out:
                    bad('valid-string-rejected', f'points string {s!r} rejected with {out}')
                elif out['ok']['points'] != exp:
                    bad('string-points', f'points string {s!r} parsed as {out["ok"]["points"]}, expected {exp}')
        return fs

    def nontrivial(self, case: Case) -> bool:
        if case.kind == 'used':
            return len(case.input['docs']) >= 2
        if case.kind == 'str':
            return len(case.input['s']) > 3
        return len(case.input['points']) >= 2 or 'malformed' in case.tags

    def shrink_candidates(self, case: Case):
        if case.kind in ('list', 'roundtrip'):
            pts = case.input['points']
            for i in range(len(pts)):
                if len(pts) > 1:
                    yield Case(case.kind, dict(case.input, points=pts[:i] + pts[i + 1:]), case.tags)
            for i, p in enumerate(pts):
                if isinstance(p, list):
                    for j, v in enumerate(p):
                        if isinstance(v, int) and abs(v) > 1:
                            q = list(p)
                            q[j] = v // 2 if v > 0 else -((-v) // 2)
                            yield Case(case.kind, dict(case.input, points=pts[:i] + [q] + pts[i + 1:]), case.tags)
        elif case.kind == 'str':
            s = case.input['s']
            for i in range(len(s)):
                yield Case('str', {'s': s[:i] + s[i + 1:]}, case.tags)
        elif case.kind == 'used':
            docs, forms = case.input['docs'], case.input['forms']
            for i in range(len(docs)):
                if len(docs) > 1:
                    yield Case('used', dict(case.input, docs=docs[:i] + docs[i + 1:], forms=forms[:i] + forms[i + 1:]), case.tags)
            for i, d in enumerate(docs):
                for j in range(len(d)):
                    if len(d) > 1:
                        yield Case('used', dict(case.input, docs=docs[:i] + [d[:j] + d[j + 1:]] + docs[i + 1:]), case.tags)
            for i, f in enumerate(forms):
                if f != 'list':
                    yield Case('used', dict(case.input, forms=forms[:i] + ['list'] + forms[i + 1:]), case.tags)


CHECK = C03()
