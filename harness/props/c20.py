"""C20 — Corpus and document statistics are exact counts that add up."""
from __future__ import annotations

import itertools
import math
import random
import string
from collections import Counter
from fractions import Fraction
from typing import Any, Dict, Iterable, List, Optional

from harness.core import OUTSIDE, Case, Check, Finding, call


# ---------------------------------------------------------------------------------------
# the real code (imported lazily)
# ---------------------------------------------------------------------------------------

def _ts():
    import pagexml.analysis.text_stats as ts
    return ts


def _pdm():
    import pagexml.model.physical_document_model as pdm
    return pdm


def _box(x, y, w, h):
    pdm = _pdm()
    return pdm.Coords([(x, y), (x + w, y), (x + w, y + h), (x, y + h)])


def _py_line(item: Any, form: str, i: int):
    """JSON line item -> the object handed to the analyser"""
    pdm = _pdm()
    if isinstance(item, dict) and 'bad' in item:
        return {'no_text': 1} if item['bad'] == 'dict' else 12345
    f = form
    if form == 'mixed':
        f = ('str', 'dict', 'line')[i % 3]
    if f == 'str':
        return item                      # a str or None
    if f == 'dict':
        return {'text': item}
    if f == 'line':
        return pdm.PageXMLTextLine(text=item)
    raise ValueError(form)


def _counter_pairs(c) -> List[List[Any]]:
    """Counter -> sorted list of [token, count] with positive counts (Counter equality)"""
    return sorted([[k, int(v)] for k, v in c.items() if v > 0])


def _dump_analyser(a) -> Dict[str, Any]:
    rows = {}
    st = a.get_stats()
    cols = [k for k in st if k != 'token_type']
    for i, t in enumerate(st.get('token_type', [])):
        rows[t] = {k: (float(st[k][i]) if k.endswith('frac') else int(st[k][i])) for k in cols}
    return {
        'all': _counter_pairs(a.freq['all']), 'start': _counter_pairs(a.freq['start']),
        'mid': _counter_pairs(a.freq['mid']), 'end': _counter_pairs(a.freq['end']),
        'num_lines': int(a.num_lines), 'stats': {k: int(v) for k, v in a.stats.items()},
        'num_tokens': {k: int(v) for k, v in a.num_tokens().items()},
        'num_types': {k: int(v) for k, v in a.num_types().items()},
        'rows': rows,
    }


def _make(kind: str, lines, wbc: str, ic: bool):
    ts = _ts()
    cls = ts.LineWordAnalyser if kind == 'word' else ts.LineCharAnalyser
    return cls(lines, word_break_chars=wbc, ignorecase=ic)


def _tokens(kind: str, text: str, wbc: str) -> List[str]:
    """the tokeniser the analyser is parametric in: characters, or the real get_line_words"""
    if kind == 'char':
        return list(text)
    import pagexml.helper.text_helper as th
    return list(th.get_line_words(text, word_break_chars=set(wbc)))


def _model_line(kind: str, item: Any, wbc: str):
    if item is None:
        return None
    if isinstance(item, dict):
        return item['bad']
    return {'empty': len(item) == 0, 'toks': _tokens(kind, item, wbc), 'ltoks': _tokens(kind, item.lower(), wbc)}


def _flat(parts):
    return [x for p in parts for x in p]


def _expected_counts(kind: str, lines, wbc: str, ic: bool):
    """the statement, token by token, for the tokeniser the analyser is built on: the four counters and the number
    of non-empty lines of a well-formed corpus (JSON form: str / None items)"""
    e = {'all': Counter(), 'start': Counter(), 'mid': Counter(), 'end': Counter()}
    n = 0
    for t in lines:
        if t is None or t == '':
            continue
        n += 1
        toks = _tokens(kind, t.lower() if ic else t, wbc)
        e['all'].update(toks)
        if len(toks) >= 1:
            e['start'].update([toks[0]])
        if len(toks) >= 2 or (len(toks) == 1 and kind == 'word'):
            e['end'].update([toks[-1]])
        if len(toks) >= 3:
            e['mid'].update(toks[1:-1])
    return e, n


def _snap_lines(objs) -> List[Any]:
    """deep snapshot of the objects handed to an analyser (they must not be changed by being analysed)"""
    out = []
    for o in objs:
        if o is None or isinstance(o, (str, int)):
            out.append(o)
        elif isinstance(o, dict):
            out.append({'dict': sorted((str(k), repr(v)) for k, v in o.items())})
        else:
            out.append({'line': [o.id, o.text, repr(o.coords.points if o.coords else None), sorted(o.metadata or {})]})
    return out


def _feed(a, kind: str, lines):
    """the analysing method behind the constructors (also reached through make_line_analyser)"""
    (a.analyse_line_words if kind == 'word' else a.analyse_line_chars)(lines)
    return a


def _full_items(c) -> List[List[Any]]:
    """a Counter with every entry it holds (zero / negative ones included): to see that a call left it alone"""
    return sorted([[k, (int(v) if float(v).is_integer() else float(v))] for k, v in c.items()])


def _keyness_view(k) -> Dict[str, Dict[str, float]]:
    return {p: {tok: float(s) for tok, s in k[p].items()} for p in ('more', 'less')}


def _session_plan(inp):
    """a `session` case: per analyser the counters the statement demands, per step what is asked of the model
    (None: the step has no answer to compare — an empty counter lies outside "pairs of non-empty counters")"""
    exp = [_expected_counts(a['kind'], a['lines'], a['wbc'], a['ic'])[0] for a in inp['analysers']]
    plan = []
    for op in inp['ops']:
        if op[0] == 'keyness':
            t, r = exp[op[1]][op[3]], exp[op[2]][op[3]]
            plan.append(('keyness', _counter_pairs(t), _counter_pairs(r)) if t and r else None)
        elif op[0] == 'complement':
            plan.append(('complement', op[1], op[2]) if exp[op[1]]['all'] else None)
        else:
            plan.append(None)
    return exp, plan


# ---------------------------------------------------------------------------------------
# documents
# ---------------------------------------------------------------------------------------

def _build_doc(d: Dict[str, Any]):
    """JSON document -> pdm object. regions: list of list of {text, w}"""
    pdm = _pdm()
    regions = []
    n = 0
    for ri, lines in enumerate(d['regions']):
        ls = []
        for li, l in enumerate(lines):
            n += 1
            ls.append(pdm.PageXMLTextLine(doc_id=f"{d['id']}-l{n}", coords=_box(10, 30 * n, l['w'], 20), text=l['text']))
        regions.append(pdm.PageXMLTextRegion(doc_id=f"{d['id']}-r{ri}", coords=_box(0, 0, 4000, 30 * n + 60) if ls else None,
                                             lines=ls))
    coords = _box(0, 0, d['size'][0], d['size'][1]) if d.get('size') else None
    k = d['kind']
    if k == 'region':
        # a region document holds its lines directly
        ls = [l for r in regions for l in r.lines]
        return pdm.PageXMLTextRegion(doc_id=d['id'], coords=coords, lines=ls)
    if k == 'scan':
        return pdm.PageXMLScan(doc_id=d['id'], coords=coords, text_regions=regions)
    if k == 'page':
        half = len(regions) // 2
        cols = [pdm.PageXMLColumn(doc_id=f"{d['id']}-c0", coords=_box(0, 0, 4000, 4000), text_regions=regions[:half])] if half else []
        return pdm.PageXMLPage(doc_id=d['id'], coords=coords, columns=cols, text_regions=regions[half:])
    raise ValueError(k)


def _doc_lines(d: Dict[str, Any]) -> List[Dict[str, Any]]:
    return [l for r in d['regions'] for l in r]


PUNCS = set(string.punctuation)


def _word_json(w: str, stop) -> Dict[str, Any]:
    return {'len': len(w), 'alpha': w.isalpha(), 'digit': w.isdigit(), 'title': w.istitle(),
            'punct': all(j in PUNCS for j in w), 'stop': (w in stop) if stop is not None else False}


def _doc_words_of_text(text: str, use_re: bool) -> List[str]:
    """the words `get_doc_words` takes from one line: the real function on a one-line region"""
    ts, pdm = _ts(), _pdm()
    r = pdm.PageXMLTextRegion(lines=[pdm.PageXMLTextLine(text=text)])
    return list(ts.get_doc_words(r, use_re_word_boundaries=use_re))


def _model_doc(d: Dict[str, Any], stats: Dict[str, int], stop, use_re: bool) -> Dict[str, Any]:
    lines = []
    for l in _doc_lines(d):
        t = l['text']
        if t is None:
            text = None
        else:
            text = {'empty': t == '',
                    'doc': [_word_json(w, stop) for w in _doc_words_of_text(t, use_re)],
                    # the split of get_words_per_line (inline in the real function)
                    'wpl': [_word_json(w, stop) for w in t.split(' ') if w != ' ' and w != '']}
        lines.append({'text': text, 'width': l['w']})
    from pagexml.analysis.stats import DEFAULT_ELEMENTS
    return {'id': d['id'], 'size': d.get('size'), 'elems': [stats.get(f) for f in DEFAULT_ELEMENTS], 'lines': lines}


_CONSTS: Dict[str, Any] = {}


def _consts() -> Dict[str, Any]:
    """the defaults / literals of the source as the translator reads them with `ast` from the working tree
    (harness/props/c20_translate.py) — never a hand-written copy; {} when the translator does not recognise
    the source (the run then reports the translator as a broken obligation)"""
    if not _CONSTS:
        from harness.props import c20_translate
        try:
            _CONSTS.update(c20_translate.constants())
        except Exception as e:         # TranslateError: reported by the runner through translate()
            _CONSTS['error'] = str(e)
    return _CONSTS


def _bin_sizes() -> List[int]:
    """the bin sizes with which get_doc_stats reaches _init_doc_stats and get_word_cat_stats (read from the
    source; if that is not possible, the defaults the two functions declare)"""
    c = _consts()
    if 'initBinSize' in c and 'wordCatBinSize' in c:
        return [c['initBinSize'], c['wordCatBinSize']]
    import inspect
    import pagexml.analysis.stats as st
    return [inspect.signature(st._init_doc_stats).parameters['word_length_bin_size'].default,
            inspect.signature(_ts().get_word_cat_stats).parameters['word_length_bin_size'].default]


def _doc_kwargs(inp) -> Dict[str, Any]:
    """the keyword arguments of the call: what the case does not specify is NOT passed (the default of the real
    function applies; the model takes the same default from Generated/C20.lean)"""
    kw: Dict[str, Any] = {'line_width_boundary_points': inp.get('bps'), 'stop_words': inp.get('stop'),
                          'use_re_word_boundaries': inp.get('re', False)}
    for key, arg in (('max_len', 'max_word_length'), ('lbw', 'line_bin_width'), ('max_bin', 'max_bin')):
        if key in inp:
            kw[arg] = inp[key]
    return kw


def _in_statement(inp) -> bool:
    """the configurations of the statement: the call `get_doc_stats(docs)` with its defaults always; an explicit
    max_word_length when it is a positive multiple of the bin size the source uses (other values make the bins of
    get_word_cat_stats and the columns of _init_doc_stats differ: KeyError, model and code agree); not an
    explicit line_bin_width of 0 without boundary points (range() raises ValueError)"""
    if inp.get('bps') is None and inp.get('lbw') == 0:
        return False
    if 'max_len' not in inp:
        return True
    ml = inp['max_len']
    return ml > 0 and all(isinstance(b, int) and b > 0 and ml % b == 0 for b in _bin_sizes())


def _canon_table(t) -> Dict[str, List[Any]]:
    out = {}
    for k, v in t.items():
        out[k] = [(x if (x is None or isinstance(x, str)) else int(x)) for x in v]
    return out


def _doc_table(docs, inp) -> Dict[str, List[Any]]:
    import pagexml.analysis.stats as st
    return _canon_table(st.get_doc_stats(docs, **_doc_kwargs(inp)))


def _snap_doc(d) -> List[Any]:
    """what get_doc_stats reads of a document: id, size, its lines (id, text, width) in order"""
    return [d.id, (d.coords.width, d.coords.height) if d.coords else None,
            [[l.id, l.text, l.coords.w if l.coords else None] for l in d.get_lines()]]


# ---------------------------------------------------------------------------------------
# keyness: the real-valued formula, computed independently of numpy
# ---------------------------------------------------------------------------------------

def _small() -> float:
    """`_SMALL` of text_stats.py, read from the source with `ast` (no import of the value, no copy)"""
    c = _consts()
    if 'smallFloat' in c:
        return c['smallFloat']
    return float(_ts()._SMALL)


def _g2(a: int, b: int, c: int, d: int) -> float:
    SMALL = _small()
    n = a + b + c + d
    cells = [(a, Fraction((a + b) * (a + c), n)), (b, Fraction((a + b) * (b + d), n)),
             (c, Fraction((c + d) * (a + c), n)), (d, Fraction((c + d) * (b + d), n))]
    return 2 * math.fsum(o * math.log((o + SMALL) / (float(e) + SMALL)) for o, e in cells)


def _close(x: float, y: float, tol: float = 1e-9) -> bool:
    return abs(x - y) <= tol * max(1.0, abs(x), abs(y))


def _keyness_cmp(where: str, io: Dict[str, Dict[str, float]], m, tie, score: bool) -> Optional[str]:
    """one compute_keyness result against the model's [token, table, more] list.

    C20: "Keyness puts every vocabulary token in 'more' when its relative frequency in the target exceeds that in
    the reference and in 'less' when it is lower, never in both" — the statement is silent about a token whose two
    relative frequencies are EXACTLY equal.  `tie(tok)` is that condition, computed by the caller with exact integers
    from the counters of the case (t[w] * ref_total == r[w] * target_total, the cross-multiplication of
    C20_more_iff).  For such a token (and for no other) either side is accepted; it must still be in exactly one
    of the two counters, and its score is compared as for every other token.  Everything else is exact."""
    mm = {tok: (tbl, more) for tok, tbl, more in m}
    if set(mm) != set(io['more']) | set(io['less']):
        return f'{where}: vocabulary impl={sorted(set(io["more"]) | set(io["less"]))} model={sorted(mm)}'
    for tok, (tbl, more) in mm.items():
        in_more, in_less = tok in io['more'], tok in io['less']
        if in_more == in_less:      # (neither is excluded by the vocabulary test above)
            return f'{where}: {tok} is in both more and less'
        a, b, c, d = tbl
        tied = tie(tok)
        if tied != (a * d == b * c):
            return f'{where}: {tok}: the model table {tbl} and the counters of the case disagree on equal relative frequency'
        if in_more != more and not tied:
            return f'{where}: direction of {tok}: impl more={in_more} model more={more} table={tbl}'
        if score:
            sc = io['more' if in_more else 'less'][tok]
            if sum(tbl) > 0 and not _close(sc, _g2(*tbl)):
                return f'{where}: score of {tok}: impl={sc!r} formula on the model table {tbl} = {_g2(*tbl)!r}'
    return None


def _width_tie_ranges(w: int, bps: List[int], ranges: List[str]):
    """a width lying EXACTLY on a boundary point: the two ranges that may own it (the statement — C20 "line-width tables
    are partitions", C19 "exactly one range defined by the boundary points" — does not say which): the first range
    whose end is >= w (reading (prev, p]) and the first whose end is > w (reading [prev, p)); for an increasing list
    these are the two ranges meeting at the point.  None for every other width (same rule as harness/props/c19.py)."""
    if w not in bps or len(ranges) != len(bps) + 1:
        return None
    closed_right = next((j for j, p in enumerate(bps) if p >= w), len(bps))
    closed_left = next((j for j, p in enumerate(bps) if p > w), len(bps))
    return {ranges[closed_right], ranges[closed_left]}


def _width_counts_reachable(ws: List[int], bps: List[int], ranges: List[str], model_cats: List[str]):
    """the counters the model's counter turns into when every line whose width is exactly on a boundary point is put
    into either of its two candidate ranges; all other lines stay where the model has them, every range keeps its
    (possibly zero) entry"""
    base = Counter({r: 0 for r in ranges})
    tied = []
    for w, c in zip(ws, model_cats):
        t = _width_tie_ranges(w, bps, ranges)
        if t is not None and c in t and len(t) == 2:
            tied.append(sorted(t))
        else:
            base[c] += 1
    states = {frozenset(base.items())}
    for opts in tied:
        nxt = set()
        for st in states:
            for lab in opts:
                d = dict(st)
                d[lab] = d.get(lab, 0) + 1
                nxt.add(frozenset(d.items()))
        states = nxt
    return states


def _width_cmp(ws, bps, i_ranges, i_cats, i_stats, m_ranges, m_cats, m_stats) -> Optional[str]:
    """line-width outcome: range labels exact; per-line label exact except for a width on a boundary point (either
    candidate range); the counter (a mapping) exact in its keys, zero entries included, and in every count a tied
    line cannot have moved.  i_cats may be None (no per-line labels observed)."""
    if i_ranges is not None and list(i_ranges) != list(m_ranges):
        return f'ranges: impl={i_ranges} model={m_ranges}'
    if len(m_cats) != len(ws):
        return f'model categorised {len(m_cats)} of {len(ws)} widths'
    if i_cats is not None:
        if len(i_cats) != len(m_cats):
            return f'cats: impl={i_cats} model={m_cats}'
        for w, a, b in zip(ws, i_cats, m_cats):
            if a != b:
                t = _width_tie_ranges(w, bps, m_ranges)
                if t is None or a not in t or b not in t:
                    return f'cats: width {w} (boundary points {bps}): impl={a} model={b}'
    di, dm = {a: b for a, b in i_stats}, {a: b for a, b in m_stats}
    if len(di) != len(i_stats) or len(dm) != len(m_stats) or set(di) != set(dm):
        return f'stats: keys differ: impl={i_stats} model={m_stats}'
    reach = _width_counts_reachable(ws, bps, m_ranges, m_cats)
    if frozenset(dm.items()) not in reach:
        return f'stats: model counter {m_stats} does not count the model categories {m_cats}'
    if frozenset(di.items()) not in reach:
        return (f'stats: impl={i_stats} model={m_stats}: not the model counter with lines whose width is on a boundary '
                f'point moved between the two ranges meeting there (widths {ws}, boundary points {bps})')
    return None


def _doc_width_inputs(inp):
    """(boundary points, per document the widths of its lines with text) of a docstats case, or None when the boundary
    points the call uses cannot be told from the case (the line-width columns are then compared exactly)"""
    bps = inp.get('bps')
    if bps is None:
        c = _consts()
        if 'defaultLineBinWidth' not in c or 'defaultMaxBin' not in c:
            return None
        lbw, mb = inp.get('lbw', c['defaultLineBinWidth']), inp.get('max_bin', c['defaultMaxBin'])
        if lbw == 0:
            return None
        bps = list(range(lbw, mb, lbw))
    return bps, [[l['w'] for l in _doc_lines(d) if l['text'] is not None] for d in inp['docs']]


# ---------------------------------------------------------------------------------------
# generators
# ---------------------------------------------------------------------------------------

WORDS = ['a', 'b', 'A', 'Ab', 'ab', 'de', 'De', 'x', '12', 'c-', '-', 'İ', 'ß', 'Zo', ',', 'e.', 'f=', '=g']
SEED_LINES = [None, '', ' ', '   ', 'a', 'A', 'a b', 'A a', 'a b c', 'a a a', 'b a b a', 'ab-', 'ab -', 'ab--', 'a  b',
              ' a', 'a ', 'A b A', '-', 'a-b', 'İx', 'x, y.', '12 a', 'a\tb', 'De de DE', 'a=', 'a =', 'a-=']
ALPH = 'abAB -=.,1İ\t'


def _rand_text(rng: random.Random) -> Optional[str]:
    r = rng.random()
    if r < 0.08:
        return None
    if r < 0.16:
        return ''
    if r < 0.22:
        return ' ' * rng.randint(1, 3)
    if r < 0.5:
        return rng.choice(SEED_LINES[4:])
    if r < 0.85:
        n = rng.choice([1, 1, 2, 2, 3, 4, 6])
        sep = rng.choice([' ', ' ', ' ', '  ', ', '])
        return sep.join(rng.choice(WORDS) for _ in range(n))
    return ''.join(rng.choice(ALPH) for _ in range(rng.randint(1, 6)))


def _rand_corpus(rng: random.Random, n: int) -> List[Any]:
    return [_rand_text(rng) for _ in range(n)]


def _rand_cfg(rng: random.Random) -> Dict[str, Any]:
    return {'kind': rng.choice(['word', 'char']), 'ic': rng.random() < 0.5,
            'wbc': rng.choice(['-', '-', '-=', '', '=', '-=:']),
            'form': rng.choice(['str', 'str', 'dict', 'line', 'mixed'])}


def _rand_counter(rng: random.Random, toks: List[str], big: bool) -> List[List[Any]]:
    ks = rng.sample(toks, rng.randint(1, len(toks)))
    hi = rng.choice([3, 10, 1000, 100000]) if big else rng.choice([2, 3, 5])
    return [[k, rng.randint(1, hi)] for k in ks]


def _gen_bounds():
    """(default max_word_length, bin size) of the source as the translator reads them: the generator puts words right
    at these boundaries (30 / 5 only if the source is not recognised)"""
    c = _consts()
    return c.get('defaultMaxWordLength', 30), (c.get('wordCatBinSize') or 5)


def _rand_doc(rng: random.Random, i: int) -> Dict[str, Any]:
    ml, b = _gen_bounds()
    kind = rng.choice(['scan', 'scan', 'region', 'page'])
    nreg = rng.choice([0, 1, 1, 2, 3])
    regions = []
    for _ in range(nreg):
        ls = []
        for _ in range(rng.choice([0, 1, 2, 3, 5])):
            r = rng.random()
            if r < 0.06:
                text = ' '.join(rng.choice(WORDS) for _ in range(rng.choice([99, 100, 101, 102, 130])))
            elif r < 0.12:
                text = rng.choice(['x' * ml, 'y' * (ml + 1), 'Supercalifragilisticexpialidocious' * 2, 'z' * b, 'w' * (b + 1)])
            elif r < 0.3:
                text = ' '.join(rng.choice(WORDS) for _ in range(rng.choice([4, 5, 6, 9, 10, 15, 16, 25, 26, 42, 43, 70, 71])))
            else:
                text = _rand_text(rng)
            w = rng.choice([0, 1, 299, 300, 301, 599, 600, 2699, 2700, 2701, 5000, rng.randint(0, 3200)])
            ls.append({'text': text, 'w': w})
        regions.append(ls)
    size = None if rng.random() < 0.15 else [rng.randint(1, 4000), rng.randint(1, 6000)]
    return {'id': f'doc{i}', 'kind': kind, 'size': size, 'regions': regions}


class C20(Check):
    pid = 'C20'
    props_module = 'PagexmlModel.Props.C20'
    anchors = {
        'pagexml/analysis/text_stats.py': [
            'get_line_text', 'LineAnalyser.__add__', 'LineAnalyser.num_types', 'LineAnalyser.num_tokens',
            'LineAnalyser.set_stats', 'LineAnalyser._iter_lines', 'LineAnalyser.analyse_line_chars',
            'LineAnalyser.analyse_line_words', 'LineAnalyser.get_stats', 'LineCharAnalyser.__init__',
            'LineWordAnalyser.__init__', 'make_line_analyser', 'merge_analysers', 'compute_expected',
            'get_observed', 'compute_log_likelihood', 'get_keyness_vocab', 'compute_keyness',
            'compute_complement_keyness', 'get_words_per_line', 'get_doc_words', 'get_word_cat_stats'],
        'pagexml/analysis/stats.py': ['derive_boundary_points', '_init_doc_stats', 'get_doc_stats'],
        'pagexml/analysis/layout_stats.py': ['categorise_line_width', 'get_boundary_width_ranges',
                                             'get_line_width_stats'],
        'pagexml/helper/text_helper.py': ['get_line_words', 'split_line_words'],
    }
    level_note = ''          # filled in below (after the class) to keep the text in one place
    assumptions: List[str] = []
    nontrivial_rule = ('distinct inputs; non-trivial = a corpus with at least two non-empty lines or a malformed element, '
                       'a split into parts, a document list with at least one line, a counter pair with two tokens')

    # ---------------------------------------------------------------- translate
    def translate(self) -> Dict[str, str]:
        from harness.props import c20_translate
        return {'PagexmlModel/Generated/C20.lean': c20_translate.generate()}

    # ---------------------------------------------------------------- generation
    def cases(self, rng: random.Random, tier: str) -> Iterable[Case]:
        out: List[Case] = []
        quick = tier == 'quick'
        # -- corpus of past failures -------------------------------------------------------
        for kind in ('word', 'char'):
            for lines in (['a b'], ['a'], ['a', 'b'], [], [None, ''], ['   '], ['a b', 'c'], ['x  y']):
                out.append(Case('analyse', {'kind': kind, 'ic': False, 'wbc': '-', 'form': 'str', 'lines': lines}, ['corpus']))
            out.append(Case('split', {'kind': kind, 'ic': False, 'wbc': '-', 'form': 'str',
                                      'parts': [['a b c', 'd'], ['a', '   ', None, 'e f']]}, ['corpus']))
        out.append(Case('docstats', {'docs': [{'id': 'd0', 'kind': 'scan', 'size': [500, 500],
                                               'regions': [[{'text': 'x  y', 'w': 100}]]}]}, ['corpus']))
        out.append(Case('docstats', {'docs': [{'id': 'd0', 'kind': 'scan', 'size': [500, 500],
                                               'regions': [[{'text': 'x  y', 'w': 100}]]}], 're': True}, ['corpus']))
        out.append(Case('keyness', {'target': [['a', 2], ['b', 1]], 'ref': [['a', 1], ['b', 2], ['c', 1]]}, ['corpus']))
        out.append(Case('keyness', {'target': [['a', 1], ['b', 1]], 'ref': [['a', 2], ['b', 2]]}, ['corpus', 'equal-freq']))
        for bad in ('dict', 'type'):
            out.append(Case('analyse', {'kind': 'word', 'ic': False, 'wbc': '-', 'form': 'str',
                                        'lines': ['a b', {'bad': bad}, 'c']}, ['corpus', 'malformed']))
        # -- exhaustive: every corpus of <= k seed lines, every configuration ------------------
        small = [None, '', '   ', 'a', 'A b', 'a b a', 'ab-'] if quick else SEED_LINES[:12]
        kmax = 2 if quick else 3
        for n in range(0, kmax + 1):
            for combo in itertools.product(small, repeat=n):
                for kind in ('word', 'char'):
                    for ic in (False, True):
                        out.append(Case('analyse', {'kind': kind, 'ic': ic, 'wbc': '-', 'form': 'str', 'lines': list(combo)},
                                        ['exhaustive']))
        # -- exhaustive splits: every two-way split of corpora of <= 6 lines --------------------
        n_split_corpora = 80 if quick else 600
        for _ in range(n_split_corpora):
            cfg = _rand_cfg(rng)
            corpus = _rand_corpus(rng, rng.randint(0, 6))
            for cut in range(len(corpus) + 1):
                out.append(Case('split', dict(cfg, parts=[corpus[:cut], corpus[cut:]]), ['all-two-way-splits']))
        # -- random corpora ---------------------------------------------------------------------
        for _ in range(800 if quick else 6000):
            cfg = _rand_cfg(rng)
            n = rng.choice([0, 1, 2, 3, 5, 8, 20]) if rng.random() < 0.5 else rng.randint(0, 6)
            out.append(Case('analyse', dict(cfg, lines=_rand_corpus(rng, n)), ['random']))
        for _ in range(300 if quick else 2500):
            cfg = _rand_cfg(rng)
            k = rng.choice([1, 2, 3, 4])
            parts = [_rand_corpus(rng, rng.randint(0, 5)) for _ in range(k)]
            out.append(Case('split', dict(cfg, parts=parts), ['random', f'parts={k}']))
        for _ in range(60 if quick else 400):
            cfg = _rand_cfg(rng)
            lines = _rand_corpus(rng, rng.randint(1, 5))
            lines.insert(rng.randrange(len(lines) + 1), {'bad': rng.choice(['dict', 'type'])})
            out.append(Case('analyse', dict(cfg, lines=lines), ['random', 'malformed']))
        # -- keyness ----------------------------------------------------------------------------
        toks = ['a', 'b', 'c', 'd', 'e']
        if not quick:
            # exhaustive: all pairs of counters over two tokens with counts 0..3 (non-empty)
            for ta, tb, ra, rb in itertools.product(range(4), repeat=4):
                if ta + tb > 0 and ra + rb > 0:
                    out.append(Case('keyness', {'target': [[k, v] for k, v in (('a', ta), ('b', tb)) if v],
                                                'ref': [[k, v] for k, v in (('a', ra), ('b', rb)) if v]}, ['exhaustive']))
        for _ in range(600 if quick else 5000):
            big = rng.random() < 0.4
            inp = {'target': _rand_counter(rng, toks, big), 'ref': _rand_counter(rng, toks, big)}
            if rng.random() < 0.15:      # proportional counters: equal relative frequencies
                m = rng.randint(1, 5)
                inp['ref'] = [[k, v * m] for k, v in inp['target']]
            if rng.random() < 0.1:
                inp['vocab'] = rng.sample(toks + ['zz'], rng.randint(1, 4))
            out.append(Case('keyness', inp, ['random'] + (['big'] if big else [])))
        # -- counters of clearly different totals (a small corpus against a large one, both ways round): the order of
        #    the raw counts and the order of the relative frequencies disagree for many tokens
        for _ in range(200 if quick else 1500):
            ks = rng.sample(toks, rng.randint(2, len(toks)))
            small_c = [[k, rng.randint(1, 5)] for k in rng.sample(ks, rng.randint(1, len(ks)))]
            factor = rng.choice([7, 20, 60, 400])
            large_c = [[k, rng.randint(1, 9) * factor] for k in rng.sample(ks, rng.randint(1, len(ks)))]
            inp = {'target': small_c, 'ref': large_c} if rng.random() < 0.5 else {'target': large_c, 'ref': small_c}
            out.append(Case('keyness', inp, ['random', 'unequal-totals']))
        # -- several analysers in one process (different corpora, both kinds, both entry points); each one is read
        #    right after it was built and again after the others were built and used
        out.append(Case('session', {'analysers': [
            {'kind': 'word', 'ic': False, 'wbc': '-', 'form': 'str', 'route': 'ctor', 'lines': ['a b c', 'd', '', None, 'e f']},
            {'kind': 'char', 'ic': False, 'wbc': '-', 'form': 'str', 'route': 'ctor', 'lines': ['ab', 'c']},
            {'kind': 'word', 'ic': True, 'wbc': '-', 'form': 'dict', 'route': 'make', 'lines': ['A a']}],
            'ops': [['keyness', 0, 2, 'all'], ['complement', 0, 'start'], ['empty', 'word'], ['get_stats', 1]]}, ['corpus']))
        for _ in range(150 if quick else 1500):
            n = rng.choice([2, 2, 3, 4])
            ans = [dict(_rand_cfg(rng), route=rng.choice(['ctor', 'make']),
                        lines=_rand_corpus(rng, rng.choice([0, 1, 2, 3, 5, 8]))) for _ in range(n)]
            ops = []
            for _ in range(rng.randint(0, 4)):
                r = rng.random()
                if r < 0.4:
                    i, j = rng.randrange(n), rng.randrange(n)
                    ops.append(['keyness', i, j, rng.choice(['all', 'all', 'start', 'mid', 'end'])])
                elif r < 0.6:
                    ops.append(['complement', rng.randrange(n), rng.choice(['start', 'mid', 'end'])])
                elif r < 0.8:
                    ops.append(['empty', rng.choice(['word', 'char'])])
                else:
                    ops.append(['get_stats', rng.randrange(n)])
            out.append(Case('session', {'analysers': ans, 'ops': ops}, ['random', 'several-analysers']))
        for _ in range(150 if quick else 1000):
            cfg = _rand_cfg(rng)
            out.append(Case('complement', dict(cfg, lines=_rand_corpus(rng, rng.randint(1, 8)),
                                               counter=rng.choice(['start', 'mid', 'end', 'all'])), ['random']))
        # -- word statistics, line widths --------------------------------------------------------
        for _ in range(250 if quick else 2500):
            ws = []
            for _ in range(rng.randint(0, 12)):
                r = rng.random()
                if r < 0.6:
                    ws.append(rng.choice(WORDS))
                elif r < 0.9:
                    ws.append(rng.choice('xyzXY1.') * rng.choice([1, 4, 5, 6, 10, 11, 29, 30, 31, 40]))
                else:
                    ws.append(rng.choice(['Title', 'UPPER', 'lower', 'Mixed Case', "O'Neil", '3rd']))
            max_len, size = rng.choice([(30, 5), (30, 5), (30, 5), (10, 5), (7, 5), (12, 4), (5, 5), (6, 7), (1, 1), (0, 5)])
            stop = rng.choice([None, ['a', 'de'], []])
            out.append(Case('wordcat', {'words': ws, 'stop': stop, 'max_len': max_len, 'size': size}, ['random']))
        for _ in range(200 if quick else 2000):
            k = rng.randint(0, 5)
            if rng.random() < 0.6:
                bps = sorted(rng.sample(range(0, 1000, 50), k))
            else:
                bps = [rng.choice([0, 50, 100, 100, 300, 700]) for _ in range(k)]   # unsorted, repeated
            widths = [rng.choice([0, 49, 50, 51, 99, 100, 101, 300, 699, 700, 701, 5000, rng.randint(0, 1200)])
                      for _ in range(rng.randint(0, 8))]
            out.append(Case('linewidth', {'widths': widths, 'bps': bps}, ['random']))
        # -- document tables ----------------------------------------------------------------------
        for i in range(250 if quick else 2500):
            n = rng.choice([0, 1, 1, 2, 3, 4])
            docs = [_rand_doc(rng, j) for j in range(n)]
            inp: Dict[str, Any] = {'docs': docs}
            r = rng.random()
            if r < 0.25:
                inp['bps'] = sorted(rng.sample(range(50, 3500, 50), rng.randint(0, 5)))
            if rng.random() < 0.3:
                inp['stop'] = rng.sample(WORDS, 3)
            if rng.random() < 0.2:
                inp['max_len'] = rng.choice([5, 10, 20, 30, 35])
            if rng.random() < 0.2:
                inp['re'] = True
            out.append(Case('docstats', inp, ['random'] + (['re'] if inp.get('re') else [])))
        # -- defaults left to the real code (model: Generated/C20.lean), line_bin_width / max_bin passed or not ----
        out.append(Case('docstats', {'docs': [_rand_doc(rng, 0)]}, ['defaults']))
        one = {'id': 'd0', 'kind': 'scan', 'size': [500, 500], 'regions': [[{'text': 'ab cd', 'w': 260}, {'text': 'x', 'w': 3100}]]}
        for extra in ({'lbw': 0}, {'lbw': 250, 'max_bin': 1000}, {'lbw': 0, 'bps': [100]}, {'max_bin': 0}, {'lbw': -3},
                      {'max_len': 0}, {'max_len': 3}):
            out.append(Case('docstats', dict({'docs': [one]}, **extra), ['corpus', 'defaults']))
        for i in range(60 if quick else 600):
            docs = [_rand_doc(rng, j) for j in range(rng.choice([1, 1, 2, 3]))]
            inp = {'docs': docs}
            r = rng.random()
            if r < 0.35:
                inp['lbw'] = rng.choice([100, 250, 300, 301, 500, 1000, 2999, 3000, 5000, 1, 700, 0, -100])
            if rng.random() < 0.3:
                inp['max_bin'] = rng.choice([0, 299, 300, 301, 600, 1000, 3000, 3001, 6000, -5])
            if rng.random() < 0.08:
                inp['bps'] = sorted(rng.sample(range(50, 3500, 50), rng.randint(0, 4)))
            if rng.random() < 0.35:
                inp['max_len'] = rng.choice([5, 10, 15, 20, 25, 30, 35, 40, 50, 60, 7, 12, 1, 0])
            if rng.random() < 0.2:
                inp['stop'] = rng.sample(WORDS, 2)
            out.append(Case('docstats', inp, ['random', 'defaults']))
        for _ in range(60 if quick else 600):
            ws = [rng.choice(WORDS + ['x' * n for n in (4, 5, 6, 9, 10, 11, 24, 25, 26, 29, 30, 31, 35, 40)])
                  for _ in range(rng.randint(0, 10))]
            inp = {'words': ws, 'stop': rng.choice([None, ['a'], []])}
            r = rng.random()
            if r < 0.3:
                inp['max_len'] = rng.choice([10, 25, 30, 31, 12])
            elif r < 0.5:
                inp['size'] = rng.choice([1, 3, 5, 10, 30, 40])
            out.append(Case('wordcat', inp, ['random', 'defaults']))
        for c in out:
            if self.outside(c) and OUTSIDE not in c.tags:
                c.tags.append(OUTSIDE)
        return out

    @staticmethod
    def outside(case: Case) -> bool:
        """inputs outside the quantifier of C20 ("all corpora (lists of strings, dictionaries or lines, with missing and
        empty texts …)", "all lists of documents"): (1) a corpus with an element that is no string / None, no dictionary
        with a 'text' entry and no line (the malformed stream: which exception the analyser raises there is mirrored by
        the model but is no part of the statement); (2) get_doc_stats called with arguments outside the configurations
        of the statement (_in_statement: a max_word_length that is no positive multiple of the bin size -> KeyError,
        line_bin_width 0 without boundary points -> ValueError).  Model and code are still compared on them, a
        difference is recorded in the evidence only (core.OUTSIDE); the oracle does not judge them."""
        inp = case.input
        if case.kind in ('analyse', 'complement'):
            return any(isinstance(x, dict) for x in inp['lines'])
        if case.kind == 'split':
            return any(isinstance(x, dict) for p in inp['parts'] for x in p)
        if case.kind == 'docstats':
            return not _in_statement(inp)
        return False

    # ---------------------------------------------------------------- implementation
    def impl(self, case: Case) -> Any:
        inp = case.input
        ts = _ts()
        if case.kind == 'analyse':
            def f():
                lines = [_py_line(x, inp['form'], i) for i, x in enumerate(inp['lines'])]
                snap = _snap_lines(lines)
                a = _make(inp['kind'], lines, inp['wbc'], inp['ic'])
                d = _dump_analyser(a)
                # history (the model is pure: the same answer holds for all of these): the SAME objects analysed a
                # second time through the other entry point (make_line_analyser + analyse_line_*), an analyser of the
                # other kind built on them, then the first analyser read again; the objects must not have changed
                b = _feed(ts.make_line_analyser(inp['kind'], inp['wbc'], inp['ic']), inp['kind'], lines)
                okind = 'char' if inp['kind'] == 'word' else 'word'
                c = _make(okind, lines, inp['wbc'], inp['ic'])
                hist = {'made': _dump_analyser(b), 'other': _dump_analyser(c)}
                a.get_stats()
                hist['again'] = _dump_analyser(a)
                hist['made_again'] = _dump_analyser(b)
                hist['inputs_unchanged'] = _snap_lines(lines) == snap
                d['hist'] = hist
                return d
            return call(f)
        if case.kind == 'split':
            def f():
                objs = [[_py_line(x, inp['form'], i) for i, x in enumerate(p)] for p in inp['parts']]
                snap = _snap_lines(_flat(objs))
                ans = [_make(inp['kind'], p, inp['wbc'], inp['ic']) for p in objs]
                whole = _make(inp['kind'], _flat(objs), inp['wbc'], inp['ic'])
                # several analysers live in this process from here on: every one of them is read AFTER the others
                # were built, and again after merging / adding / feeding (each must still report its own corpus)
                okind = 'char' if inp['kind'] == 'word' else 'word'
                other = _make(okind, objs[-1], inp['wbc'], inp['ic'])
                out = {'parts': [_dump_analyser(a) for a in ans], 'whole': _dump_analyser(whole),
                       'other': _dump_analyser(other)}
                merged = ts.merge_analysers(ans)
                out['merge'] = _dump_analyser(merged)
                added = None
                if len(ans) >= 2:
                    added = ans[0] + ans[1]
                    out['add'] = _dump_analyser(added)
                    out['whole2'] = _dump_analyser(_make(inp['kind'], objs[0] + objs[1], inp['wbc'], inp['ic']))
                    # adding / merging must not change its operands: use them again afterwards
                    out['add_again'] = _dump_analyser(ans[0] + ans[1])
                    # an operand on both sides, and a result used as an operand
                    out['add_self'] = _dump_analyser(ans[0] + ans[0])
                    out['add_chain'] = _dump_analyser(added + ans[-1]) if len(ans) >= 3 else None
                out['merge_again'] = _dump_analyser(ts.merge_analysers(ans))
                # ONE analyser (made by make_line_analyser) fed the parts one after the other
                fed = ts.make_line_analyser(inp['kind'], inp['wbc'], inp['ic'])
                for p in objs:
                    _feed(fed, inp['kind'], p)
                out['fed'] = _dump_analyser(fed)
                out['parts_after'] = [_dump_analyser(a) for a in ans]
                out['whole_after'] = _dump_analyser(whole)
                out['other_after'] = _dump_analyser(other)
                out['merge_after'] = _dump_analyser(merged)
                out['add_after'] = _dump_analyser(added) if added is not None else None
                out['inputs_unchanged'] = _snap_lines(_flat(objs)) == snap
                return out
            return call(f)
        if case.kind == 'session':
            def f():
                objs = [[_py_line(x, a['form'], i) for i, x in enumerate(a['lines'])] for a in inp['analysers']]
                ans, first = [], []
                for a, o in zip(inp['analysers'], objs):
                    if a.get('route') == 'make':
                        an = _feed(ts.make_line_analyser(a['kind'], a['wbc'], a['ic']), a['kind'], o)
                    else:
                        an = _make(a['kind'], o, a['wbc'], a['ic'])
                    ans.append(an)
                    first.append(_dump_analyser(an))
                steps = []
                for op in inp['ops']:
                    if op[0] == 'keyness':
                        _, i, j, cnt = op
                        t, r = ans[i].freq[cnt], ans[j].freq[cnt]
                        if sum(t.values()) > 0 and sum(r.values()) > 0:
                            k1 = _keyness_view(ts.compute_keyness(t, r))
                            k2 = _keyness_view(ts.compute_keyness(r, t))
                            steps.append({'fwd': k1, 'swapped': k2, 'fwd_again': _keyness_view(ts.compute_keyness(t, r))})
                        else:
                            steps.append(None)
                    elif op[0] == 'complement':
                        _, i, cnt = op
                        steps.append({'fwd': _keyness_view(ts.compute_complement_keyness(ans[i], cnt))}
                                     if sum(ans[i].freq['all'].values()) > 0 else None)
                    elif op[0] == 'get_stats':
                        ans[op[1]].get_stats()
                        steps.append(None)
                    elif op[0] == 'empty':
                        # an analyser that has seen no line at all, made while the others exist
                        e = ts.make_line_analyser(op[1], '-', False)
                        steps.append({'empty': _dump_analyser(e)})
                    else:
                        raise ValueError(op)
                return {'first': first, 'steps': steps, 'later': [_dump_analyser(a) for a in ans]}
            return call(f)
        if case.kind == 'keyness':
            def f():
                t = Counter(dict((k, v) for k, v in inp['target']))
                r = Counter(dict((k, v) for k, v in inp['ref']))
                before = [_full_items(t), _full_items(r)]
                k1 = ts.compute_keyness(t, r, vocab=inp.get('vocab'))
                k2 = ts.compute_keyness(r, t, vocab=inp.get('vocab'))
                v1 = _keyness_view(k1)
                # the counters are used again afterwards: the same question must get the same answer, the earlier
                # answer and the two counters must not have been touched (a vocabulary token missing from a counter
                # must not be added to it)
                k3 = ts.compute_keyness(t, r, vocab=inp.get('vocab'))
                return {'fwd': v1, 'swapped': _keyness_view(k2),
                        'vocab': sorted(ts.get_keyness_vocab(t, r)),
                        'fwd_again': _keyness_view(k3), 'fwd_reread': _keyness_view(k1),
                        'counters_unchanged': [_full_items(t), _full_items(r)] == before}
            return call(f)
        if case.kind == 'complement':
            def f():
                lines = [_py_line(x, inp['form'], i) for i, x in enumerate(inp['lines'])]
                a = _make(inp['kind'], lines, inp['wbc'], inp['ic'])
                before = _dump_analyser(a)
                full = {k: _full_items(c) for k, c in a.freq.items()}
                k1 = ts.compute_complement_keyness(a, inp['counter'])
                v1 = _keyness_view(k1)
                # every counter in turn, then the first one again, on the same analyser
                for cnt in ('all', 'start', 'mid', 'end'):
                    ts.compute_complement_keyness(a, cnt)
                k2 = ts.compute_complement_keyness(a, inp['counter'])
                return {'fwd': v1, 'analyser': _dump_analyser(a), 'fwd_again': _keyness_view(k2),
                        'analyser_unchanged': before == _dump_analyser(a)
                        and full == {k: _full_items(c) for k, c in a.freq.items()}}
            return call(f)
        if case.kind == 'wordcat':
            def f():
                kw = {}
                if 'max_len' in inp:
                    kw['max_word_length'] = inp['max_len']
                if 'size' in inp:
                    kw['word_length_bin_size'] = inp['size']
                words, stop = list(inp['words']), (list(inp['stop']) if inp['stop'] is not None else None)
                s = ts.get_word_cat_stats(words, stop_words=stop, **kw)
                view = {k: (None if v is None else int(v)) for k, v in s.items()}
                # the same lists used a second time (after a call with other words in between)
                ts.get_word_cat_stats(['Other', 'words', '12', 'x' * 50], stop_words=['words'], **kw)
                s2 = ts.get_word_cat_stats(words, stop_words=stop, **kw)
                view['hist'] = {'again': {k: (None if v is None else int(v)) for k, v in s2.items()},
                                'reread': {k: (None if v is None else int(v)) for k, v in s.items()},
                                'inputs_unchanged': words == inp['words'] and stop == inp['stop']}
                return view
            return call(f)
        if case.kind == 'linewidth':
            def f():
                import pagexml.analysis.layout_stats as ls
                pdm = _pdm()
                lines = [pdm.PageXMLTextLine(coords=_box(0, 0, w, 10), text='t') for w in inp['widths']]
                bps = list(inp['bps'])
                st = ls.get_line_width_stats(lines, bps)
                out = {'stats': [[k, int(v)] for k, v in st.items()],
                       'ranges': list(ls.get_boundary_width_ranges(bps)),
                       'cats': [ls.categorise_line_width(l, bps) for l in lines]}
                # the same lines and boundary points used again (after the per-line calls above)
                st2 = ls.get_line_width_stats(lines, bps)
                out['hist'] = {'again': [[k, int(v)] for k, v in st2.items()],
                               'reread': [[k, int(v)] for k, v in st.items()],
                               'ranges_again': list(ls.get_boundary_width_ranges(bps)),
                               'inputs_unchanged': bps == inp['bps'] and [l.coords.w for l in lines] == inp['widths']}
                return out
            return call(f)
        if case.kind == 'docstats':
            def f():
                import pagexml.analysis.stats as st
                docs = [_build_doc(d) for d in inp['docs']]
                own = [{k: int(v) for k, v in d.stats.items()} for d in docs]
                snap = [_snap_doc(d) for d in docs]
                kw = _doc_kwargs(inp)
                raw = st.get_doc_stats(docs, **kw)
                out = {'table': _canon_table(raw), 'single': [_doc_table([d], inp) for d in docs],
                       'one_arg': _doc_table(docs[0], inp) if len(docs) == 1 else None,
                       'own_stats': own,
                       'n_text_lines': [len([l for l in d.get_lines() if l.text is not None]) for d in docs]}
                # history: a call with other options in between, the same call a second time, ONE list object that
                # grows document by document (a table per length), and the earlier answers read again at the end
                st.get_doc_stats(docs, line_width_boundary_points=[7, 1234], stop_words=['x'])
                out['table_again'] = _doc_table(docs, inp)
                grow, raws = [], []
                for d in docs:
                    grow.append(d)
                    raws.append(st.get_doc_stats(grow, **kw))
                # (all of them looked at only now, after the later calls were made)
                out['growing'] = [_canon_table(t) for t in raws]
                out['table_reread'] = _canon_table(raw)
                out['docs_unchanged'] = (snap == [_snap_doc(d) for d in docs]
                                         and own == [{k: int(v) for k, v in d.stats.items()} for d in docs])
                return out
            return call(f)
        raise ValueError(case.kind)

    # ---------------------------------------------------------------- model
    def requests(self, case: Case):
        inp = case.input

        def mlines(ls):
            return [_model_line(inp['kind'], x, inp['wbc']) for x in ls]
        def other(ls):
            okind = 'char' if inp['kind'] == 'word' else 'word'
            return {'p': 'C20', 'op': 'analyse', 'args': {'kind': okind, 'ic': inp['ic'],
                                                          'lines': [_model_line(okind, x, inp['wbc']) for x in ls]}}
        if case.kind == 'analyse':
            return [{'p': 'C20', 'op': 'analyse', 'args': {'kind': inp['kind'], 'ic': inp['ic'], 'lines': mlines(inp['lines'])}},
                    other(inp['lines'])]
        if case.kind == 'split':
            return [{'p': 'C20', 'op': 'split', 'args': {'kind': inp['kind'], 'ic': inp['ic'],
                                                          'parts': [mlines(p) for p in inp['parts']]}},
                    {'p': 'C20', 'op': 'analyse', 'args': {'kind': inp['kind'], 'ic': inp['ic'],
                                                            'lines': mlines(_flat(inp['parts']))}},
                    other(inp['parts'][-1])]
        if case.kind == 'session':
            reqs = [{'p': 'C20', 'op': 'analyse', 'args': {'kind': a['kind'], 'ic': a['ic'],
                                                            'lines': [_model_line(a['kind'], x, a['wbc']) for x in a['lines']]}}
                    for a in inp['analysers']]
            for pl in _session_plan(inp)[1]:
                if pl and pl[0] == 'keyness':
                    reqs.append({'p': 'C20', 'op': 'keyness', 'args': {'target': pl[1], 'ref': pl[2], 'vocab': None}})
                    reqs.append({'p': 'C20', 'op': 'keyness', 'args': {'target': pl[2], 'ref': pl[1], 'vocab': None}})
                elif pl and pl[0] == 'complement':
                    a = inp['analysers'][pl[1]]
                    reqs.append({'p': 'C20', 'op': 'complement', 'args': {
                        'kind': a['kind'], 'ic': a['ic'], 'lines': [_model_line(a['kind'], x, a['wbc']) for x in a['lines']],
                        'counter': pl[2]}})
            return reqs
        if case.kind == 'keyness':
            return [{'p': 'C20', 'op': 'keyness', 'args': {'target': inp['target'], 'ref': inp['ref'],
                                                            'vocab': inp.get('vocab')}},
                    {'p': 'C20', 'op': 'keyness', 'args': {'target': inp['ref'], 'ref': inp['target'],
                                                            'vocab': inp.get('vocab')}}]
        if case.kind == 'complement':
            # the model analyses the corpus itself, then takes the complement of the chosen counter
            return [{'p': 'C20', 'op': 'complement', 'args': {'kind': inp['kind'], 'ic': inp['ic'],
                                                               'lines': mlines(inp['lines']), 'counter': inp['counter']}}]
        if case.kind == 'wordcat':
            stop = inp['stop']
            return [{'p': 'C20', 'op': 'word_cat_stats', 'args': {
                'words': [_word_json(w, stop) for w in inp['words']], 'use_stop': stop is not None,
                'max_len': inp.get('max_len'), 'size': inp.get('size')}}]
        if case.kind == 'linewidth':
            return [{'p': 'C20', 'op': 'line_width', 'args': {'widths': inp['widths'], 'bps': inp['bps']}}]
        if case.kind == 'docstats':
            docs = [_build_doc(d) for d in inp['docs']]
            stop = inp.get('stop')
            mdocs = [_model_doc(d, {k: int(v) for k, v in o.stats.items()}, stop, inp.get('re', False))
                     for d, o in zip(inp['docs'], docs)]
            # `null` = the argument is not passed to the real function: the driver uses the regenerated default
            reqs = [{'p': 'C20', 'op': 'doc_stats', 'args': {
                'docs': mdocs, 'bps': inp.get('bps'), 'use_stop': stop is not None, 'max_len': inp.get('max_len'),
                'line_bin_width': inp.get('lbw'), 'max_bin': inp.get('max_bin')}}]
            # per document the model's range for every line with text (only used to tell where the model put lines whose
            # width lies exactly on a boundary point, see compare)
            wi = _doc_width_inputs(inp)
            if wi is not None:
                reqs += [{'p': 'C20', 'op': 'line_width', 'args': {'widths': ws, 'bps': wi[0]}} for ws in wi[1]]
            return reqs
        return []

    def _cmp_analyser(self, i: Dict[str, Any], m: Dict[str, Any]) -> Optional[str]:
        for k in ('all', 'start', 'mid', 'end'):
            mm = sorted([[t, n] for t, n in m[k] if n > 0])
            if mm != i[k]:
                return f'counter {k}: impl={i[k]} model={mm}'
            if len(set(t for t, _ in m[k])) != len(m[k]):
                return f'model counter {k} has a repeated key: {m[k]}'
        for k in ('num_lines', 'stats', 'num_tokens', 'num_types'):
            if i[k] != m[k]:
                return f'{k}: impl={i[k]} model={m[k]}'
        if isinstance(m['rows'], dict):
            return f'model get_stats raised {m["rows"]}'
        mrows = {r['token_type']: r for r in m['rows']}
        if set(mrows) != set(i['rows']):
            return f'get_stats tokens: impl={sorted(i["rows"])} model={sorted(mrows)}'
        for t, ir in i['rows'].items():
            for k, v in ir.items():
                mv = mrows[t][k]
                if k.endswith('frac'):
                    if not _close(v, mv[0] / mv[1], 1e-12):
                        return f'get_stats {t}.{k}: impl={v} model={mv}'
                elif v != mv:
                    return f'get_stats {t}.{k}: impl={v} model={mv}'
        return None

    def _cmp_res(self, i: Dict[str, Any], m: Dict[str, Any]) -> Optional[str]:
        if 'err' in i or 'err' in m:
            return None if i == m else f'impl={i} model={m}'
        return self._cmp_analyser(i['ok'], m['ok'])

    def compare(self, case: Case, impl_out, model_out):
        inp = case.input
        if case.kind == 'analyse':
            d = self._cmp_res(impl_out, model_out[0])
            if d or 'err' in impl_out or 'hist' not in impl_out['ok']:
                return d
            # the model is pure: the same answer for every later look at the analyser and for the second analyser
            h = impl_out['ok']['hist']
            for k in ('made', 'again', 'made_again'):
                d = self._cmp_res({'ok': h[k]}, model_out[0])
                if d:
                    return f'{k}: {d}'
            d = self._cmp_res({'ok': h['other']}, model_out[1])
            return f'other kind on the same corpus: {d}' if d else None
        if case.kind == 'session':
            n = len(inp['analysers'])
            if 'err' in impl_out:
                return None if any('err' in m for m in model_out[:n]) else f'impl={impl_out}'
            io = impl_out['ok']
            for look in ('first', 'later'):
                for i in range(n):
                    d = self._cmp_res({'ok': io[look][i]}, model_out[i])
                    if d:
                        return f'analyser {i}, {look} look: {d}'
            exp, plan = _session_plan(inp)
            at = n
            for op, pl, st in zip(inp['ops'], plan, io['steps']):
                if pl is None:
                    if st is not None and op[0] in ('keyness', 'complement'):
                        return f'step {op}: the analysers hold tokens where the corpus has none'
                    continue
                if st is None:
                    return f'step {op}: the analysers hold no tokens, the corpus has some'
                if pl[0] == 'keyness':
                    t, r = dict(pl[1]), dict(pl[2])
                    tt, rt = sum(t.values()), sum(r.values())
                    for side, m, (x, xt, y, yt) in (('fwd', model_out[at]['ok'], (t, tt, r, rt)),
                                                    ('swapped', model_out[at + 1]['ok'], (r, rt, t, tt)),
                                                    ('fwd_again', model_out[at]['ok'], (t, tt, r, rt))):
                        d = _keyness_cmp(f'step {op} {side}', st[side], m,
                                         lambda tok, x=x, xt=xt, y=y, yt=yt: x.get(tok, 0) * yt == y.get(tok, 0) * xt, score=True)
                        if d:
                            return d
                    at += 2
                else:
                    m = model_out[at]
                    at += 1
                    if 'err' in m:
                        return f'step {op}: model={m}'
                    x, al = dict(exp[pl[1]][pl[2]]), dict(exp[pl[1]]['all'])
                    xt = sum(x.values())
                    yt = sum(al.values()) - sum(x.get(k, 0) for k in al)
                    d = _keyness_cmp(f'step {op}', st['fwd'], m['ok']['keyness'],
                                     lambda tok: x.get(tok, 0) * yt == (al.get(tok, 0) - x.get(tok, 0)) * xt, score=False)
                    if d:
                        return d
            return None
        if case.kind == 'split':
            ms, mw = model_out[0]['ok'], model_out[1]
            bad_part = any('err' in p for p in ms['parts'])
            if 'err' in impl_out:
                # the real constructor raised on some part: the model must raise on a part, too
                return None if (bad_part or 'err' in mw) else f'impl={impl_out} model={ms}'
            if bad_part:
                return f'impl ok, model part raised: {ms["parts"]}'
            io = impl_out['ok']
            for ip, mp in zip(io['parts'], ms['parts']):
                d = self._cmp_res({'ok': ip}, mp)
                if d:
                    return 'part: ' + d
            d = self._cmp_res({'ok': io['whole']}, mw)
            if d:
                return 'whole: ' + d
            d = self._cmp_res({'ok': io['merge']}, ms['merge'])
            if d:
                return 'merge: ' + d
            if 'add' in io:
                d = self._cmp_res({'ok': io['add']}, ms['add'])
                if d:
                    return 'add: ' + d
            if 'other' not in io:
                return None
            # later looks at the same objects, results of the second merge / addition, the analyser fed in parts:
            # the (pure) model gives the same answers
            for k, m in (('merge_again', ms['merge']), ('merge_after', ms['merge']), ('add_again', ms.get('add')),
                         ('add_after', ms.get('add')), ('whole_after', mw), ('fed', mw),
                         ('other', model_out[2]), ('other_after', model_out[2])):
                if io.get(k) is not None and m is not None:
                    d = self._cmp_res({'ok': io[k]}, m)
                    if d:
                        return f'{k}: {d}'
            for ip, mp in zip(io['parts_after'], ms['parts']):
                d = self._cmp_res({'ok': ip}, mp)
                if d:
                    return 'part, later look: ' + d
            return None
        if case.kind == 'keyness':
            if 'err' in impl_out:
                return f'impl={impl_out}'
            t = dict((k, v) for k, v in inp['target'])
            r = dict((k, v) for k, v in inp['ref'])
            tt, rt = sum(t.values()), sum(r.values())
            for side, m, (x, xt, y, yt) in (('fwd', model_out[0]['ok'], (t, tt, r, rt)),
                                            ('swapped', model_out[1]['ok'], (r, rt, t, tt))):
                # equal relative frequency, exactly: x[w] / xt == y[w] / yt  <=>  x[w] * yt == y[w] * xt
                d = _keyness_cmp(side, impl_out['ok'][side], m,
                                 lambda tok, x=x, xt=xt, y=y, yt=yt: x.get(tok, 0) * yt == y.get(tok, 0) * xt, score=True)
                if d:
                    return d
            return None
        if case.kind == 'complement':
            if 'err' in impl_out or 'err' in model_out[0]:
                return None if ('err' in impl_out and 'err' in model_out[0]) else f'impl={impl_out} model={model_out[0]}'
            d = self._cmp_analyser(impl_out['ok']['analyser'], model_out[0]['ok']['analyser'])
            if d:
                return d
            # target = the chosen counter, reference = 'all' minus it (the analyser's counters were just compared exactly)
            an = impl_out['ok']['analyser']
            x = dict((k, v) for k, v in an[inp['counter']])
            al = dict((k, v) for k, v in an['all'])
            xt = sum(x.values())
            yt = sum(al.values()) - sum(x.get(k, 0) for k in al)
            return _keyness_cmp('complement', impl_out['ok']['fwd'], model_out[0]['ok']['keyness'],
                                lambda tok: x.get(tok, 0) * yt == (al.get(tok, 0) - x.get(tok, 0)) * xt, score=False)
        if case.kind == 'wordcat':
            m = model_out[0]
            if 'err' in impl_out:
                return f'impl={impl_out} model={m}'
            io = {k: v for k, v in impl_out['ok'].items() if k != 'hist'}
            if io != m['ok']:
                return f'impl={io} model={m["ok"]}'
            h = impl_out['ok'].get('hist')       # the second call on the same lists: the same model answer
            return None if (h is None or h['again'] == m['ok']) else f'second call: impl={h["again"]} model={m["ok"]}'
        if case.kind == 'linewidth':
            m = model_out[0]
            if 'err' in impl_out:
                return f'impl={impl_out} model={m}'
            io, mo = impl_out['ok'], m['ok']
            return _width_cmp(inp['widths'], inp['bps'], io['ranges'], io['cats'], io['stats'],
                              mo['ranges'], mo['cats'], mo['stats'])
        if case.kind == 'docstats':
            m = model_out[0]
            if 'err' in impl_out or 'err' in m:
                return None if impl_out == m else f'impl={impl_out} model={m}'
            it = impl_out['ok']['table']
            mt = m['ok']
            if [k for k, _ in mt] != list(it.keys()):
                return f'columns differ: impl={list(it.keys())} model={[k for k, _ in mt]}'
            # the line-width columns: a line whose width is exactly on a boundary point may be counted in either of the
            # two ranges meeting there (see _width_tie_ranges); the per-line choice of the model comes from the extra
            # `line_width` requests (one per document).  Everything else, and these columns when no line is tied, exact.
            pre = 'line_width_range_'
            wcols = [k for k, _ in mt if k.startswith(pre)]
            wi = _doc_width_inputs(inp)
            extra = model_out[1:]
            tolerant = (wi is not None and len(extra) == len(inp['docs']) and len(set(wcols)) == len(wcols)
                        and all('ok' in e and [pre + x for x in e['ok']['ranges']] == wcols for e in extra))
            mtd = dict((k, v) for k, v in mt)
            for k, v in mt:
                if it[k] != v and not (tolerant and k in wcols and len(it[k]) == len(v)):
                    return f'column {k}: impl={it[k]} model={v}'
            if tolerant:
                bps, widths = wi
                for di, (ws, e) in enumerate(zip(widths, extra)):
                    d = _width_cmp(ws, bps, None, None, [[k[len(pre):], it[k][di]] for k in wcols],
                                   e['ok']['ranges'], e['ok']['cats'], [[k[len(pre):], mtd[k][di]] for k in wcols])
                    if d:
                        return f'line-width columns of document {di}: {d}'
            return None
        return None

    # ---------------------------------------------------------------- oracle
    def oracle(self, case: Case, out: Any) -> List[Finding]:
        fs: List[Finding] = []
        inp = case.input

        if self.outside(case):
            return fs          # outside the quantifier (see outside()): not judged

        def bad(key, what):
            fs.append(Finding(f'C20:{key}', what, case, out))

        def wellformed(lines):
            return all(x is None or isinstance(x, str) for x in lines)

        def strip(d):
            return {k: v for k, v in d.items() if k != 'hist'}

        def judge_counts(o, kind, lines, wbc, ic, where, tag=''):
            """one look at one analyser against ITS OWN corpus (tag: at which point of the history it was looked at)"""
            e, n = _expected_counts(kind, lines, wbc, ic)
            for k in ('all', 'start', 'mid', 'end'):
                if o[k] != _counter_pairs(e[k]):
                    bad(f'count-{k}:{kind}{tag}', f'{where}: {k} counter is {o[k]}, the corpus has {_counter_pairs(e[k])}')
                tot = sum(v for _, v in o[k])
                if o['stats'][f'total_{k}_tokens'] != tot or o['num_tokens'][k] != tot:
                    bad(f'stats-total-{k}{tag}', f'{where}: total_{k}_tokens {o["stats"][f"total_{k}_tokens"]} / num_tokens '
                                                 f'{o["num_tokens"][k]} but the counter sums to {tot}')
            if kind == 'word' and o['num_lines'] != n:
                bad(f'num-lines{tag}', f'{where}: num_lines is {o["num_lines"]}, the corpus has {n} non-empty lines')
            if o['stats']['total_lines'] != o['num_lines']:
                bad(f'stats-total-lines{tag}', f'{where}: stats total_lines {o["stats"]["total_lines"]} != num_lines {o["num_lines"]}')
            # get_stats(): one row per token of the corpus with its four counts
            want = {t: c for t, c in e['all'].items()}
            if set(o['rows']) != set(want):
                bad(f'get-stats-rows{tag}', f'{where}: get_stats() lists {sorted(o["rows"])}, the corpus has {sorted(want)}')
            else:
                for t, row in o['rows'].items():
                    for k in ('all', 'start', 'mid', 'end'):
                        if row.get(f'{k}_freq') != e[k].get(t, 0):
                            bad(f'get-stats-freq{tag}', f'{where}: get_stats() {k}_freq of {t!r} is {row.get(f"{k}_freq")}, '
                                                        f'the corpus has {e[k].get(t, 0)}')

        def unchanged(first, later, key, what):
            if first is not None and later is not None and strip(first) != strip(later):
                diff = [k for k in strip(first) if first.get(k) != later.get(k)]
                bad(key, f'{what}: read again later it differs in {diff}: {({k: first[k] for k in diff})} -> '
                         f'{({k: later.get(k) for k in diff})}')

        def judge_keyness(k, t, r, vocab):
            tt, rt = sum(t.values()), sum(r.values())
            for side, (x, xt, y, yt) in (('fwd', (t, tt, r, rt)), ('swapped', (r, rt, t, tt))):
                o = k[side]
                for tok in vocab:
                    in_more, in_less = tok in o['more'], tok in o['less']
                    if in_more and in_less:
                        bad('keyness-both', f'{side}: {tok} is in both more and less')
                    if not in_more and not in_less:
                        bad('keyness-missing', f'{side}: vocabulary token {tok} is in neither more nor less')
                    ft, fr = Fraction(x.get(tok, 0), xt), Fraction(y.get(tok, 0), yt)
                    if ft > fr and not in_more:
                        bad('keyness-direction', f'{side}: {tok} has relative frequency {ft} > {fr} but is not in more')
                    if ft < fr and not in_less:
                        bad('keyness-direction', f'{side}: {tok} has relative frequency {ft} < {fr} but is not in less')
                    if in_more and ft < fr:
                        # (equal relative frequencies: the statement does not say where the token goes — the
                        #  code's choice, 'less', is proved for the model and tied by the correspondence)
                        bad('keyness-direction', f'{side}: {tok} is in more but its relative frequency {ft} is lower than {fr}')
                    for p in ('more', 'less'):
                        if tok in o[p]:
                            s = o[p][tok]
                            if not math.isfinite(s):
                                bad('keyness-score-finite', f'{side}: score of {tok} is {s}')
                            elif s < -1e-9:
                                bad('keyness-score-negative', f'{side}: score of {tok} is {s}')
            f, s = k['fwd'], k['swapped']
            for tok in vocab:
                a = f['more'].get(tok, f['less'].get(tok))
                b = s['more'].get(tok, s['less'].get(tok))
                if a is not None and b is not None and math.isfinite(a) and math.isfinite(b) and not _close(a, b):
                    bad('keyness-swap', f'score of {tok} is {a!r}, with target and reference swapped {b!r}')

        def keyness_same(k1, k2, key, what):
            """the same question asked again: same tokens on the same sides, same scores (nan == nan)"""
            for p in ('more', 'less'):
                if set(k1[p]) != set(k2[p]):
                    bad(key, f'{what}: {p} holds {sorted(k2[p])}, the first time {sorted(k1[p])}')
                    return
                for tok, v in k1[p].items():
                    w = k2[p][tok]
                    if not ((math.isnan(v) and math.isnan(w)) or v == w or _close(v, w)):
                        bad(key, f'{what}: score of {tok} is {w!r}, the first time {v!r}')
                        return

        if case.kind == 'analyse':
            if not wellformed(inp['lines']):
                return fs
            if 'err' in out:
                bad(f'raises:{inp["kind"]}', f'analysing a corpus raised {out["err"]}')
                return fs
            judge_counts(out['ok'], inp['kind'], inp['lines'], inp['wbc'], inp['ic'], 'analyser')
            h = out['ok'].get('hist')
            if h:
                okind = 'char' if inp['kind'] == 'word' else 'word'
                judge_counts(h['made'], inp['kind'], inp['lines'], inp['wbc'], inp['ic'],
                             'make_line_analyser + analyse_line_* on the same objects', ':made')
                judge_counts(h['other'], okind, inp['lines'], inp['wbc'], inp['ic'],
                             f'{okind} analyser built on the same objects afterwards', ':second-analyser')
                unchanged(out['ok'], h['again'], 'analyser-changed-by-later-use',
                          'the analyser after two more analysers were built on the same objects')
                unchanged(h['made'], h['made_again'], 'analyser-changed-by-later-use', 'the second analyser')
                if not h['inputs_unchanged']:
                    bad('corpus-mutated', 'the objects of the corpus were changed by being analysed')
        elif case.kind == 'session':
            if 'err' in out:
                bad('raises:session', f'building / reading several analysers in one process raised {out["err"]}')
                return fs
            o = out['ok']
            for i, a in enumerate(inp['analysers']):
                judge_counts(o['first'][i], a['kind'], a['lines'], a['wbc'], a['ic'],
                             f'analyser {i} ({a["kind"]}) right after it was built', ':first-look')
                judge_counts(o['later'][i], a['kind'], a['lines'], a['wbc'], a['ic'],
                             f'analyser {i} ({a["kind"]}) after the other analysers were built and used', ':later-look')
                unchanged(o['first'][i], o['later'][i], 'analyser-changed-by-later-use', f'analyser {i}')
            exp, plan = _session_plan(inp)
            for op, pl, st in zip(inp['ops'], plan, o['steps']):
                if op[0] == 'empty' and st:
                    judge_counts(st['empty'], op[1], [], '-', False, f'a new {op[1]} analyser that has seen no line', ':unfed')
                if op[0] == 'keyness' and pl and st:
                    t, r = dict(pl[1]), dict(pl[2])
                    judge_keyness(st, t, r, sorted(set(t) | set(r)))
                    keyness_same(st['fwd'], st['fwd_again'], 'keyness-second-call', 'compute_keyness on the same counters again')
        elif case.kind == 'split':
            if not all(wellformed(p) for p in inp['parts']):
                return fs
            if 'err' in out:
                bad(f'raises:{inp["kind"]}', f'analysing / merging / adding raised {out["err"]}')
                return fs
            o = out['ok']
            judge_counts(o['whole'], inp['kind'], _flat(inp['parts']), inp['wbc'], inp['ic'], 'whole corpus')

            def same(x, y, what):
                for k in ('all', 'start', 'mid', 'end'):
                    if x[k] != y[k]:
                        bad(f'{what}-counter-{k}', f'{what}: {k} is {x[k]}, analysing the concatenated corpus gives {y[k]}')
                if x['num_lines'] != y['num_lines']:
                    bad(f'{what}-num-lines', f'{what}: num_lines {x["num_lines"]}, concatenated corpus {y["num_lines"]}')
                if x['stats'] != y['stats'] and not fs:
                    bad(f'{what}-stats', f'{what}: stats {x["stats"]}, concatenated corpus {y["stats"]}')
            same(o['merge'], o['whole'], 'merge')
            if 'add' in o:
                same(o['add'], o['whole2'], 'add')
            if 'add_again' in o:
                same(o['add_again'], o['whole2'], 'add-second-time')
            if 'merge_again' in o:
                same(o['merge_again'], o['whole'], 'merge-second-time')
            for i, (before, after) in enumerate(zip(o['parts'], o.get('parts_after', o['parts']))):
                if before != after:
                    bad('operand-changed', f'analyser of part {i} changed by adding / merging: {before} -> {after}')
            # every analyser of the process against its own corpus, at every point it was looked at
            okind = 'char' if inp['kind'] == 'word' else 'word'
            for i, p in enumerate(inp['parts']):
                judge_counts(o['parts'][i], inp['kind'], p, inp['wbc'], inp['ic'],
                             f'analyser of part {i} (looked at after the other analysers were built)', ':part')
                if 'parts_after' in o:
                    judge_counts(o['parts_after'][i], inp['kind'], p, inp['wbc'], inp['ic'],
                                 f'analyser of part {i} (looked at after merging / adding / feeding)', ':part-later')
            if 'other' in o:
                judge_counts(o['other'], okind, inp['parts'][-1], inp['wbc'], inp['ic'],
                             f'{okind} analyser of the last part, built next to the others', ':second-analyser')
                unchanged(o['other'], o['other_after'], 'analyser-changed-by-later-use', f'the {okind} analyser')
                unchanged(o['whole'], o['whole_after'], 'analyser-changed-by-later-use', 'the analyser of the whole corpus')
                judge_counts(o['whole_after'], inp['kind'], _flat(inp['parts']), inp['wbc'], inp['ic'],
                             'whole corpus (looked at again at the end)', ':whole-later')
                unchanged(o['merge'], o['merge_after'], 'result-changed-by-later-use', 'the merged analyser')
                unchanged(o.get('add'), o.get('add_after'), 'result-changed-by-later-use', 'the sum of two analysers')
                same(o['fed'], o['whole'], 'fed-in-parts')
                judge_counts(o['fed'], inp['kind'], _flat(inp['parts']), inp['wbc'], inp['ic'],
                             'one analyser fed the parts one after the other', ':fed')
                if o.get('add_self') is not None:
                    judge_counts(o['add_self'], inp['kind'], inp['parts'][0] * 2, inp['wbc'], inp['ic'],
                                 'an analyser added to itself', ':add-self')
                if o.get('add_chain') is not None:
                    judge_counts(o['add_chain'], inp['kind'], inp['parts'][0] + inp['parts'][1] + inp['parts'][-1],
                                 inp['wbc'], inp['ic'], 'a sum used as an operand of a second sum', ':add-chain')
                if not o['inputs_unchanged']:
                    bad('corpus-mutated', 'the objects of the corpus were changed by being analysed')
        elif case.kind == 'keyness':
            if 'err' in out:
                bad('keyness-raises', f'compute_keyness raised {out["err"]}')
                return fs
            t = dict((k, v) for k, v in inp['target'])
            r = dict((k, v) for k, v in inp['ref'])
            vocab = inp.get('vocab') or sorted(set(t) | set(r))
            judge_keyness(out['ok'], t, r, vocab)
            if 'fwd_again' in out['ok']:
                keyness_same(out['ok']['fwd'], out['ok']['fwd_again'], 'keyness-second-call',
                             'compute_keyness on the same counters a second time')
                keyness_same(out['ok']['fwd'], out['ok']['fwd_reread'], 'keyness-answer-changed',
                             'the first answer read again after two more calls')
                if not out['ok']['counters_unchanged']:
                    bad('keyness-counter-mutated', 'compute_keyness changed the counters it was given')
        elif case.kind == 'complement':
            if wellformed(inp['lines']) and 'err' in out:
                bad('complement-raises', f'compute_complement_keyness raised {out["err"]}')
            elif wellformed(inp['lines']) and 'fwd_again' in out['ok']:
                keyness_same(out['ok']['fwd'], out['ok']['fwd_again'], 'complement-second-call',
                             'compute_complement_keyness on the same analyser again')
                if not out['ok']['analyser_unchanged']:
                    bad('complement-analyser-mutated', 'compute_complement_keyness changed the analyser it was given')
        elif case.kind == 'wordcat':
            if 'err' in out:
                bad('wordcat-raises', f'get_word_cat_stats raised {out["err"]}')
                return fs
            o = strip(out['ok'])
            h = out['ok'].get('hist')
            if h:
                if h['again'] != o:
                    bad('wordcat-second-call', f'get_word_cat_stats on the same words again: {h["again"]}, the first time {o}')
                if h['reread'] != o:
                    bad('wordcat-answer-changed', 'the first answer of get_word_cat_stats changed after later calls')
                if not h['inputs_unchanged']:
                    bad('wordcat-input-mutated', 'get_word_cat_stats changed the word / stop-word list it was given')
            n = len(inp['words'])
            if o['num_words'] != n:
                bad('num-words', f'num_words {o["num_words"]} for {n} words')
            if o['num_title_words'] + o['num_non_title_words'] != o['num_words']:
                bad('partition-title', f'title {o["num_title_words"]} + non-title {o["num_non_title_words"]} != {o["num_words"]}')
            if all(len(w) > 0 for w in inp['words']):
                bins = sum(v for k, v in o.items() if k.startswith('num_words_length_'))
                if bins + o['num_oversized_words'] != o['num_words']:
                    bad('partition-word-length', f'length bins {bins} + oversized {o["num_oversized_words"]} != {o["num_words"]}')
        elif case.kind == 'linewidth':
            if 'err' in out:
                bad('linewidth-raises', f'get_line_width_stats raised {out["err"]}')
                return fs
            tot = sum(v for _, v in out['ok']['stats'])
            if tot != len(inp['widths']):
                bad('partition-line-width', f'line-width bins sum to {tot} for {len(inp["widths"])} lines')
            h = out['ok'].get('hist')
            if h:
                if sorted(h['again']) != sorted(out['ok']['stats']) or h['ranges_again'] != out['ok']['ranges']:
                    bad('linewidth-second-call', f'get_line_width_stats on the same lines again: {h["again"]}, '
                                                 f'the first time {out["ok"]["stats"]}')
                if sorted(h['reread']) != sorted(out['ok']['stats']):
                    bad('linewidth-answer-changed', 'the first answer of get_line_width_stats changed after the second call')
                if not h['inputs_unchanged']:
                    bad('linewidth-input-mutated', 'the lines / boundary points were changed by the call')
        elif case.kind == 'docstats':
            if not _in_statement(inp):
                return fs                      # outside the configurations of the statement (see level note)
            if 'err' in out:
                bad('doc-raises', f'get_doc_stats raised {out["err"]}')
                return fs
            o = out['ok']
            re_tag = ':re' if inp.get('re') else ''
            from pagexml.analysis.stats import DEFAULT_ELEMENTS

            def judge_table(t, idx, where, tag=''):
                """one returned table against the documents docs[i], i in idx, taken one at a time"""
                n = len(idx)
                for k, v in t.items():
                    if len(v) != n:
                        bad('doc-column-length' + tag, f'{where}: column {k} has {len(v)} entries for {n} documents')
                        return
                for k, v in t.items():
                    if k == 'doc_num':
                        continue
                    cat = [x for i in idx for x in o['single'][i].get(k, ['<missing column>'])]
                    if cat != v:
                        bad('doc-concat' + tag, f'{where}: column {k} is {v}, the documents one at a time give {cat}')
                for j, i in enumerate(idx):
                    for f in DEFAULT_ELEMENTS:
                        if t[f][j] != o['own_stats'][i].get(f, 0):
                            bad('doc-elem-counts' + tag, f'{where}: {f}[{j}] is {t[f][j]}, the document\'s own stats say '
                                                         f'{o["own_stats"][i].get(f, 0)}')
                    nw = t['num_words'][j]
                    bins = sum(v[j] for k, v in t.items() if k.startswith('num_words_length_'))
                    if bins + t['num_oversized_words'][j] != nw:
                        bad('partition-word-length' + re_tag + tag, f'{where}: doc {j}: length bins {bins} + oversized '
                                                                    f'{t["num_oversized_words"][j]} != num_words {nw}')
                    if t['num_title_words'][j] + t['num_non_title_words'][j] != nw:
                        bad('partition-title' + tag, f'{where}: doc {j}: title + non-title != num_words {nw}')
                    nl = o['n_text_lines'][i]
                    for pre, key in (('words_per_line_', 'partition-wpl'), ('alpha_words_per_line_', 'partition-awpl'),
                                     ('line_width_range_', 'partition-line-width')):
                        s = sum(v[j] for k, v in t.items() if k.startswith(pre))
                        if s != nl:
                            bad(key + tag, f'{where}: doc {j}: {pre}* bins sum to {s} for {nl} lines with text')

            n = len(inp['docs'])
            judge_table(o['table'], list(range(n)), 'get_doc_stats(docs)')
            if o['one_arg'] is not None and o['one_arg'] != o['table']:
                bad('doc-single-arg', 'get_doc_stats(doc) differs from get_doc_stats([doc])')
            if 'table_again' in o and not fs:
                judge_table(o['table_again'], list(range(n)), 'get_doc_stats(docs) called a second time', ':second-call')
                for k, t in enumerate(o['growing']):
                    judge_table(t, list(range(k + 1)), f'get_doc_stats on the list grown to {k + 1} documents', ':growing-list')
                if o['table_reread'] != o['table']:
                    bad('doc-answer-changed', 'the first table changed after later calls of get_doc_stats')
                if not o['docs_unchanged']:
                    bad('doc-input-mutated', 'get_doc_stats changed the documents (id, size, lines or stats)')
        return fs

    # ---------------------------------------------------------------- bookkeeping
    def nontrivial(self, case: Case) -> bool:
        inp = case.input
        if case.kind in ('analyse', 'complement'):
            return len([x for x in inp['lines'] if x]) >= 2
        if case.kind == 'split':
            return len([x for x in _flat(inp['parts']) if x]) >= 2
        if case.kind == 'session':
            return len([a for a in inp['analysers'] if any(a['lines'])]) >= 2
        if case.kind == 'keyness':
            return len(inp['target']) + len(inp['ref']) >= 3
        if case.kind == 'docstats':
            return any(_doc_lines(d) for d in inp['docs'])
        if case.kind == 'wordcat':
            return len(inp['words']) >= 2
        if case.kind == 'linewidth':
            return len(inp['widths']) >= 1
        return True

    def shrink_candidates(self, case: Case):
        inp = case.input
        if case.kind in ('analyse', 'complement'):
            ls = inp['lines']
            for i in range(len(ls)):
                yield Case(case.kind, dict(inp, lines=ls[:i] + ls[i + 1:]), case.tags)
            for i, t in enumerate(ls):
                if isinstance(t, str) and len(t) > 1:
                    for j in range(len(t)):
                        yield Case(case.kind, dict(inp, lines=ls[:i] + [t[:j] + t[j + 1:]] + ls[i + 1:]), case.tags)
            if inp.get('form') != 'str':
                yield Case(case.kind, dict(inp, form='str'), case.tags)
            if inp.get('ic'):
                yield Case(case.kind, dict(inp, ic=False), case.tags)
        elif case.kind == 'split':
            ps = inp['parts']
            if len(ps) > 2:
                for i in range(len(ps)):
                    yield Case('split', dict(inp, parts=ps[:i] + ps[i + 1:]), case.tags)
            for pi, p in enumerate(ps):
                for i in range(len(p)):
                    yield Case('split', dict(inp, parts=ps[:pi] + [p[:i] + p[i + 1:]] + ps[pi + 1:]), case.tags)
            for pi, p in enumerate(ps):
                for i, t in enumerate(p):
                    if isinstance(t, str) and len(t) > 1:
                        for j in range(len(t)):
                            q = p[:i] + [t[:j] + t[j + 1:]] + p[i + 1:]
                            yield Case('split', dict(inp, parts=ps[:pi] + [q] + ps[pi + 1:]), case.tags)
            if inp.get('form') != 'str':
                yield Case('split', dict(inp, form='str'), case.tags)
        elif case.kind == 'session':
            ans, ops = inp['analysers'], inp['ops']
            for i in range(len(ops)):
                yield Case('session', dict(inp, ops=ops[:i] + ops[i + 1:]), case.tags)
            if len(ans) > 1:
                for i in range(len(ans)):
                    # drop analyser i together with the steps that use it; renumber the others
                    keep, okay = [], True
                    for op in ops:
                        idx = {'keyness': [1, 2], 'complement': [1], 'get_stats': [1]}.get(op[0], [])
                        if any(op[k] == i for k in idx):
                            continue
                        op = list(op)
                        for k in idx:
                            if op[k] > i:
                                op[k] -= 1
                        keep.append(op)
                    yield Case('session', {'analysers': ans[:i] + ans[i + 1:], 'ops': keep}, case.tags)
            for i, a in enumerate(ans):
                ls = a['lines']
                for j in range(len(ls)):
                    yield Case('session', dict(inp, analysers=ans[:i] + [dict(a, lines=ls[:j] + ls[j + 1:])] + ans[i + 1:]),
                               case.tags)
                if a['form'] != 'str' or a['ic'] or a.get('route') == 'make':
                    yield Case('session', dict(inp, analysers=ans[:i] + [dict(a, form='str', ic=False, route='ctor')]
                                               + ans[i + 1:]), case.tags)
        elif case.kind == 'keyness':
            for side in ('target', 'ref'):
                c = inp[side]
                for i in range(len(c)):
                    if len(c) > 1:
                        yield Case('keyness', dict(inp, **{side: c[:i] + c[i + 1:]}), case.tags)
                for i, (k, v) in enumerate(c):
                    if v > 1:
                        yield Case('keyness', dict(inp, **{side: c[:i] + [[k, v // 2]] + c[i + 1:]}), case.tags)
        elif case.kind == 'docstats':
            ds = inp['docs']
            for i in range(len(ds)):
                yield Case('docstats', dict(inp, docs=ds[:i] + ds[i + 1:]), case.tags)
            for di, d in enumerate(ds):
                for ri, r in enumerate(d['regions']):
                    yield Case('docstats', dict(inp, docs=ds[:di] + [dict(d, regions=d['regions'][:ri] + d['regions'][ri + 1:])]
                                                + ds[di + 1:]), case.tags)
                    for li in range(len(r)):
                        nr = d['regions'][:ri] + [r[:li] + r[li + 1:]] + d['regions'][ri + 1:]
                        yield Case('docstats', dict(inp, docs=ds[:di] + [dict(d, regions=nr)] + ds[di + 1:]), case.tags)
                    for li, l in enumerate(r):
                        t = l['text']
                        if isinstance(t, str) and len(t) > 1:
                            for cut in (t[:len(t) // 2], t[len(t) // 2:], t[1:], t[:-1]):
                                nr = d['regions'][:ri] + [r[:li] + [dict(l, text=cut)] + r[li + 1:]] + d['regions'][ri + 1:]
                                yield Case('docstats', dict(inp, docs=ds[:di] + [dict(d, regions=nr)] + ds[di + 1:]), case.tags)
            for k in ('bps', 'stop', 'max_len', 'lbw', 'max_bin'):
                if k in inp:
                    yield Case('docstats', {kk: v for kk, v in inp.items() if kk != k}, case.tags)
        elif case.kind == 'wordcat':
            ws = inp['words']
            for i in range(len(ws)):
                yield Case('wordcat', dict(inp, words=ws[:i] + ws[i + 1:]), case.tags)
        elif case.kind == 'linewidth':
            ws, bps = inp['widths'], inp['bps']
            for i in range(len(ws)):
                yield Case('linewidth', dict(inp, widths=ws[:i] + ws[i + 1:]), case.tags)
            for i in range(len(bps)):
                yield Case('linewidth', dict(inp, bps=bps[:i] + bps[i + 1:]), case.tags)


C20.level_note = (
    'proved in Lean for every corpus, every tokeniser, ignore-case on/off, both analysers (no size bound): exact counters '
    'token by token (C20_counts_words/_chars, C20_line_pieces), num_lines = number of non-empty lines, no error on any '
    'well-formed corpus incl. set_stats/get_stats (C20_total), a + b and merge_analysers of any split = analyser of the '
    'concatenation incl. num_lines and stats (C20_additive_add/_merge), title/non-title, word-length (for word lists without '
    'empty words), words-per-line (against the table regenerated from the module) and line-width partitions, the document '
    'table (success, equal columns, column-wise concatenation except doc_num, |ds| entries per column, element counts, '
    'doc_num = 1..n) for every list of integer boundary points, every bin size s > 0 reaching both _init_doc_stats and '
    'get_word_cat_stats and every max_word_length that is a positive multiple of s (C20_cfg_ok + C20_doc_stats_concat); '
    'for the calls of the code (arguments passed or left to the defaults regenerated from the source into '
    'Generated/C20.lean: max_word_length, line_bin_width, max_bin, the two bin sizes, DEFAULT_ELEMENTS, fields, '
    'prev_point = 0, _SMALL, the factor 2) C20_cfg_ok_code / C20_cfg_ok_default / C20_doc_stats_code / C20_score_code, '
    'which use only the relations C20_consts_* (bin sizes agree and are positive, default max_word_length a positive '
    'multiple, line_bin_width != 0, both width functions start at the same point, _SMALL > 0 and 8*_SMALL <= 1e-9); '
    'keyness direction '
    'over the integers (more iff a*R > b*T; less otherwise; one entry per token), score: swap invariance for an arbitrary '
    'log function, score >= -8*s for the regularisation constant s >= 0 (s = 0: Gibbs) and positivity of every log argument '
    'with Mathlib\'s real log. NOT proved, sampled with tolerance 1e-9: the floating-point value of the score (numpy log, '
    'summation order) and the float comparison observed > expected (exact for the generated counts < 1e6). The tokenisers '
    '(characters, get_line_words, str.split(\' \'), re.split), str.lower and the str predicates (isalpha, istitle, …) are '
    'parameters of the model: the driver receives their values from the running CPython. max_word_length values that are not '
    'positive multiples of the bin size make get_doc_stats raise KeyError (model and code agree; outside the statement\'s configurations, '
    'not judged by the oracle). Correspondence level: counters, tables and keyness directions are compared exactly up to '
    '(a) the side (more / less) of a token whose relative frequencies in target and reference are EXACTLY equal '
    '(t[w]*ref_total == r[w]*target_total on the integers of the case; still exactly one side, score compared), '
    '(b) the range of a line whose width lies EXACTLY on a boundary point (either of the two ranges meeting there, in '
    'categorise_line_width, the get_line_width_stats counter and the line_width_range_* columns; the order of the '
    'counter\'s keys is not compared); corpora with malformed elements and get_doc_stats calls outside the statement\'s '
    'configurations lie outside the quantifier: differences there are only recorded. '
    'Histories (wave 4; the model is pure, so the same model answer is demanded of every later look): every analyser is read '
    'again after other analysers (other corpora, the other kind, make_line_analyser + analyse_line_*) were built on the same '
    'objects, merged, added (also to itself / as operand of a second sum), fed part by part, used for keyness; a `session` '
    'family keeps 2-4 independent analysers alive and judges each against ITS OWN corpus at the first and the last look; '
    'compute_keyness / compute_complement_keyness / get_word_cat_stats / get_line_width_stats / get_doc_stats are called a '
    'second time on the same (and on a growing) argument, earlier answers are re-read, and the arguments are snapshotted '
    'before and after. '
    'Known finding: use_re_word_boundaries=True still yields empty words for runs of blanks.')
C20.assumptions = [
    'collections.Counter semantics (update, +=, __add__ keeping positive counts, missing key = 0) mirrored by hand as an '
    'association list; correspondence compares counters exactly',
    'the tokeniser of the word analyser is text_helper.get_line_words (property C17); the analyser theorems hold for every tokeniser',
    'float arithmetic of the keyness score and of the stored fractions is outside the model (compared with tolerance)',
    'merge_analysers is modelled for analysers of one token type and ignorecase setting (the TypeError branches are not modelled)',
    'pdm documents enter get_doc_stats through get_lines(), line.text, line.coords.w, doc.stats, doc.coords (C04 covers those)',
]

CHECK = C20()
