"""C14 — The line format round-trips and the line reader is source-independent."""
from __future__ import annotations

import copy
import gzip
import itertools
import os
import random
import re
import shutil
import tempfile
from typing import Any, Dict, Iterable, List, Optional

from harness.core import OUTSIDE, Case, Check, Finding, call, canon, err_name, short
from harness.guard import guarded

# The column names of the STATEMENT (document id, region id, line id, text, the three boxes): the oracle's own
# vocabulary.  They are what the oracle expects to find in the records, whatever the code says; the lists the CODE
# uses by default (writer: `headers=None`, reader: `line_file_headers=None`) are never taken from here for the
# model: the model gets `null` and uses the tables regenerated from the source (Generated/C14.lean), see
# `src_tables` / `C14.translate`.
BASE = ['doc_id', 'textregion_id', 'line_id', 'text']
BOXES = ['doc_box', 'textregion_box', 'line_box']
ALL = BASE + BOXES

TH = 'pagexml/helper/text_helper.py'
PH = 'pagexml/helper/pagexml_helper.py'
_TABLES: Dict[str, Any] = {}


def src_tables() -> Dict[str, Any]:
    """the string tables of the line format as the source states them NOW (read with `ast`, never imported):
      writer_default  make_line_format_file: `headers = [...]` under `if headers is None:`
      reader_base     LineReader._iter_from_line_file: `self.line_file_headers = [...]` in the branch
                      `elif self.line_file_headers is None:` of `if self.has_headers is True:`
      reader_box      … `self.line_file_headers.extend([...])` under `if self.add_bounding_box is True:` there
      record_keys     get_line_format_json: keys of the dict display `json_doc = {...}`
      record_box_keys … `json_doc['…'] = …` under `if add_bounding_box is True:`
      rebuild_keys / rebuild_box_keys   read_pagexml_docs_from_line_file: `line_dict['…']` read outside / inside
                      `if add_bounding_box is True:` (first occurrences, in source order)
      legacy_seps     write_pagexml_to_line_format: the literal text after each of the three fields of the
                      f-string that is written
    Unrecognised shapes raise TranslateError."""
    from harness import translate as tr
    from harness.core import REPO
    if _TABLES.get('repo') == REPO and 'tables' in _TABLES:
        return _TABLES['tables']
    E = tr.TranslateError
    t: Dict[str, Any] = {}
    # --- writer default
    t['writer_default'] = tr.the_assigned_str_list(TH, 'make_line_format_file', 'headers',
                                                   (('headers is None', 'body'),))[0]
    # --- reader defaults
    fn = 'LineReader._iter_from_line_file'
    g_base = (('self.has_headers is True', 'orelse'), ('self.line_file_headers is None', 'body'))
    base = tr.the_assigned_str_list(TH, fn, 'self.line_file_headers', g_base)
    ext = tr.method_str_list_calls(TH, fn, 'self.line_file_headers', 'extend')
    if len(ext) != 1 or ext[0][0] is None or ext[0][1] != g_base + (('self.add_bounding_box is True', 'body'),) \
            or ext[0][2] <= base[2]:
        raise E(f'{TH}:{fn}: expected `self.line_file_headers.extend([...])` once, after the default list, under '
                f'`if self.add_bounding_box is True:`; found {[(v, list(g), ln) for v, g, ln in ext]!r}')
    t['reader_base'], t['reader_box'] = base[0], ext[0][0]
    # --- record keys
    fn = 'get_line_format_json'
    keys = tr.dict_literal_keys(TH, fn, 'json_doc')
    if keys[1] != ():
        raise E(f'{TH}:{fn}: the record `json_doc = {{...}}` is built under a condition: {list(keys[1])!r}')
    stores = tr.subscript_stores(TH, fn, 'json_doc')
    for k, g, ln in stores:
        if g != (('add_bounding_box is True', 'body'),) or ln <= keys[2]:
            raise E(f'{TH}:{fn}: `json_doc[{k!r}] = …` at line {ln} is not under `if add_bounding_box is True:` '
                    f'after the record is built ({list(g)!r})')
    t['record_keys'], t['record_box_keys'] = keys[0], [k for k, _, _ in stores]
    # --- keys looked up when documents are rebuilt
    fn = 'read_pagexml_docs_from_line_file'
    plain, boxed = [], []
    for k, g, ln in tr.subscript_loads(TH, fn, 'line_dict'):
        tests = [x for x in g if x[0] == 'add_bounding_box is True']
        if any(b != 'body' for _, b in tests):
            raise E(f'{TH}:{fn}: `line_dict[{k!r}]` at line {ln} is read in the else-branch of the box test')
        (boxed if tests else plain).append(k)
    if tr.subscript_stores(TH, fn, 'line_dict'):
        raise E(f'{TH}:{fn}: `line_dict[...]` is assigned to')
    t['rebuild_keys'], t['rebuild_box_keys'] = tr.dedupe(plain), tr.dedupe(boxed)
    # --- the older three-column format: f"{doc_id}\t{line_id}\t{line_text}\n"
    fn = 'write_pagexml_to_line_format'
    parts = tr.fstring_parts(PH, fn, 'write')
    kinds = [k for k, _ in parts]
    if kinds != ['name', 'lit', 'name', 'lit', 'name', 'lit']:
        raise E(f'{PH}:{fn}: the written f-string is not three fields each followed by literal text: {parts!r}')
    import ast
    fdef = tr.find_def(tr.parse_file(PH), fn)
    loops = [n for n in ast.walk(fdef) if isinstance(n, ast.For) and isinstance(n.target, ast.Tuple)
             and all(isinstance(e, ast.Name) for e in n.target.elts)
             and isinstance(n.iter, ast.Call) and tr._callee_name(n.iter) == 'pagexml_to_line_format']
    if len(loops) != 1 or [e.id for e in loops[0].target.elts] != [v for k, v in parts if k == 'name']:
        raise E(f'{PH}:{fn}: the fields of the f-string are not the (doc id, line id, text) triple of '
                f'pagexml_to_line_format, in that order')
    t['legacy_seps'] = [v for k, v in parts if k == 'lit']
    _TABLES['repo'], _TABLES['tables'] = REPO, t
    return t


def writer_default() -> List[str]:
    """the columns `make_line_format_file(headers=None)` writes, as the source says (for choosing inputs and for the
    oracle's "columns that were written"; on an unreadable source: the statement's columns)"""
    try:
        return list(src_tables()['writer_default'])
    except Exception:
        return list(ALL)


def reader_default(bbox: bool) -> List[str]:
    """the columns a `LineReader` assumes on headerless files when no headers are supplied, as the source says"""
    try:
        t = src_tables()
        return list(t['reader_base']) + (list(t['reader_box']) if bbox else [])
    except Exception:
        return BASE + (BOXES if bbox else [])


# ------------------------------------------------------------------------------------------
# abstract documents (JSON) -> real objects
# ------------------------------------------------------------------------------------------

def _real():
    import pagexml.model.physical_document_model as pdm
    import pagexml.helper.text_helper as th
    import pagexml.helper.pagexml_helper as ph
    return pdm, th, ph


def _coords(pdm, box, shape=0):
    """a Coords object whose box is `box` (several point sets have the same box)"""
    if box is None:
        return None
    x, y, w, h = box
    if shape == 1:
        pts = [(x, y + h), (x + w, y)]
    elif shape == 2:
        pts = [(x, y), (x + w, y), (x + w // 2, y + h // 2), (x + w, y + h), (x, y + h)]
    else:
        pts = [(x, y), (x + w, y), (x + w, y + h), (x, y + h)]
    return pdm.Coords(pts)


def _mk_line(pdm, l, shape=0):
    return pdm.PageXMLTextLine(doc_id=l['id'], text=l['text'], coords=_coords(pdm, l['box'], shape))


def _mk_region(pdm, r, shape=0):
    return pdm.PageXMLTextRegion(doc_id=r['id'], coords=_coords(pdm, r['box'], shape),
                                 lines=[_mk_line(pdm, l, shape) for l in r['lines']],
                                 text_regions=[_mk_region(pdm, s, shape) for s in r['subs']])


def _mk_doc(pdm, d, shape=0):
    return pdm.PageXMLScan(doc_id=d['id'], coords=_coords(pdm, d['box']),
                           lines=[_mk_line(pdm, l, shape) for l in d['lines']],
                           text_regions=[_mk_region(pdm, s, shape) for s in d['subs']])


# ------------------------------------------------------------------------------------------
# the oracle's own reading of the statement on abstract documents (independent of the model)
# ------------------------------------------------------------------------------------------

def _all_lines(r) -> List[dict]:
    out = []
    for s in r['subs']:
        out.extend(_all_lines(s))
    return out + list(r['lines'])


def _leaves(r) -> List[dict]:
    """line-holding regions below r, in document order (each region holds lines or sub-regions)"""
    out = []
    for s in r['subs']:
        if s['subs']:
            out.extend(_leaves(s))
        elif s['lines']:
            out.append(s)
    return out


def _written_regions(d, outer: bool) -> List[dict]:
    if not d['subs']:
        return [d] if d['lines'] else []
    if outer:
        return [s for s in d['subs']]
    return _leaves(d)


def _bbox(b):
    return None if b is None else ','.join(str(v) for v in b)


def _expected_records(docs, outer: bool, bbox: bool) -> List[dict]:
    recs = []
    for d in docs:
        for tr in _written_regions(d, outer):
            for l in _all_lines(tr):
                r = {'doc_id': d['id'], 'textregion_id': tr['id'], 'line_id': l['id'], 'text': l['text']}
                if bbox:
                    r.update({'doc_box': _bbox(d['box']), 'textregion_box': _bbox(tr['box']),
                              'line_box': _bbox(l['box'])})
                recs.append(r)
    return recs


def _norm(rec: dict) -> dict:
    """missing text reads back as empty (and nothing else is identified)"""
    return {k: ('' if v is None else v) for k, v in rec.items()}


def _words(text) -> int:
    return len(text.split(' ')) if text else 0


def _in_quantifier(docs) -> Optional[str]:
    """None if the document list is one the statement quantifies over, else the reason"""
    def chk_region(r, top):
        if r['subs'] and r['lines']:
            return 'region with lines and sub-regions'
        if r['box'] is None:
            return 'element without coordinates'
        for l in r['lines']:
            if l['box'] is None:
                return 'line without coordinates'
        ids = [s['id'] for s in r['subs']]
        for s in r['subs']:
            why = chk_region(s, False)
            if why:
                return why
        return None
    for d in docs:
        why = chk_region(d, True)
        if why:
            return why
        for s in _strings(d):
            if s is not None and any(c in s for c in '\t\r\n'):
                return 'tab/CR/LF in an id or text'
    return None


def _strings(r):
    yield r['id']
    for l in r['lines']:
        yield l['id']
        yield l['text']
    for s in r['subs']:
        yield from _strings(s)


def _ids_distinct(docs, outer) -> bool:
    """document ids pairwise distinct, written region ids distinct within each document"""
    dids = [d['id'] for d in docs]
    if len(set(dids)) != len(dids):
        return False
    for d in docs:
        rids = [r['id'] for r in _written_regions(d, outer)]
        if len(set(rids)) != len(rids):
            return False
    return True


def _flat_first_line(docs, outer) -> bool:
    """a written region whose first line has a zero-width or zero-height box: the class of the
    former finding C14:flat-line-box (QhullError on the collinear corners; repaired by fc690f6)"""
    for d in docs:
        for tr in _written_regions(d, outer):
            ls = _all_lines(tr)
            if ls and ls[0]['box'] is not None and (ls[0]['box'][2] == 0 or ls[0]['box'][3] == 0):
                return True
    return False


# ------------------------------------------------------------------------------------------
# running the real code
# ------------------------------------------------------------------------------------------

def _rec_list(it) -> List[dict]:
    return [dict(r) for r in it]


def _copy_item(x):
    """a record (dict) or a group of records (list of dicts), copied as it is NOW"""
    return [dict(r) for r in x] if isinstance(x, list) else dict(x)


def _walks(mk, hist: Dict[str, List[str]], name: str) -> Dict[str, Any]:
    """(A) the reader as a USED object.  `mk()` builds the reader; the result is the first walk (each record copied
    at the moment it is yielded — the streaming view, as before).  On top of that:
      * the record OBJECTS of the first walk are kept (what `list(reader)` does) and looked at again after the walk
        and after a second walk: a record must not change once it has been handed out;
      * the SAME reader object is walked a second time, and a third time after a walk that was abandoned after
        its first item: every walk must yield the records of the first.
    Remarks go to hist[name] (empty = nothing to report); they are judged by the oracle and the comparison."""
    box: Dict[str, Any] = {}

    def first():
        rd = mk()
        box['rd'] = rd
        kept, seen = [], []
        for r in rd:
            kept.append(r)
            seen.append(_copy_item(r))
        box['kept'] = kept
        return seen
    res = call(first)
    if 'ok' not in res or 'kept' not in box:
        return res
    seen, kept, rd = res['ok'], box['kept'], box['rd']
    remarks = []
    if [_copy_item(r) for r in kept] != seen:
        remarks.append(f'records kept from the walk (list(reader)) differ from the records as they were yielded: '
                       f'{short([_copy_item(r) for r in kept], 300)} vs {short(seen, 300)}')
    second = call(lambda: [_copy_item(r) for r in rd])
    if second != {'ok': seen}:
        remarks.append(f'second walk over the same reader yields {short(second, 400)}, the first walk yielded '
                       f'{short(seen, 400)}')
    if [_copy_item(r) for r in kept] != seen and not remarks:
        remarks.append('records of the first walk changed during the second walk')
    if len(seen) >= 2 and len(seen) % 2 == 0:
        def third():
            it = iter(rd)
            next(it)                       # a walk that is abandoned after its first item
            del it
            return [_copy_item(r) for r in rd]
        t = call(third)
        if t != {'ok': seen}:
            remarks.append(f'walk after an abandoned walk yields {short(t, 400)}, the first walk yielded {short(seen, 400)}')
    if remarks:
        hist[name] = remarks
    return res


def _dump_box(c):
    return None if c is None else [c.x, c.y, c.w, c.h]


def _dump_rebuilt(doc) -> Dict[str, Any]:
    return {'id': doc.id, 'box': _dump_box(doc.coords),
            'regions': [{'id': tr.id, 'box': _dump_box(tr.coords),
                         'lines': [{'id': l.id, 'text': l.text, 'box': _dump_box(l.coords)} for l in tr.lines]}
                        for tr in doc.text_regions],
            'other_children': len(doc.lines) + len(doc.pages) + len(doc.columns) + len(doc.table_regions),
            'num_lines': doc.num_lines, 'num_words': doc.num_words}


def _read_gz(path) -> str:
    with gzip.open(path, 'rb') as fh:
        return fh.read().decode('utf-8')


def _write_gz(path, text: str):
    with gzip.open(path, 'wb') as fh:
        fh.write(text.encode('utf-8'))


def _ws(*texts) -> List[int]:
    s = {9, 10, 11, 12, 13, 32}
    for t in texts:
        if t:
            s.update(ord(c) for c in t if c.isspace())
    return sorted(s)


def _strip_header(content: str) -> str:
    i = content.find('\n')
    return content[i + 1:] if i >= 0 else ''


def _one_or_list(paths, as_str):
    return paths[0] if as_str and len(paths) == 1 else paths


# ------------------------------------------------------------------------------------------
# generators (everything derives from the rng argument)
# ------------------------------------------------------------------------------------------

SAFE = list('abcdXYZ0189') + ['-', '_', '.', 'é', 'ü', 'ß', '中', '𝔘']
ADV = SAFE + [' ', ' ', '\xa0', '\u2028', '\u2029', '\x0b', '\x0c', '\x1c', '\x1f', '\x85', '\u3000', '\\', '"', "'",
              ',', '<', '&', ';', '#']
TEXT_CORPUS = [None, '', ' ', '  ', 'a', ' a', 'a ', ' a b ', 'a  b', 'None', 'é ü', '\xa0x\xa0', 'x\x1c', '\x0bx',
               'x y', 'x\x85', '0,0,1,1', 'doc_id', '𝔘 𝔘']


def _rstr(rng, alpha, lo=1, hi=8):
    return ''.join(rng.choice(alpha) for _ in range(rng.randint(lo, hi)))


def _rtext(rng, xml_safe):
    r = rng.random()
    if r < 0.1:
        return None
    if r < 0.2:
        return ''
    if xml_safe:
        words = [_rstr(rng, SAFE, 1, 5) for _ in range(rng.randint(1, 4))]
        return ' '.join(words)
    if r < 0.4:
        return rng.choice(TEXT_CORPUS[2:])
    t = _rstr(rng, ADV, 1, 12)
    if rng.random() < 0.25:
        t = ' ' * rng.randint(1, 2) + t
    if rng.random() < 0.25:
        t = t + ' ' * rng.randint(1, 2)
    return t


def _rbox(rng, flat=False, neg=False):
    mag = rng.choice([50, 2000, 2000, 10 ** 6])
    x, y = rng.randint(-mag if neg else 0, mag), rng.randint(-mag if neg else 0, mag)
    w, h = rng.randint(1, max(1, mag // 4)), rng.randint(1, max(1, mag // 8))
    if flat:
        if rng.random() < 0.5:
            w = 0
        else:
            h = 0
        if rng.random() < 0.2:
            w = h = 0
    return [x, y, w, h]


class _Ids:
    def __init__(self, rng, xml_safe):
        self.rng, self.xml_safe, self.n = rng, xml_safe, 0

    def new(self, prefix):
        self.n += 1
        rng = self.rng
        if self.xml_safe:
            return f'{prefix}{self.n}' + (_rstr(rng, SAFE, 0, 3) if rng.random() < 0.5 else '')
        r = rng.random()
        if r < 0.5:
            return f'{prefix}{self.n}'
        if r < 0.7:
            return f' {prefix} {self.n} '
        return _rstr(rng, ADV, 0, 4) + f'{self.n}' + _rstr(rng, ADV, 0, 3)


def _gen_line(rng, ids, xml_safe, flat_p, neg):
    return {'id': ids.new('l'), 'text': _rtext(rng, xml_safe), 'box': _rbox(rng, rng.random() < flat_p, neg)}


def _gen_region(rng, ids, xml_safe, depth, flat_p, neg):
    r = {'id': ids.new('r'), 'box': _rbox(rng, False, neg), 'lines': [], 'subs': []}
    if depth < 3 and rng.random() < 0.3:
        r['subs'] = [_gen_region(rng, ids, xml_safe, depth + 1, flat_p, neg) for _ in range(rng.randint(1, 3))]
    else:
        n = rng.choice([0, 1, 1, 2, 2, 3, 5])
        r['lines'] = [_gen_line(rng, ids, xml_safe, flat_p, neg) for _ in range(n)]
    return r


def _gen_doc(rng, ids, xml_safe, box, flat_p, neg, doc_ids=None):
    d = {'id': (doc_ids or ids).new('scan') + ('.jpg' if xml_safe else ''), 'box': box, 'lines': [], 'subs': []}
    if not xml_safe and rng.random() < 0.12:
        d['lines'] = [_gen_line(rng, ids, xml_safe, flat_p, neg) for _ in range(rng.randint(0, 3))]
    else:
        d['subs'] = [_gen_region(rng, ids, xml_safe, 1, flat_p, neg) for _ in range(rng.choice([0, 1, 1, 2, 2, 3, 4]))]
    return d


def _gen_docs(rng, xml_safe, flat_p=0.0, ndocs=None):
    ids = _Ids(rng, xml_safe)
    n = ndocs if ndocs is not None else rng.choice([1, 1, 2, 2, 3, 4])
    neg = (not xml_safe) and rng.random() < 0.2
    if xml_safe:
        boxes = [[0, 0, rng.randint(1, 3000), rng.randint(1, 4000)] for _ in range(n)]
    elif rng.random() < 0.7:
        b = _rbox(rng, False, neg)
        boxes = [list(b) for _ in range(n)]
    else:
        boxes = [_rbox(rng, False, neg) for _ in range(n)]
    if rng.random() < 0.4:
        # region and line ids unique within a document only (r1, r2, … on every page, as layout tools number them)
        return [_gen_doc(rng, _Ids(rng, True), xml_safe, boxes[i], flat_p, neg, doc_ids=ids) for i in range(n)]
    return [_gen_doc(rng, ids, xml_safe, boxes[i], flat_p, neg) for i in range(n)]


def _split(rng, n):
    if n == 0 or rng.random() < 0.5:
        return None
    parts, left = [], n
    while left > 0:
        k = rng.randint(0, left) if rng.random() < 0.2 else rng.randint(1, left)
        parts.append(k)
        left -= k
    if rng.random() < 0.15:
        parts.append(0)
    return parts


def _valid_config(rng, docs, xml_safe) -> Dict[str, Any]:
    bbox = rng.random() < 0.6
    full = BASE + (BOXES if bbox else [])
    r = rng.random()
    if r < 0.35:
        headers = None if bbox else list(full)
    elif r < 0.7:
        headers = list(full)
        rng.shuffle(headers)
    else:
        headers = rng.sample(full, rng.randint(1, len(full)))
    # `headers=None`: the writer's own default applies (never copied for the model); the harness only needs to
    # know what the source says it is in order to choose a matching way of reading the files back
    hs = headers if headers is not None else writer_default()
    modes = ['has_headers', 'explicit']
    # headerless files read with the reader's default columns: the columns have to be written in the reader's
    # default order (as the source states it); what the writer writes by default (with boxes) must always qualify
    if hs == reader_default(bbox) or headers is None:
        modes.append('default')
    inp = {'docs': docs, 'outer': rng.random() < 0.4, 'bbox': bbox, 'headers': headers,
           'read_mode': rng.choice(modes), 'split': _split(rng, len(docs)),
           'groupby': rng.choice([None] + [h for h in ('doc_id', 'textregion_id') if h in hs]),
           'files_route': xml_safe, 'shape': rng.choice([0, 0, 1, 2]),
           'as_str': rng.random() < 0.2, 'rebuild': bbox and (headers is None or sorted(hs) == sorted(ALL))}
    if inp['read_mode'] == 'explicit':
        inp['explicit_has_headers_flag'] = rng.random() < 0.5
    # a file written WITH the box columns read WITHOUT them ("with or without bounding-box columns"): headerless
    # file in the writer's default layout, reader told about the four leading columns only (its own default list
    # with add_bounding_box=False, or that list supplied explicitly)
    if bbox and hs == ALL and inp['read_mode'] != 'has_headers' and rng.random() < 0.5:
        inp['narrow_read'] = True
        inp['rebuild'] = False
    return inp


def _rt_outside(inp) -> Optional[str]:
    """None if the round-trip input (documents + configuration) is one the statement quantifies over, else the reason.
    Quantifier of C14 (properties.jsonl): "all lists of documents with nested regions (each region holding either lines
    or sub-regions ...), all lines having coordinates, and ids and text free of tab, carriage-return and newline
    characters ...; bounding-box columns on/off for the record stream (always on when documents are rebuilt); default
    and explicit column headers; outer/inner region ids; several line files; header modes; group-by modes".  Outside:
    a region with lines AND sub-regions, an element without coordinates (statement: "documents with their bounding
    boxes"), a tab / CR / LF in an id or a text, and the misconfigurations (a header that is no column of the records,
    box columns without boxes, rebuilding without box columns or from a subset of the columns, headerless files read
    with default columns they were not written in, grouping by a column that is not written).  Repeated ids are NOT
    excluded by the statement: they are inside (compared exactly), only not judged by the oracle."""
    why = _in_quantifier(inp['docs'])
    if why is not None:
        return why
    return None if _cfg_ok(inp) else 'misconfiguration'


def _cfg_ok(inp) -> bool:
    full = BASE + (BOXES if inp['bbox'] else [])
    explicit = inp.get('headers')
    hs = explicit if explicit is not None else writer_default()
    # the columns: an explicit list has to be a non-empty duplicate-free list of columns the records have; the
    # writer's own default (`headers=None`) is within the statement whenever the box columns are on, whatever it is
    cols_ok = (inp['bbox'] if explicit is None
               else len(hs) > 0 and len(set(hs)) == len(hs) and all(h in full for h in hs))
    if inp.get('narrow_read') and not (inp['bbox'] and hs == ALL and inp.get('read_mode') in ('explicit', 'default')
                                       and not inp.get('rebuild') and reader_default(False) == BASE):
        return False
    return bool(cols_ok
                and (inp.get('read_mode') != 'default' or explicit is None or hs == reader_default(inp['bbox']))
                and inp.get('rebuild_bbox', True)
                and (not inp.get('rebuild') or explicit is None or sorted(hs) == sorted(ALL))
                and (not inp.get('groupby') or inp['groupby'] in hs))


def _tags_rt(inp) -> List[str]:
    docs = inp['docs']
    why = _in_quantifier(docs)
    tags = []
    cfg_ok = _cfg_ok(inp)
    if why is None and cfg_ok and _ids_distinct(docs, inp['outer']) and _ids_distinct(docs, not inp['outer']):
        tags.append('valid')
    elif why is None and cfg_ok:
        # inside the quantifier (the statement does not exclude repeated ids): model and code are compared exactly;
        # the oracle stays silent because its expected values identify documents and regions by their ids
        tags.append('ids-repeat')
    else:
        # outside the quantifier (see _rt_outside): the model mirrors the code, a difference is only recorded, the
        # oracle does not judge the case.  In particular "ids and text free of tab, carriage-return and newline
        # characters": what the writer does with such a character is not the statement's business
        tags.append(OUTSIDE)
        tags.append('outside:' + (why or 'misconfiguration'))
    if inp.get('rebuild') and _flat_first_line(docs, inp['outer']):
        tags.append('flat-first-line')
    tags.append('mode:' + inp.get('read_mode', 'has_headers'))
    if inp.get('narrow_read'):
        tags.append('narrow-read')
    tags.append('bbox' if inp['bbox'] else 'nobbox')
    tags.append('outer' if inp['outer'] else 'inner')
    if inp.get('groupby'):
        tags.append('groupby:' + inp['groupby'])
    if inp.get('files_route'):
        tags.append('files-route')
    if inp.get('split') and len(inp['split']) > 1:
        tags.append('several-files')
    if any(r['subs'] for d in docs for r in d['subs']):
        tags.append('nested')
    if any(l['text'] is None for d in docs for l in _all_lines(d)):
        tags.append('text:None')
    if any(l['text'] == '' for d in docs for l in _all_lines(d)):
        tags.append('text:empty')
    if any(l['text'] and l['text'] != l['text'].strip() for d in docs for l in _all_lines(d)):
        tags.append('text:edge-space')
    if any(l['text'] and not l['text'].isascii() for d in docs for l in _all_lines(d)):
        tags.append('text:non-ascii')
    return tags


def _xml_safe(docs) -> bool:
    """documents that survive the XML round trip unchanged (xmltodict strips edge whitespace of
    text; a scan exports its regions only; the parsed scan box starts at the origin)"""
    for d in docs:
        if d['lines'] or d['box'] is None or d['box'][:2] != [0, 0] or d['box'][2] < 1 or d['box'][3] < 1:
            return False
        for s in _strings(d):
            if s is not None and (s != s.strip() or any(ord(c) < 32 or c in '\x85\u2028\u2029' for c in s)):
                return False
        for r in _walk(d):
            if r['box'] is None or any(l['box'] is None for l in r['lines']) or r['id'] == '':
                return False
            if any(l['id'] == '' for l in r['lines']):
                return False
    return True


def _rt(inp, extra=()) -> Case:
    if inp.get('files_route') and not _xml_safe(inp['docs']):
        inp = dict(inp, files_route=False)
    return Case('rt', inp, list(extra) + _tags_rt(inp))


def _L(i, text, box=None):
    return {'id': i, 'text': text, 'box': box or [1, 2, 30, 10]}


def _R(i, lines=(), subs=(), box=None):
    return {'id': i, 'box': box or [0, 0, 40, 60], 'lines': list(lines), 'subs': list(subs)}


def _D(i, subs=(), lines=(), box=None):
    return {'id': i, 'box': box or [0, 0, 100, 100], 'lines': list(lines), 'subs': list(subs)}


def _corpus() -> List[Case]:
    out = []
    nested = _D('scan1.jpg', subs=[
        _R('r1', subs=[_R('r1a', [_L('l1', 'a b'), _L('l2', None, [1, 20, 30, 10])]),
                       _R('r1b', [_L('l3', '', [1, 40, 30, 10])])]),
        _R('r2', [_L('l4', 'é ü', [50, 2, 30, 10])]), _R('r3')])
    second = _D('scan2.jpg', subs=[_R('r2', [_L('l1', 'x y z'), _L('m2', 'w')])])   # ids repeat across documents
    edge = _D('d e', subs=[_R(' r ', [_L(' l1', ' a b '), _L('l2 ', '  '), _L('l3', 'x\x1c'), _L('l4', '\xa0')])])
    for bbox in (True, False):
        full = BASE + (BOXES if bbox else [])
        for outer in (False, True):
            for mode in ('has_headers', 'explicit', 'default'):
                for g in (None, 'doc_id', 'textregion_id'):
                    # past failures: in-memory route (92afc65), explicit headers (9041466)
                    out.append(_rt({'docs': [nested, second], 'outer': outer, 'bbox': bbox,
                                    'headers': reader_default(bbox) if mode == 'default' else list(full),
                                    'read_mode': mode, 'split': [1, 1] if mode != 'default' else None, 'groupby': g,
                                    'files_route': True, 'rebuild': bbox}, ['corpus']))
            out.append(_rt({'docs': [edge], 'outer': outer, 'bbox': bbox, 'headers': list(reversed(full)),
                            'read_mode': 'has_headers', 'groupby': 'textregion_id', 'rebuild': bbox}, ['corpus']))
    # the defaults of the code on both sides (`headers=None` for the writer; header line / the same list passed
    # explicitly / nothing at all for the reader): the model gets `null` and uses the regenerated tables
    for outer in (False, True):
        for mode in ('has_headers', 'explicit', 'default'):
            out.append(_rt({'docs': [nested, second], 'outer': outer, 'bbox': True, 'headers': None, 'read_mode': mode,
                            'split': [1, 1], 'groupby': 'doc_id' if outer else None, 'rebuild': True},
                           ['corpus', 'code-defaults']))
        # a file with the box columns read without them (reader's default columns / the four supplied explicitly)
        for mode in ('explicit', 'default'):
            out.append(_rt({'docs': [nested, second], 'outer': outer, 'bbox': True, 'headers': None, 'read_mode': mode,
                            'narrow_read': True, 'groupby': 'textregion_id' if outer else None, 'rebuild': False},
                           ['corpus', 'code-defaults']))
    # regression (C14:flat-line-box, fixed by fc690f6): first line of a region with a flat box
    flat = _D('f', subs=[_R('r', [_L('l1', 'x', [1, 2, 29, 0])])])
    out.append(_rt({'docs': [flat], 'outer': False, 'bbox': True, 'headers': None, 'read_mode': 'has_headers',
                    'rebuild': True}, ['corpus']))
    flat2 = _D('f', subs=[_R('r', [_L('l1', 'x', [1, 2, 29, 5]), _L('l2', 'y', [1, 9, 0, 0])])])
    out.append(_rt({'docs': [flat2], 'outer': False, 'bbox': True, 'headers': None, 'read_mode': 'has_headers',
                    'rebuild': True}, ['corpus']))
    return out


SHAPES = ['L0', 'L1', 'L2', 'N(L1)', 'N(L1,L1)', 'N(L0,L2)', 'N(N(L1),L1)']


def _shape_region(spec, ctr, texts):
    def nxt(p):
        ctr[0] += 1
        return f'{p}{ctr[0]}'
    if spec.startswith('L'):
        n = int(spec[1:])
        return _R(nxt('r'), [_L(nxt('l'), texts[(ctr[0] + i) % len(texts)], [3 * ctr[0], 5 + i, 20 + i, 7]) for i in range(n)])
    inner, depth, cur, parts = spec[2:-1], 0, '', []
    for ch in inner:
        if ch == ',' and depth == 0:
            parts.append(cur)
            cur = ''
            continue
        depth += ch == '('
        depth -= ch == ')'
        cur += ch
    parts.append(cur)
    return _R(nxt('r'), subs=[_shape_region(p, ctr, texts) for p in parts])


def _enumeration(tier) -> List[Case]:
    out = []
    texts = [None, '', ' a', 'b ', 'c  d', 'é']
    combos = [()] + [(s,) for s in SHAPES] + list(itertools.product(SHAPES, repeat=2))
    modes = ['has_headers', 'explicit', 'default']
    for ci, combo in enumerate(combos):
        for outer in (False, True):
            for bbox in (False, True):
                ctr = [0]
                d = _D('scan.jpg', subs=[_shape_region(s, ctr, texts) for s in combo])
                d2 = _D('scan2.jpg', subs=[_R('zr', [_L('zl', 'z')])])
                full = BASE + (BOXES if bbox else [])
                use = modes if tier != 'quick' else [modes[(ci + outer + 2 * bbox) % 3]]
                for mode in use:
                    out.append(_rt({'docs': [d, d2], 'outer': outer, 'bbox': bbox,
                                    'headers': reader_default(bbox) if mode == 'default' else list(full),
                                    'read_mode': mode, 'groupby': ['doc_id', 'textregion_id', None][ci % 3],
                                    'files_route': tier != 'quick' or ci % 4 == 0, 'rebuild': bbox,
                                    'split': [1, 1] if ci % 2 else None}, ['enum']))
    # a document that holds its lines directly, and every single-line text with the text column last
    for outer in (False, True):
        for bbox in (False, True):
            full = BASE + (BOXES if bbox else [])
            d = _D('direct', lines=[_L('l1', 'a'), _L('l2', None)])
            out.append(_rt({'docs': [d], 'outer': outer, 'bbox': bbox, 'headers': list(full),
                            'read_mode': 'has_headers', 'rebuild': bbox}, ['enum']))
    for t in TEXT_CORPUS:
        for first in ('text', 'doc_id'):
            for last in ('text', 'line_id'):
                if first == last:
                    continue
                hs = [first] + [h for h in BASE if h not in (first, last)] + [last]
                d = _D('d', subs=[_R('r', [_L('l', t)])])
                out.append(_rt({'docs': [d], 'outer': False, 'bbox': False, 'headers': hs,
                                'read_mode': 'has_headers' if last == 'text' else 'explicit'}, ['enum']))
    return out


def _mutate_outside(rng, inp) -> Dict[str, Any]:
    """push a valid input out of the quantifier / into a misconfiguration (model mirrors, oracle silent)"""
    inp = copy.deepcopy(inp)
    docs = inp['docs']
    regions = [r for d in docs for r in _walk(d)]
    lines = [l for d in docs for l in _all_lines(d)]
    k = rng.choice(['mixed', 'nobox-region', 'nobox-line', 'nobox-doc', 'dup-region', 'dup-doc', 'bad-header',
                    'box-header-nobbox', 'rebuild-nobbox', 'default-mismatch', 'tab-in-text', 'cr-in-text',
                    'nl-in-text', 'partial-rebuild'])
    if k == 'mixed' and regions:
        r = rng.choice(regions)
        r['lines'] = r['lines'] + [{'id': 'mx1', 'text': 'mixed', 'box': [1, 1, 5, 5]}]
        r['subs'] = r['subs'] + [_R('mxr', [_L('mx2', 'sub')])]
    elif k == 'nobox-region' and regions:
        rng.choice(regions)['box'] = None
    elif k == 'nobox-line' and lines:
        rng.choice(lines)['box'] = None
    elif k == 'nobox-doc':
        rng.choice(docs)['box'] = None
        inp['files_route'] = False
    elif k == 'dup-region' and len(regions) >= 2:
        a, b = rng.sample(regions, 2)
        b['id'] = a['id']
    elif k == 'dup-doc' and len(docs) >= 2:
        docs[1]['id'] = docs[0]['id']
    elif k == 'bad-header':
        inp['headers'] = (inp['headers'] or list(ALL)) + ['foo']
        inp['rebuild'] = False
    elif k == 'box-header-nobbox':
        inp['bbox'] = False
        inp['headers'] = None if rng.random() < 0.5 else BASE + ['line_box']
        inp['rebuild'] = False
    elif k == 'rebuild-nobbox':
        inp['rebuild'] = True
        inp['rebuild_bbox'] = False
    elif k == 'default-mismatch':
        inp['read_mode'] = 'default'
        inp['rebuild'] = rng.random() < 0.5
    elif k == 'partial-rebuild':
        inp['headers'] = rng.sample(ALL, rng.randint(1, 6))
        inp['bbox'] = True
        inp['rebuild'] = True
        inp['groupby'] = None
    elif k in ('tab-in-text', 'cr-in-text', 'nl-in-text') and lines:
        ch = {'tab-in-text': '\t', 'cr-in-text': '\r', 'nl-in-text': '\n'}[k]
        l = rng.choice(lines)
        pos = rng.choice(['mid', 'end', 'start'])
        t = l['text'] or 'x'
        l['text'] = {'mid': t[:1] + ch + t[1:], 'end': t + ch, 'start': ch + t}[pos]
        inp['files_route'] = False
    if any(d['box'] is None or d['box'][:2] != [0, 0] or d['lines'] for d in docs):
        inp['files_route'] = False
    if k in ('mixed', 'nobox-region', 'nobox-line', 'dup-region', 'dup-doc'):
        inp['files_route'] = False
    return inp


def _walk(r):
    for s in r['subs']:
        yield s
        yield from _walk(s)


BOX_CORPUS = ['0,0,0,0', '1,2,3,4', '-1,-2,3,4', '1,2,-3,4', '1,2,3,-4', ' 1, 2,3 ,4', '1_0,2,3,4', '+1,2,3,4', '1,2,3',
              '1,2,3,4,5', '', ',,,', 'a,b,c,d', '1.0,2,3,4', '1,2,3,4 ', '1,2,3,4\n', '1;2;3;4', '١,2,3,4'[1:],
              '10000000000000000000000,1,2,3', '0x1,2,3,4', '1,,3,4', '-0,0,0,0', '1,2,3,4,', 'None']


def _raw_cases(rng, n) -> List[Case]:
    out = []

    def row(nf=None, boxes=True):
        nf = nf if nf is not None else (7 if boxes else 4)
        cells = []
        for i in range(nf):
            if boxes and i >= 4 and rng.random() < 0.85:
                cells.append(','.join(str(v) for v in _rbox(rng, rng.random() < 0.1)) if rng.random() < 0.85
                             else rng.choice([b for b in BOX_CORPUS if len(b) < 20]))
            elif i < 3:
                cells.append(rng.choice(['d1', 'd1', 'd2', 'r1', 'r1', 'r2', 'l1', '', ' x ', 'é']))
            else:
                cells.append(rng.choice(['some text', '', ' ', ' a ', 'a\rb', 'x\x1c', 'None', '\xa0']))
        return cells

    for _ in range(n):
        bbox = rng.random() < 0.6
        hdr_names = BASE + (BOXES if bbox else [])
        if rng.random() < 0.3:
            hdr_names = rng.sample(ALL, rng.randint(1, 7))
        files = []
        has_headers = rng.random() < 0.6
        for fi in range(rng.choice([1, 1, 2, 3])):
            lines = []
            if has_headers and rng.random() < 0.9:
                h = '\t'.join(hdr_names)
                if rng.random() < 0.2:
                    h = rng.choice([' ', '\t', '\xa0', '']) + h + rng.choice([' ', '\t', '\x1c', ''])
                lines.append(h)
            for _ in range(rng.choice([0, 1, 2, 3, 5])):
                nf = len(hdr_names) if rng.random() < 0.8 else rng.randint(0, 8)
                lines.append('\t'.join(row(nf, bbox)))
            if rng.random() < 0.1:
                lines.insert(rng.randint(0, len(lines)), '')
            eol = rng.choice(['\n', '\n', '\n', '\r\n', '\r'])
            text = eol.join(lines) + (eol if lines and rng.random() < 0.85 else '')
            files.append(text)
        headers = None
        if not has_headers and rng.random() < 0.6:
            headers = list(hdr_names)
        elif has_headers and rng.random() < 0.15:
            headers = list(hdr_names)
        g = rng.choice([None, None, 'doc_id', 'textregion_id', 'text', 'nope'])
        out.append(Case('raw', {'files': files, 'has_headers': has_headers, 'headers': headers, 'bbox': bbox,
                                'groupby': g, 'rebuild': rng.random() < 0.6}, ['raw-file']))
    return out


def _raw_corpus() -> List[Case]:
    H7 = '\t'.join(ALL)
    H4 = '\t'.join(BASE)
    good = 'd1\tr1\tl1\thello world\t0,0,10,10\t1,1,5,5\t2,2,3,3\n'
    items = [
        ([H7 + '\n' + good], True, None, True),
        ([], True, None, True),                         # no file at all: nothing is read
        ([''], True, None, True),                       # empty file, header expected: RuntimeError
        ([H7 + '\n' + good, ''], True, None, True),     # second file empty: next(fh) -> RuntimeError
        ([H7 + '\n' + good, H7 + '\n' + good.replace('l1', 'l2')], True, None, True),
        ([H7 + '\n' + good, good.replace('l1', 'l2')], True, None, True),      # second file headerless: a row is eaten
        ([good], False, None, True),
        ([good], False, None, False),                   # default headers without box columns
        ([good], False, ALL, True),
        ([H7 + '\n' + good], True, ALL, True),          # explicit headers on a file with a header line
        ([H4 + '\nd\tr\tl\t\n'], True, None, False),
        ([H4 + '\nd\tr\tl\n'], True, None, False),      # a column short: IndexError
        ([H4 + '\nd\tr\tl\tt\textra\n'], True, None, False),
        ([H4 + '\n\n'], True, None, False),
        ([H4 + '\nd\tr\tl\tt'], True, None, False),     # no final newline
        ([H4 + '\r\nd\tr\tl\tt\r\n'], True, None, False),
        ([H4 + '\nd\tr\tl\ta\rb\n'], True, None, False),   # a CR inside a text: universal newlines split the row
        ([' ' + H4 + ' \n d\tr\tl\t t \n'], True, None, False),
        ([H7 + '\nd1\tr1\tl1\tt\t0,0,10,10\t1,1,5,5\t2,2,0,3\n'], True, None, True),   # flat line box
        ([H7 + '\nd1\tr1\tl1\tt\t0,0,10,10\t1,1,5,5\t2,2,3\n'], True, None, True),
        ([H7 + '\nd1\tr1\tl1\tt\t0,0,10,10\t\t2,2,3,3\n'], True, None, True),
        ([H7 + '\nd1\tr1\tl1\tt\t0,0,-10,10\t1,1,5,5\t2,2,-3,3\n'], True, None, True),
        ([H7 + '\nd1\tr1\tl1\ta\t0,0,10,10\t1,1,5,5\t2,2,3,3\nd1\tr2\tl2\tb\t9,9,9,9\t1,1,5,5\t4,4,3,3\n'
          'd2\tr2\tl3\tc d\t0,0,7,7\t1,1,5,5\t2,2,3,3\nd1\tr1\tl4\t\t0,0,10,10\t1,1,5,5\t2,2,3,3\n'], True, None, True),
    ]
    out = []
    for files, hh, hs, bbox in items:
        for g in (None, 'doc_id'):
            out.append(Case('raw', {'files': files, 'has_headers': hh, 'headers': list(hs) if hs else None,
                                    'bbox': bbox, 'groupby': g, 'rebuild': True}, ['raw-file', 'corpus']))
    return out


def _box_cases(rng, n) -> List[Case]:
    out = [Case('box', {'s': s}, ['box-string', 'corpus']) for s in BOX_CORPUS]
    for pts in ([[0, 0]], [[5, 7], [5, 7]], [[3, 1], [1, 3], [2, 2]], [[-4, 10 ** 30], [4, -10 ** 30]], [[1, 2], [30, 2]]):
        out.append(Case('box', {'points': pts}, ['box-roundtrip', 'corpus']))
    for _ in range(n):
        mag = rng.choice([5, 100, 10 ** 4, 10 ** 9, 10 ** 20])
        pts = [[rng.randint(-mag, mag), rng.randint(-mag, mag)] for _ in range(rng.randint(1, 6))]
        out.append(Case('box', {'points': pts}, ['box-roundtrip']))
    for _ in range(n // 2):
        parts = []
        for _ in range(rng.choice([4, 4, 4, 3, 5])):
            v = str(rng.randint(-10 ** rng.choice([1, 4, 25]), 10 ** rng.choice([1, 4, 25])))
            if rng.random() < 0.15:
                v = rng.choice([' ' + v, v + ' ', '+' + v.lstrip('-'), v + '_0', '', 'x', v + '.0', '\t' + v])
            parts.append(v)
        out.append(Case('box', {'s': rng.choice([',', ',', ',', ', ', ';']).join(parts)}, ['box-string']))
    return out


def _legacy_cases(rng, n) -> List[Case]:
    out = []
    for i in range(n):
        valid = i % 2 == 0
        docs = _gen_docs(rng, True, 0.0)
        if valid:
            for d in docs:
                for l in _all_lines(d):
                    if not l['text']:
                        l['text'] = 'w' + str(rng.randint(0, 99))
            inp = {'docs': docs, 'headers': ['doc_id', 'line_id', 'text'], 'has_header': False,
                   'split': _split(rng, len(docs)), 'as_str': rng.random() < 0.2}
            out.append(Case('legacy', inp, ['legacy', 'valid']))
        else:
            docs = _gen_docs(rng, False, 0.0)
            inp = {'docs': docs, 'headers': rng.choice([None, ['doc_id', 'line_id', 'text'], ['a', 'b'], ['a', 'b', 'c', 'd']]),
                   'has_header': rng.random() < 0.3, 'split': _split(rng, len(docs))}
            out.append(Case('legacy', inp, ['legacy']))
    return out


# what the writer produces for a box: str(int) of x, y and of a non-negative w, h
_BOX_WRITTEN = re.compile(r'(?:0|-?[1-9][0-9]*),(?:0|-?[1-9][0-9]*),(?:0|[1-9][0-9]*),(?:0|[1-9][0-9]*)')


def _raw_outside(inp) -> Optional[str]:
    """hand-written line files: None if they are line-format files as the writer produces them, read in a
    configuration of the quantifier; else the reason.  The statement speaks of files WRITTEN from documents ("writing
    documents ... to the tab-separated line format and reading them back", "fed ... a line-format file"); what the
    reader does with anything else (short or long rows, a missing or padded header line, bare CR line ends or a CR in
    a value, a missing final newline, box fields that are no boxes, grouping by another column, rebuilding without
    all seven columns) is not stated — not even that it is rejected — so such files are outside the quantifier."""
    files, explicit, hh, bbox = inp['files'], inp.get('headers'), inp['has_headers'], inp['bbox']
    if not files:
        return 'no line file'
    cols = list(explicit) if explicit is not None else None if hh else reader_default(bbox)
    rows = []
    for f in files:
        # CRLF line ends are what the writer's text mode produces where os.linesep is CRLF; any other CR is a CR inside a
        # value ("ids and text free of tab, carriage-return and newline characters") or a line end no writer produces
        f = f.replace('\r\n', '\n')
        if '\r' in f:
            return 'CR in a line file'
        if f and not f.endswith('\n'):
            return 'no final newline'
        lines = f[:-1].split('\n') if f else []
        if explicit is None and hh:
            if not lines:
                return 'header line missing'
            if cols is None:
                cols = lines[0].split('\t')
            if lines[0] != '\t'.join(cols):
                return 'header lines differ'
            lines = lines[1:]
        rows.extend(lines)
    if not cols or len(set(cols)) != len(cols) or any(c not in ALL for c in cols):
        return 'columns that are not (distinct) columns of the line format'
    for r in rows:
        fields = r.split('\t')
        if len(fields) != len(cols):
            return 'row with another number of columns'
        if any(c in BOXES and not _BOX_WRITTEN.fullmatch(v) for c, v in zip(cols, fields)):
            return 'box field that is no written box'
    g = inp.get('groupby')
    if g and (g not in ('doc_id', 'textregion_id') or g not in cols):   # "grouping by document or region"
        return 'grouping by a column that is no document or region id of the file'
    if inp.get('rebuild') and not (bbox and all(c in cols for c in ALL)):   # "(always on when documents are rebuilt)"
        return 'rebuilding without all seven columns'
    return None


def _box_outside(inp) -> Optional[str]:
    """a box string handed to the box reader: inside iff it is what the writer produces for some coordinates"""
    if 'points' in inp or _BOX_WRITTEN.fullmatch(inp['s']):
        return None
    return 'no box string the writer produces'


def _legacy_outside(inp) -> Optional[str]:
    """the older three-column format: the writer writes no header line and three columns, so reading with a header
    line expected (has_header, or no header list at all: the first record is then consumed as header) or with a list
    that does not name three columns is a misconfiguration; tab / CR / LF in ids or text as for the main format"""
    hs = inp.get('headers')
    if inp.get('has_header') or hs is None:
        return 'a header line is expected in a format that has none'
    if len(hs) != 3 or len(set(hs)) != 3:
        return 'header list that does not name the three columns'
    for d in inp['docs']:
        for x in _strings(d):
            if x is not None and any(c in x for c in '\t\r\n'):
                return 'tab/CR/LF in an id or text'
    return None


def outside_quantifier(kind: str, inp) -> Optional[str]:
    """None if the case input lies inside the quantifier of the statement, else the reason (computed from the input
    itself, never from the stream that generated it)"""
    if kind == 'rt':
        return _rt_outside(inp)
    if kind == 'raw':
        return _raw_outside(inp)
    if kind == 'box':
        return _box_outside(inp)
    if kind == 'legacy':
        return _legacy_outside(inp)
    return None


def gen_cases(rng: random.Random, tier: str) -> List[Case]:
    out = _gen_cases(rng, tier)
    for c in out:
        # cases outside the quantifier carry core.OUTSIDE: model and code are still compared on them, a difference is
        # recorded in the evidence and breaks nothing, and the oracle does not judge them (`oracle` asks
        # outside_quantifier itself).  (round-trip cases got the tag in _tags_rt)
        if OUTSIDE not in c.tags and outside_quantifier(c.kind, c.input) is not None:
            c.tags.append(OUTSIDE)
    return out


def _gen_cases(rng: random.Random, tier: str) -> List[Case]:
    quick = tier == 'quick'
    out: List[Case] = []
    out += _corpus()
    out += _raw_corpus()
    out += _enumeration(tier)
    n_rt = 900 if quick else 6000
    for i in range(n_rt):
        xml_safe = rng.random() < (0.3 if quick else 0.35)
        flat_p = 0.08 if rng.random() < 0.15 else 0.0
        docs = _gen_docs(rng, xml_safe, flat_p)
        inp = _valid_config(rng, docs, xml_safe)
        out.append(_rt(inp, ['random']))
        if i % 4 == 0:
            out.append(_rt(_mutate_outside(rng, inp), ['random', 'mutated']))
    out += _raw_cases(rng, 600 if quick else 5000)
    out += _box_cases(rng, 300 if quick else 3000)
    out += _legacy_cases(rng, 150 if quick else 1000)
    return out


def shrink(case: Case):
    inp = case.input
    if case.kind in ('rt', 'legacy'):
        docs = inp['docs']

        def with_docs(nd, **kw):
            new = dict(inp, docs=nd, **kw)
            if 'split' in new and new['split'] and sum(new['split']) != len(nd):
                new['split'] = None
            return Case(case.kind, new, [t for t in case.tags])
        for i in range(len(docs)):
            if len(docs) > 1:
                yield with_docs(docs[:i] + docs[i + 1:])
        for key, val in (('split', None), ('groupby', None), ('files_route', False), ('as_str', False), ('shape', 0)):
            if inp.get(key):
                yield Case(case.kind, dict(inp, **{key: val}), list(case.tags))
        for di, d in enumerate(docs):
            for path in _paths(d):
                nd = copy.deepcopy(d)
                node = nd
                for p in path[:-1]:
                    node = node['subs'][p]
                kind, idx = path[-1]
                del node[kind][idx]
                yield with_docs(docs[:di] + [nd] + docs[di + 1:])
        for di, d in enumerate(docs):
            for li, l in enumerate(_all_lines(d)):
                t = l['text']
                if t and len(t) > 1:
                    for cut in (t[1:], t[:-1]):
                        nd = copy.deepcopy(d)
                        _all_lines(nd)[li]['text'] = cut
                        yield with_docs(docs[:di] + [nd] + docs[di + 1:])
    elif case.kind == 'raw':
        files = inp['files']
        for i in range(len(files)):
            if len(files) > 1:
                yield Case('raw', dict(inp, files=files[:i] + files[i + 1:]), list(case.tags))
        for i, f in enumerate(files):
            ls = f.split('\n')
            for j in range(len(ls)):
                if len(ls) > 1:
                    yield Case('raw', dict(inp, files=files[:i] + ['\n'.join(ls[:j] + ls[j + 1:])] + files[i + 1:]),
                               list(case.tags))
        for key in ('groupby', 'rebuild'):
            if inp.get(key):
                yield Case('raw', dict(inp, **{key: None}), list(case.tags))
    elif case.kind == 'box':
        if 'points' in inp:
            pts = inp['points']
            for i in range(len(pts)):
                if len(pts) > 1:
                    yield Case('box', {'points': pts[:i] + pts[i + 1:]}, list(case.tags))
        else:
            s = inp['s']
            for i in range(len(s)):
                yield Case('box', {'s': s[:i] + s[i + 1:]}, list(case.tags))


def _paths(r, prefix=()):
    """paths to removable nodes: (..sub indexes.., ('lines'|'subs', index))"""
    for i in range(len(r['lines'])):
        yield prefix + (('lines', i),)
    for i, s in enumerate(r['subs']):
        yield prefix + (('subs', i),)
        yield from _paths(s, prefix + (i,))


@guarded
class C14(Check):
    pid = 'C14'
    props_module = 'PagexmlModel.Props.C14'
    anchors = {
        'pagexml/helper/text_helper.py': [
            'read_lines_from_line_files', 'get_bbox', 'get_line_format_json', 'get_line_format_tsv', 'make_list',
            'LineReader.__init__', 'LineReader.__iter__', 'LineReader._iter', 'LineReader._iter_from_pagexml_docs',
            'LineReader._iter_from_line_file', 'transform_box_to_coords', 'read_pagexml_docs_from_line_file',
            'make_line_format_file'],
        'pagexml/helper/pagexml_helper.py': ['pagexml_to_line_format', 'write_pagexml_to_line_format',
                                             'read_line_format_file', 'LineIterable.__iter__'],
        'pagexml/model/pagexml_document_model.py': [
            'PageXMLTextRegion.get_inner_text_regions', 'PageXMLTextRegion.get_lines', 'PageXMLTextRegion.get_regions',
            'PageXMLTextRegion.num_lines', 'PageXMLTextRegion.num_text_regions', 'PageXMLTextRegion.num_words',
            'PageXMLTextRegion.get_words', 'PageXMLTextRegion.add_child', 'PageXMLScan.add_child',
            'PageXMLTextLine.get_words'],
    }
    level_note = (
        'proved for all document lists / rows / files (unbounded): grouping = unique maximal-run decomposition; box '
        'string round trip for every box with w,h >= 0 (every Coords object, by C03); TSV text round trip in the three '
        'header modes over any number of files; line-file route = in-memory route (None -> \'\') for default and for '
        'any explicit column order / subset; rebuilt documents = written documents (ids, boxes, one region per written '
        'region id, line ids / texts / boxes) and equal line and word counts for trees whose regions hold lines or '
        'sub-regions. Contract-based, sampled by the correspondence and judged by the oracle on real files: gzip and '
        'text-mode I/O are the identity with universal newlines; the PageXML-file route is the in-memory route on the '
        'parsed documents (XML round trip: C01/C07; an empty text parses as None); sorted() keeps the order of the file '
        'names / documents fed (DESIGN §9; lists that geometric sorting reorders are tagged geo:reordered and compared '
        'as multisets); the box of a Qhull hull is the box of its points (C09). Reading chosen: documents and regions '
        'without any line write no record, hence are not rebuilt ("one region per region id written"). Lines carry no '
        'Word children and documents no region-level text (word counts come from text.split(\' \')). The older '
        'three-column format of pagexml_helper.py is mirrored by the model and judged only for ids and non-empty '
        'texts without edge whitespace (it writes None as "None" and strips lines). String tables: the default header '
        'lists of make_line_format_file and LineReader, the record keys of get_line_format_json, the keys looked up by '
        'read_pagexml_docs_from_line_file and the separators of the older format are regenerated from the source on '
        'every run (Generated/C14.lean); the model\'s default header lists ARE the regenerated ones (a consistent '
        'reordering of the defaults is followed), the seven column names of the statement are tied to the regenerated '
        'keys by the obligations C14_consts_record_keys / C14_consts_rebuild_keys, and the relations the theorems need '
        'of the defaults are the other C14_consts_* theorems (decided on the tables). Records read from files are '
        'stated in the order of the header list and proved to be the same dictionary (List.Perm) as the in-memory '
        'record; equal as lists when the reader default is in record-key order (C14_routes_agree_same_order). '
        'Correspondence level: inputs outside the quantifier, decided per case from its input, carry core.OUTSIDE and are '
        'mirrored only, not judged (a tab / CR / LF in an id or text, a region with lines and sub-regions, an element '
        'without coordinates, misconfigured columns / modes; hand-written files that no writer produces: wrong column '
        'counts, bare CR, missing header or final newline, box fields that are no written boxes; box strings no writer '
        'produces; the older format read with a header expected or not three column names); inside it records, files, ids, '
        'texts, document and line boxes, counts and error-freeness are compared exactly — only the box of a REBUILT '
        'region, which the statement does not list, is not compared. Documents with repeated ids are inside (compared '
        'exactly), not judged by the oracle. Histories (wave 4): every reader object is walked twice (and once more after '
        'an abandoned walk) and the record objects of the first walk are kept, as list(reader) does, and re-read after '
        'the later walks — every walk must yield the records of the first and no record may change after it was handed '
        'out; the model being a pure function of the source, its one answer is the answer to every walk.')
    assumptions = [
        'gzip.open(..., "wt"/"rt") is the identity on text; reading translates \\r\\n and \\r to \\n (universal newlines)',
        'str.strip()/isspace: whitespace set sent per request from the running CPython (ws); column names contain none',
        'sorted(list of file names / documents) is the identity on the lists fed (ascending names; equal or origin page boxes)',
        'xmltodict/lxml round trip of a scan is the identity up to empty text -> None (checked on the files route)',
        'the bounding box of scipy ConvexHull output equals the bounding box of the input points (C09 contract)',
        'ids are strings (never None); headers contain no duplicates; coordinates below 2^26 on the rebuild route',
    ]
    nontrivial_rule = 'distinct inputs; non-trivial = at least two lines in total, or a hand-written file with at least two lines'

    def __init__(self):
        # outputs of the real code per case: the model requests for reading take the files that
        # the real writer produced as their input (run_check calls impl() before requests())
        self._outs: Dict[int, Any] = {}

    # ------------------------------------------------------------------ tables regenerated from the source
    def translate(self):
        """the column-name tables of text_helper.py (default header lists of writer and reader, record keys, the
        keys looked up when documents are rebuilt) and the separators of the older format of pagexml_helper.py,
        read from the working tree with `ast` on every run (see `src_tables`)"""
        from harness import translate as tr
        t = src_tables()
        tab = tr.lean_chars_table
        body = tr.HEADER.format(
            src=f'{TH}: default header list of make_line_format_file, default header lists of '
                f'LineReader._iter_from_line_file, record keys of get_line_format_json, keys read by '
                f'read_pagexml_docs_from_line_file; {PH}: f-string written by write_pagexml_to_line_format') + (
            'namespace Pagexml.Generated.C14\n\n'
            + tab('writerDefaultHeaders', 'make_line_format_file: `headers = [...]` under `if headers is None:`',
                  t['writer_default']) + '\n'
            + tab('readerDefaultHeaders', 'LineReader._iter_from_line_file: `self.line_file_headers = [...]` when no '
                  'header line is read and no headers were supplied', t['reader_base']) + '\n'
            + tab('readerBoxHeaders', '… `self.line_file_headers.extend([...])` under '
                  '`if self.add_bounding_box is True:`', t['reader_box']) + '\n'
            + tab('recordKeys', 'get_line_format_json: keys of the dict display `json_doc = {...}`, in order',
                  t['record_keys']) + '\n'
            + tab('recordBoxKeys', '… keys of `json_doc[key] = …` under `if add_bounding_box is True:`, in order',
                  t['record_box_keys']) + '\n'
            + tab('rebuildKeys', 'read_pagexml_docs_from_line_file: keys of `line_dict[key]` read outside '
                  '`if add_bounding_box is True:` (first occurrences, in source order)', t['rebuild_keys']) + '\n'
            + tab('rebuildBoxKeys', '… read inside `if add_bounding_box is True:`', t['rebuild_box_keys']) + '\n'
            + '/-- write_pagexml_to_line_format: literal text after the document id of f"{doc_id}…{line_id}…{line_text}…" -/\n'
            + f'def legacySepAfterDocId : List Char := {tr.lean_chars(t["legacy_seps"][0])}\n\n'
            + '/-- … after the line id -/\n'
            + f'def legacySepAfterLineId : List Char := {tr.lean_chars(t["legacy_seps"][1])}\n\n'
            + '/-- … after the text -/\n'
            + f'def legacyLineEnd : List Char := {tr.lean_chars(t["legacy_seps"][2])}\n\n'
            + 'end Pagexml.Generated.C14\n')
        return {'PagexmlModel/Generated/C14.lean': body}

    # ------------------------------------------------------------------ implementation
    def impl(self, case: Case) -> Any:
        k = case.kind
        if k == 'rt':
            out = self._impl_rt(case.input)
            perm = out.get('sorted_perm', {}).get('ok')
            if perm != list(range(len(case.input['docs']))) and 'geo:reordered' not in case.tags:
                case.tags.append('geo:reordered')
        elif k == 'raw':
            out = self._impl_raw(case.input)
        elif k == 'box':
            out = self._impl_box(case.input)
        elif k == 'legacy':
            out = self._impl_legacy(case.input)
        else:
            raise ValueError(k)
        self._outs[id(case)] = (case, out)
        return out

    def _impl_rt(self, inp) -> Dict[str, Any]:
        pdm, th, ph = _real()
        docs_json = inp['docs']
        outer, bbox = inp['outer'], inp['bbox']
        headers = inp.get('headers')
        mode = inp.get('read_mode', 'has_headers')
        groupby = inp.get('groupby')
        shape = inp.get('shape', 0)
        as_str = inp.get('as_str', False)
        out: Dict[str, Any] = {}
        tmp = tempfile.mkdtemp(prefix='c14-')
        try:
            docs = [_mk_doc(pdm, d, shape) for d in docs_json]
            out['orig_stats'] = call(lambda: [[d.num_lines, d.num_words] for d in docs])
            srt = call(lambda: [docs.index(d) for d in sorted(docs)]) if docs else {'ok': []}
            out['sorted_perm'] = srt
            hist: Dict[str, List[str]] = {}
            out['docs_route'] = _walks(lambda: th.LineReader(
                pagexml_docs=_one_or_list(docs, as_str), use_outer_textregions=outer, add_bounding_box=bbox),
                hist, 'docs_route')
            if groupby:
                out['docs_route_grouped'] = _walks(lambda: th.LineReader(
                    pagexml_docs=docs, use_outer_textregions=outer, add_bounding_box=bbox, groupby=groupby),
                    hist, 'docs_route_grouped')
            # --- write the line files with the real writer
            chunks, i = [], 0
            for n in inp.get('split') or [len(docs)]:
                chunks.append(docs[i:i + n])
                i += n
            paths, contents = [], []
            werr = None
            for ci, chunk in enumerate(chunks):
                p = os.path.join(tmp, f'lines-{ci:03d}.tsv.gz')
                r = call(lambda: th.make_line_format_file(chunk, p, headers=headers, use_outer_textregions=outer,
                                                          add_bounding_box=bbox))
                if 'err' in r:
                    werr = r
                    break
                c = _read_gz(p)
                if mode != 'has_headers':
                    c = _strip_header(c)
                    _write_gz(p, c)
                paths.append(p)
                contents.append(c)
            out['write'] = werr if werr else {'ok': contents}
            if werr is None and paths:
                hs = headers if headers is not None else writer_default()
                narrow = bool(inp.get('narrow_read'))
                kw = dict(add_bounding_box=bbox and not narrow)
                if mode == 'has_headers':
                    kw['has_headers'] = True
                elif mode == 'explicit':
                    kw['line_file_headers'] = list(BASE) if narrow else list(hs)
                    kw['has_headers'] = inp.get('explicit_has_headers_flag', True)
                else:
                    kw['has_headers'] = False
                out['lf_route'] = _walks(lambda: th.LineReader(
                    pagexml_line_files=_one_or_list(paths, as_str), **kw), hist, 'lf_route')
                if groupby:
                    out['lf_route_grouped'] = _walks(lambda: th.LineReader(
                        pagexml_line_files=paths, groupby=groupby, **kw), hist, 'lf_route_grouped')
                if inp.get('rebuild'):
                    rkw = dict(add_bounding_box=inp.get('rebuild_bbox', True))
                    if mode == 'has_headers':
                        rkw['has_headers'] = True
                    elif mode == 'explicit':
                        rkw['headers'] = list(hs)
                    else:
                        rkw['has_headers'] = False
                    out['rebuild'] = call(lambda: [_dump_rebuilt(d) for d in th.read_pagexml_docs_from_line_file(
                        _one_or_list(paths, as_str), **rkw)])
            if inp.get('files_route') and docs:
                xpaths = []
                for di, d in enumerate(docs):
                    p = os.path.join(tmp, f'page-{di:03d}.xml')
                    with open(p, 'w', encoding='utf-8') as fh:
                        fh.write(d.to_pagexml(tostring=True))
                    xpaths.append(p)
                out['files_route'] = _walks(lambda: th.LineReader(
                    pagexml_files=_one_or_list(xpaths, as_str), use_outer_textregions=outer, add_bounding_box=bbox),
                    hist, 'files_route')
                if groupby:
                    out['files_route_grouped'] = _walks(lambda: th.LineReader(
                        pagexml_files=xpaths, use_outer_textregions=outer, add_bounding_box=bbox, groupby=groupby),
                        hist, 'files_route_grouped')
            # the documents themselves are used objects by now (sorted, walked several times, exported): their
            # counts must be what they were
            if docs and call(lambda: [[d.num_lines, d.num_words] for d in docs]) != out['orig_stats']:
                hist['documents'] = ['line / word counts of the in-memory documents changed while they were read']
            if hist:
                out['history'] = hist
        finally:
            shutil.rmtree(tmp, ignore_errors=True)
        return canon(out)

    def _impl_raw(self, inp) -> Dict[str, Any]:
        pdm, th, ph = _real()
        tmp = tempfile.mkdtemp(prefix='c14-')
        out: Dict[str, Any] = {}
        try:
            paths = []
            for ci, c in enumerate(inp['files']):
                p = os.path.join(tmp, f'raw-{ci:03d}.tsv.gz')
                _write_gz(p, c)
                paths.append(p)
            kw = dict(add_bounding_box=inp['bbox'], has_headers=inp['has_headers'])
            if inp.get('headers') is not None:
                kw['line_file_headers'] = list(inp['headers'])
            hist: Dict[str, List[str]] = {}
            out['read'] = _walks(lambda: th.LineReader(pagexml_line_files=paths, **kw), hist, 'read')
            if inp.get('groupby'):
                out['read_grouped'] = _walks(lambda: th.LineReader(
                    pagexml_line_files=paths, groupby=inp['groupby'], **kw), hist, 'read_grouped')
            if hist:
                out['history'] = hist
            if inp.get('rebuild'):
                out['rebuild'] = call(lambda: [_dump_rebuilt(d) for d in th.read_pagexml_docs_from_line_file(
                    paths, has_headers=inp['has_headers'], headers=inp.get('headers'),
                    add_bounding_box=inp['bbox'])])
        finally:
            shutil.rmtree(tmp, ignore_errors=True)
        return canon(out)

    def _impl_box(self, inp) -> Dict[str, Any]:
        pdm, th, ph = _real()
        if 'points' in inp:
            def f():
                c = pdm.Coords([tuple(p) for p in inp['points']])
                line = pdm.PageXMLTextLine(doc_id='l', coords=c)
                s = th.get_bbox(line)
                c2 = th.transform_box_to_coords(s)
                return {'box': _dump_box(c), 'bbox': s, 'back': _dump_box(c2), 'points': [list(p) for p in c2.points],
                        'none': [th.get_bbox(None), th.get_bbox(pdm.PageXMLTextLine(doc_id='l'))]}
            return canon(call(f))

        def g():
            c = th.transform_box_to_coords(inp['s'])
            line = pdm.PageXMLTextLine(doc_id='l', coords=c)
            return {'box': _dump_box(c), 'bbox': th.get_bbox(line), 'points': [list(p) for p in c.points]}
        return canon(call(g))

    def _impl_legacy(self, inp) -> Dict[str, Any]:
        pdm, th, ph = _real()
        tmp = tempfile.mkdtemp(prefix='c14-')
        out: Dict[str, Any] = {}
        try:
            docs = [_mk_doc(pdm, d) for d in inp['docs']]
            chunks, i = [], 0
            for n in inp.get('split') or [len(docs)]:
                chunks.append(docs[i:i + n])
                i += n
            paths, contents = [], []
            for ci, chunk in enumerate(chunks):
                p = os.path.join(tmp, f'legacy-{ci:03d}.tsv.gz')
                ph.write_pagexml_to_line_format(chunk, p)
                paths.append(p)
                contents.append(_read_gz(p))
            out['write'] = {'ok': contents}
            out['tuples'] = call(lambda: [[list(t) for t in ph.pagexml_to_line_format(d)] for d in docs])
            kw = dict(headers=inp.get('headers'), has_header=inp.get('has_header', False))
            out['read'] = call(lambda: [dict(r) if isinstance(r, dict) else {'row': list(r)}
                                        for r in ph.read_line_format_file(_one_or_list(paths, inp.get('as_str')), **kw)])
            if not kw['has_header']:
                hist: Dict[str, List[str]] = {}
                norm = lambda rs: [dict(r) if isinstance(r, dict) else {'row': list(r)} for r in rs]   # noqa
                it = call(lambda: ph.LineIterable(paths, headers=inp.get('headers')))
                out['iterable'] = call(lambda: norm(it['ok'])) if 'ok' in it else it
                if 'ok' in it and 'ok' in out['iterable']:
                    second = call(lambda: norm(it['ok']))       # the same iterable object once more
                    if second != out['iterable']:
                        hist['iterable'] = [f'second walk over the same LineIterable yields {short(second, 300)}, '
                                            f'the first {short(out["iterable"], 300)}']
                if hist:
                    out['history'] = hist
        finally:
            shutil.rmtree(tmp, ignore_errors=True)
        return canon(out)

    # ------------------------------------------------------------------ model requests
    def requests(self, case: Case):
        k, inp = case.kind, case.input
        P = 'C14'
        if k == 'rt':
            docs = inp['docs']
            reqs = [{'p': P, 'op': 'records', 'args': {'docs': docs, 'outer': inp['outer'], 'bbox': inp['bbox']}}]
            chunks, i = [], 0
            for n in inp.get('split') or [len(docs)]:
                chunks.append(docs[i:i + n])
                i += n
            for ch in chunks:
                reqs.append({'p': P, 'op': 'write', 'args': {'docs': ch, 'headers': inp.get('headers'),
                                                             'outer': inp['outer'], 'bbox': inp['bbox']}})
            return reqs + [r for _, r in self._late_requests(case, self._out_of(case))]
        return [r for _, r in self._late_requests(case, self._out_of(case))]

    def _out_of(self, case: Case):
        hit = self._outs.get(id(case))
        if hit is not None and hit[0] is case:
            return hit[1]
        return self.impl(case)

    def _late_requests(self, case: Case, out) -> List[Dict[str, Any]]:
        """model requests that take the real files / strings as input"""
        k, inp = case.kind, case.input
        P = 'C14'
        reqs = []
        if k == 'rt':
            w = out.get('write', {})
            if 'ok' in w and w['ok']:
                files = w['ok']
                mode = inp.get('read_mode', 'has_headers')
                hs = inp.get('headers') if inp.get('headers') is not None else writer_default()
                narrow = bool(inp.get('narrow_read'))
                args = {'files': files, 'bbox': inp['bbox'] and not narrow, 'outer': inp['outer'], 'ws': _ws(*files)}
                if mode == 'has_headers':
                    args.update(has_headers=True, headers=None)
                elif mode == 'explicit':
                    args.update(has_headers=inp.get('explicit_has_headers_flag', True),
                                headers=list(BASE) if narrow else hs)
                else:
                    args.update(has_headers=False, headers=None)
                reqs.append(('lf_route', {'p': P, 'op': 'read', 'args': dict(args)}))
                if inp.get('groupby'):
                    reqs.append(('lf_route_grouped', {'p': P, 'op': 'read', 'args': dict(args, groupby=inp['groupby'])}))
                if inp.get('rebuild'):
                    reqs.append(('rebuild', {'p': P, 'op': 'rebuild',
                                             'args': dict(args, bbox=inp.get('rebuild_bbox', True))}))
            if inp.get('groupby'):
                reqs.append(('docs_route_grouped', {'p': P, 'op': 'read', 'args': {
                    'files': [], 'has_headers': True, 'headers': None, 'outer': inp['outer'], 'bbox': inp['bbox'],
                    'mem_docs': self._sorted_docs(inp, out), 'groupby': inp['groupby']}}))
            if inp.get('files_route') and inp['docs']:
                a = {'files': [], 'has_headers': True, 'headers': None, 'outer': inp['outer'], 'bbox': inp['bbox'],
                     'file_docs': inp['docs']}
                reqs.append(('files_route', {'p': P, 'op': 'read', 'args': dict(a)}))
                if inp.get('groupby'):
                    reqs.append(('files_route_grouped', {'p': P, 'op': 'read', 'args': dict(a, groupby=inp['groupby'])}))
        elif k == 'raw':
            args = {'files': inp['files'], 'has_headers': inp['has_headers'], 'headers': inp.get('headers'),
                    'bbox': inp['bbox'], 'outer': False, 'ws': _ws(*inp['files'])}
            reqs.append(('read', {'p': P, 'op': 'read', 'args': dict(args)}))
            if inp.get('groupby'):
                reqs.append(('read_grouped', {'p': P, 'op': 'read', 'args': dict(args, groupby=inp['groupby'])}))
            if inp.get('rebuild'):
                reqs.append(('rebuild', {'p': P, 'op': 'rebuild', 'args': dict(args)}))
        elif k == 'box':
            if 'points' in inp:
                if 'ok' in out:
                    reqs.append(('box', {'p': P, 'op': 'box', 'args': {'s': out['ok']['bbox']}}))
            else:
                reqs.append(('box', {'p': P, 'op': 'box', 'args': {'s': inp['s']}}))
        elif k == 'legacy':
            reqs.append(('write', {'p': P, 'op': 'legacy_write', 'args': {'docs': inp['docs']}}))
            files = out.get('write', {}).get('ok', [])
            reqs.append(('read', {'p': P, 'op': 'legacy_read', 'args': {
                'files': files, 'headers': inp.get('headers'), 'has_header': inp.get('has_header', False),
                'ws': _ws(*files)}}))
        return reqs

    @staticmethod
    def _sorted_docs(inp, out):
        perm = out.get('sorted_perm', {}).get('ok')
        docs = inp['docs']
        if perm is None or sorted(perm) != list(range(len(docs))):
            return docs
        return [docs[i] for i in perm]

    # ------------------------------------------------------------------ comparison
    def compare(self, case: Case, out: Any, model_out: List[Dict[str, Any]]) -> Optional[str]:
        late = self._late_requests(case, out)
        n_base = len(model_out) - len(late)
        named = {name: a for (name, _), a in zip(late, model_out[n_base:])}
        model_out = model_out[:n_base]
        k, inp = case.kind, case.input
        if isinstance(out, dict) and out.get('history'):
            # the model is a pure function of the source: its answer is the answer to every walk
            nm, rem = sorted(out['history'].items())[0]
            return f'{nm}: {rem[0]}'
        if k == 'rt':
            return self._compare_rt(case, out, model_out, named)
        if k == 'raw':
            for name, m in named.items():
                d = self._cmp_recs_or_docs(name, out.get(name), m)
                if d:
                    return d
            return None
        if k == 'box':
            m = named.get('box')
            if m is None:
                return None if 'err' in out else f'no model request for {short(out)}'
            if 'err' in out or 'err' in m:
                return None if out == m else f'box: impl={short(out)} model={short(m)}'
            o, mo = out['ok'], m['ok']
            want_box = o['back'] if 'back' in o else o['box']
            if mo['box'] != want_box or mo['points'] != o['points']:
                return f'box: impl={short(o)} model={short(mo)}'
            if 'back' not in o and mo['bbox'] != o['bbox']:
                return f'bbox string: impl={o["bbox"]} model={mo["bbox"]}'
            return None
        if k == 'legacy':
            w = named['write']['ok']
            if ''.join(out['write']['ok']) != w:
                return f'legacy write: impl={short(out["write"])} model={short(w)}'
            r, m = out['read'], named['read']
            if 'err' in r or 'err' in m:
                return None if r == m else f'legacy read: impl={short(r)} model={short(m)}'
            mm = [dict((a, b) for a, b in rec) for rec in m['ok']]
            if r['ok'] != mm:
                return f'legacy read: impl={short(r["ok"])} model={short(mm)}'
            return None
        return None

    @staticmethod
    def _recs(m):
        return [dict((a, b) for a, b in rec) for rec in m]

    def _cmp_recs_or_docs(self, name, i, m) -> Optional[str]:
        if i is None:
            return f'{name}: implementation output missing'
        if 'err' in i or 'err' in m:
            return None if i == m else f'{name}: impl={short(i)} model={short(m)}'
        if name == 'rebuild':
            # the statement lists what a rebuilt document reproduces: "every document id, text-region id, line id, line
            # text ... and the document and line bounding boxes ... one text region per region id written, with the
            # same line and word counts".  The box of a rebuilt REGION is not in that list (the region boxes are fixed
            # as values of the record stream, compared above), so it is not compared here.
            def stated(docs):
                return [dict({k: v for k, v in d.items() if k not in ('other_children', 'regions')},
                             regions=[{k: v for k, v in r.items() if k != 'box'} for r in d['regions']])
                        for d in docs]
            ii, mm = stated(i['ok']), stated(m['ok'])
            return None if ii == mm else f'rebuild: impl={short(ii, 900)} model={short(mm, 900)}'
        if name.endswith('grouped'):
            mm = [self._recs(g) for g in m['ok']]
        else:
            mm = self._recs(m['ok'])
        return None if i['ok'] == mm else f'{name}: impl={short(i["ok"], 900)} model={short(mm, 900)}'

    def _compare_rt(self, case, out, model_out, named) -> Optional[str]:
        inp = case.input
        rec_ans = model_out[0]['ok']
        m_recs = self._recs(rec_ans['recs'])
        i = out['docs_route']
        perm = out['sorted_perm'].get('ok')
        if perm is None:
            # sorted() itself raised on these documents (no coords to compare): sorting is a
            # parameter of the model (DESIGN §3.6), nothing to compare on this route
            named = {k: v for k, v in named.items() if k != 'docs_route_grouped'}
        elif 'ok' not in i:
            return f'docs route: impl={short(i)} model has records'
        elif perm == list(range(len(inp['docs']))):
            if i['ok'] != m_recs:
                return f'docs route: impl={short(i["ok"], 900)} model={short(m_recs, 900)}'
        else:
            # sorted() reordered the documents (DESIGN §9): same records, compared as a multiset
            key = lambda r: repr(sorted(r.items(), key=lambda kv: kv[0]))
            if sorted(map(key, i['ok'])) != sorted(map(key, m_recs)):
                return f'docs route (reordered): impl={short(i["ok"], 900)} model={short(m_recs, 900)}'
        if out['orig_stats'].get('ok') != rec_ans['stats']:
            return f'stats: impl={out["orig_stats"]} model={rec_ans["stats"]}'
        # the written files
        w = out['write']
        mw = model_out[1:]
        if 'err' in w:
            errs = [a for a in mw if 'err' in a]
            if not errs or errs[0] != w:
                return f'write: impl={w} model={short(mw)}'
        else:
            if any('err' in a for a in mw):
                return f'write: impl ok, model={short(mw)}'
            mc = [a['ok'] for a in mw]
            if inp.get('read_mode', 'has_headers') != 'has_headers':
                mc = [_strip_header(c) for c in mc]
            if w['ok'] != mc:
                return f'write: impl={short(w["ok"], 900)} model={short(mc, 900)}'
        for name, m in named.items():
            d = self._cmp_recs_or_docs(name, out.get(name), m)
            if d:
                return d
        return None

    # ------------------------------------------------------------------ oracle
    def oracle(self, case: Case, out: Any) -> List[Finding]:
        fs: List[Finding] = []

        def bad(key, what):
            fs.append(Finding(f'C14:{key}', what, case, out))
        k, inp = case.kind, case.input
        # cases outside the quantifier are not judged (decided from the input, so that shrunk candidates are classified
        # by what they are): the statement says nothing about them
        if outside_quantifier(k, inp) is not None:
            return fs
        # (A) "the line reader yields identical records": a reader object is an iterable — every walk over it, and
        # every record it handed out, is covered (see _walks)
        for nm, rem in sorted((out.get('history') or {}).items() if isinstance(out, dict) else []):
            bad(f'reader-history:{nm}', f'{nm}: {rem[0]}')
        # grouping is judged on every stream the reader produced
        if k in ('rt', 'raw'):
            g = inp.get('groupby')
            pairs = [('docs_route', 'docs_route_grouped'), ('lf_route', 'lf_route_grouped'),
                     ('files_route', 'files_route_grouped'), ('read', 'read_grouped')]
            for flat, grouped in pairs:
                if (g and grouped in out and flat in out and 'ok' in out[flat]
                        and all(g in r for r in out[flat]['ok'])):
                    self._judge_groups(bad, flat, g, out[flat]['ok'], out[grouped])
        if k == 'rt' and 'valid' in case.tags:
            self._oracle_rt(case, out, bad)
        elif k == 'box' and 'points' in inp:
            if 'ok' not in out:
                bad('bbox:error', f'box string of a coordinates object does not read back: {out}')
            elif out['ok']['back'] != out['ok']['box']:
                bad('bbox:roundtrip', f'box {out["ok"]["box"]} written as {out["ok"]["bbox"]} reads back as '
                                      f'{out["ok"]["back"]}')
        elif k == 'legacy' and 'valid' in case.tags:
            self._oracle_legacy(case, out, bad)
        return fs

    @staticmethod
    def _judge_groups(bad, name, g, flat, grouped):
        if 'ok' not in grouped:
            bad(f'group:{g}:error', f'{name}: grouping by {g} raised {grouped} although the ungrouped stream is read')
            return
        gs = grouped['ok']
        if [r for grp in gs for r in grp] != flat:
            bad(f'group:{g}:concat', f'{name}: the groups do not concatenate to the ungrouped stream '
                                     f'({sum(len(x) for x in gs)} of {len(flat)} records)')
            return
        for grp in gs:
            if not grp:
                bad(f'group:{g}:empty', f'{name}: empty group')
                return
            if any(r[g] != grp[0][g] for r in grp):
                bad(f'group:{g}:mixed', f'{name}: a group mixes values of {g}')
                return
        for a, b in zip(gs, gs[1:]):
            if a[-1][g] == b[0][g]:
                bad(f'group:{g}:split-run', f'{name}: a run of equal {g} is split over two groups')
                return

    def _oracle_rt(self, case, out, bad):
        inp = case.input
        docs, outer, bbox = inp['docs'], inp['outer'], inp['bbox']
        exp = _expected_records(docs, outer, bbox)
        perm_ok = out['sorted_perm'].get('ok') == list(range(len(docs)))
        dr = out['docs_route']
        # (1) every id / text / box of the documents, in order, on the in-memory route
        if 'ok' not in dr:
            bad('docs-route:error', f'the reader raised {dr} on in-memory documents')
        elif perm_ok and dr['ok'] != exp:
            bad('docs-route:records', f'in-memory route yields {short(dr["ok"], 300)}, the documents hold '
                                       f'{short(exp, 300)}')
        # (2) the line-file route yields identical records (missing text reads back as empty)
        w = out.get('write', {})
        # the columns that were written: the explicit list, or (headers=None) what the source says the writer's
        # default is; the values expected in them come from the documents under the statement's column names
        hs = inp.get('headers') if inp.get('headers') is not None else writer_default()
        full = sorted(hs) == sorted(BASE + (BOXES if bbox else []))
        if 'err' in w:
            bad('write:error', f'writing the line file raised {w}')
        elif 'lf_route' in out:
            lf = out['lf_route']
            if 'ok' not in lf:
                bad(f'lf-route:error:{inp.get("read_mode")}', f'reading the line file back raised {lf}')
            else:
                narrow = bool(inp.get('narrow_read'))
                want = [{h: _norm(r).get(h) for h in (BASE if narrow else hs)} for r in exp]
                if lf['ok'] != want:
                    bad(f'lf-route:records:{inp.get("read_mode")}',
                        f'line file reads back as {short(lf["ok"], 300)}, written from {short(want, 300)}')
                if full and not narrow and perm_ok and 'ok' in dr and [_norm(r) for r in dr['ok']] != lf['ok']:
                    bad('routes:docs-vs-linefile', 'in-memory route and line-file route yield different records')
        # (3) the PageXML-file route
        if 'files_route' in out:
            fr = out['files_route']
            if 'ok' not in fr:
                bad('files-route:error', f'the reader raised {fr} on PageXML files')
            elif [_norm(r) for r in fr['ok']] != [_norm(r) for r in exp]:
                bad('routes:files-vs-docs', f'PageXML-file route yields {short(fr["ok"], 300)}, in-memory documents '
                                            f'hold {short(exp, 300)}')
        # (4) rebuilt documents
        if 'rebuild' in out and inp.get('rebuild_bbox', True) and _ids_distinct(docs, outer):
            rb = out['rebuild']
            if 'ok' not in rb:
                if rb.get('err') == 'QhullError' and _flat_first_line(docs, outer):
                    bad('flat-line-box', 'a text region whose first line has a zero-width or zero-height box cannot '
                                         'be rebuilt from the line file: QhullError')
                else:
                    bad('rebuild:error', f'rebuilding documents from the line file raised {rb}')
                return
            want_docs = [d for d in docs if _expected_records([d], outer, True)]
            got = rb['ok']
            if [d['id'] for d in got] != [d['id'] for d in want_docs]:
                bad('rebuild:doc-ids', f'rebuilt document ids {[d["id"] for d in got]}, written '
                                       f'{[d["id"] for d in want_docs]}')
                return
            stats = out['orig_stats'].get('ok')
            for d, g in zip(want_docs, got):
                if g['box'] != d['box']:
                    bad('rebuild:doc-box', f'document {d["id"]!r}: box {g["box"]}, original {d["box"]}')
                trs = _written_regions(d, outer)
                trs = [t for t in trs if _all_lines(t)]
                if [t['id'] for t in g['regions']] != [t['id'] for t in trs] or g['other_children']:
                    bad('rebuild:region-ids', f'document {d["id"]!r}: regions {[t["id"] for t in g["regions"]]}, '
                                              f'written {[t["id"] for t in trs]}')
                    continue
                for t, gt in zip(trs, g['regions']):
                    ls = _all_lines(t)
                    if [l['id'] for l in gt['lines']] != [l['id'] for l in ls]:
                        bad('rebuild:line-ids', f'region {t["id"]!r}: line ids differ')
                    elif [l['text'] for l in gt['lines']] != [l['text'] or '' for l in ls]:
                        bad('rebuild:text', f'region {t["id"]!r}: texts {[l["text"] for l in gt["lines"]]}, '
                                            f'original {[l["text"] for l in ls]}')
                    elif [l['box'] for l in gt['lines']] != [l['box'] for l in ls]:
                        bad('rebuild:line-box', f'region {t["id"]!r}: line boxes differ')
                o = stats[docs.index(d)] if stats else None
                if o is not None and g['num_lines'] != o[0]:
                    bad('rebuild:num-lines', f'document {d["id"]!r}: {g["num_lines"]} lines, original {o[0]}')
                if o is not None and g['num_words'] != o[1]:
                    bad('rebuild:num-words', f'document {d["id"]!r}: {g["num_words"]} words, original {o[1]}')

    def _oracle_legacy(self, case, out, bad):
        """the older three-column format is outside the wording of the statement (no boxes, no region
        ids); judged only where it is unambiguous: with explicit headers, document id, line id and a
        non-empty text without edge whitespace come back in order"""
        inp = case.input
        if inp.get('headers') != ['doc_id', 'line_id', 'text'] or inp.get('has_header'):
            return
        r = out.get('read', {})
        exp = [{'doc_id': d['id'], 'line_id': l['id'], 'text': l['text']} for d in inp['docs'] for l in _all_lines(d)]
        if 'ok' not in r:
            bad('legacy:error', f'read_line_format_file raised {r}')
        elif r['ok'] != exp:
            bad('legacy:records', f'three-column file reads back as {short(r["ok"], 300)}, written {short(exp, 300)}')

    # ------------------------------------------------------------------ generation
    def cases(self, rng: random.Random, tier: str) -> Iterable[Case]:
        return gen_cases(rng, tier)

    def nontrivial(self, case: Case) -> bool:
        if case.kind in ('rt', 'legacy'):
            return sum(len(_all_lines(d)) for d in case.input['docs']) >= 2
        if case.kind == 'raw':
            return sum(c.count('\n') for c in case.input['files']) >= 2
        return True

    def shrink_candidates(self, case: Case):
        return shrink(case)


CHECK = C14()
