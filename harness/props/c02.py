"""C02 — Parent links and provenance metadata agree with the actual tree.

Histories of constructor / add_child / set_parent / set_parentage / type-tag operations are
executed on real pagexml objects (object number = node id of the Lean store model); after every
operation every live object is dumped (parent, metadata, type list, main type, child lists) and
compared with the dump of the model's store.  The oracle judges the three clauses of the
statement on those dumps of the REAL objects only.

The module also provides the real-object executor used by C04 (`World`).
"""
from __future__ import annotations

import copy
import itertools
import json
import random
from typing import Any, Dict, Iterable, List, Optional

from harness.core import Case, Check, Finding, err_name

GENERIC = ['structure_doc', 'physical_structure_doc', 'pagexml_doc']
MAIN = {'word': 'word', 'line': 'line', 'region': 'text_region', 'column': 'column', 'page': 'page',
        'scan': 'scan', 'cell': 'table_cell', 'row': 'table_row', 'table': 'table_region'}
# class tags a constructor leaves on an object (main type of the class + generic tags
# + the tags of the base classes the constructor chain adds)
CLASS_TAGS = {c: set(GENERIC) | {m} | ({'text_region'} if c in ('column', 'page', 'scan') else set())
              for c, m in MAIN.items()}
TEXT_LISTS = ['pages', 'columns', 'extra', 'text_regions', 'lines', 'words']
ALL_LISTS = ['pages', 'columns', 'extra', 'text_regions', 'table_regions', 'rows', 'cells', 'lines', 'words']
DUMP_LISTS = {'pages': 'pages', 'columns': 'columns', 'extra': 'extra', 'text_regions': 'regions',
              'table_regions': 'tables', 'rows': 'rows', 'cells': 'cells', 'lines': 'lines', 'words': 'words'}


def _pdm():
    import pagexml.model.physical_document_model as pdm
    return pdm


def cls_of(obj) -> str:
    n = type(obj).__name__
    return {'PageXMLWord': 'word', 'PageXMLTextLine': 'line', 'PageXMLTextRegion': 'region',
            'PageXMLColumn': 'column', 'PageXMLPage': 'page', 'PageXMLScan': 'scan',
            'PageXMLTableCell': 'cell', 'PageXMLTableRow': 'row', 'PageXMLTableRegion': 'table'}.get(n, n)


def enc_val(v: Any) -> Any:
    """metadata value / id -> the model's MVal encoding"""
    if v is None:
        return None
    if isinstance(v, str):
        return {'s': v}
    return {'o': json.dumps(v, sort_keys=True, default=str)}


def dec_val(v: Any) -> Any:
    if v is None:
        return None
    if 's' in v:
        return v['s']
    return json.loads(v['o'])


def box(tok: int):
    """the coordinate value a token stands for: a proper rectangle"""
    from pagexml.model.coords import Coords
    x, y = 10 + 37 * (tok % 23), 20 + 53 * (tok % 17)
    return Coords([(x, y), (x + 100 + tok % 7, y), (x + 100 + tok % 7, y + 40), (x, y + 40)])


class World:
    """real pagexml objects, numbered in creation order like the nodes of the model store"""

    def __init__(self):
        self.objs: List[Any] = []

    # ---- helpers
    def _args(self, a: Optional[Dict[str, Any]], with_text=True) -> Dict[str, Any]:
        a = a or {}
        kw: Dict[str, Any] = {'doc_id': dec_val(a.get('id')),
                              'metadata': {k: copy.deepcopy(dec_val(v)) for k, v in a.get('md', [])} or None}
        dt = a.get('dtype') or []
        kw['doc_type'] = None if not dt else (dt[0] if len(dt) == 1 else list(dt))
        kw['coords'] = box(a['coords']) if a.get('coords') is not None else None
        if with_text:
            kw['text'] = a.get('text')
        return kw

    def _o(self, ids: Iterable[int]) -> List[Any]:
        return [self.objs[i] for i in ids]

    def _new(self, make, fallback_children: List[Any]) -> Dict[str, Any]:
        """run a constructor; a constructor that raises after it has linked children leaves the
        half-built object reachable as their parent — it is numbered like any other object"""
        try:
            o = make()
        except Exception as e:  # noqa
            ghost = None
            for c in fallback_children:
                par = getattr(c, 'parent', None)
                if par is not None and not any(par is x for x in self.objs):
                    ghost = par
                    break
            if ghost is not None:
                self.objs.append(ghost)
            return {'raised': err_name(e)}
        self.objs.append(o)
        return {'node': len(self.objs) - 1}

    # ---- one operation
    def exec(self, op: Dict[str, Any]) -> Dict[str, Any]:
        pdm = _pdm()
        k = op['op']
        g = lambda name: self._o(op.get(name, []))  # noqa
        for r in self._refs(op):
            if not (0 <= r < len(self.objs)):
                return {'err': 'KeyError'}
        if k == 'mkWord':
            return self._new(lambda: pdm.PageXMLWord(**self._args(op.get('a'))), [])
        if k == 'mkLine':
            ws = g('words')
            return self._new(lambda: pdm.PageXMLTextLine(words=ws, **self._args(op.get('a'))), ws)
        if k in ('mkRegion', 'mkColumn'):
            ls, rs, ts = g('lines'), g('regions'), g('tables')
            C = pdm.PageXMLTextRegion if k == 'mkRegion' else pdm.PageXMLColumn
            kw = self._args(op.get('a'), with_text=(k == 'mkRegion'))
            return self._new(lambda: C(lines=ls, text_regions=rs, table_regions=ts, **kw), ls + rs)
        if k == 'mkPage':
            ls, rs, ts, cs, ex = g('lines'), g('regions'), g('tables'), g('columns'), g('extra')
            kw = self._args(op.get('a'), with_text=False)
            return self._new(lambda: pdm.PageXMLPage(lines=ls, text_regions=rs, table_regions=ts, columns=cs,
                                                     extra=ex, **kw), ls + rs + cs + ex)
        if k == 'mkScan':
            ls, rs, ts, cs, ps = g('lines'), g('regions'), g('tables'), g('columns'), g('pages')
            kw = self._args(op.get('a'), with_text=False)
            return self._new(lambda: pdm.PageXMLScan(lines=ls, text_regions=rs, table_regions=ts, columns=cs,
                                                     pages=ps, **kw), ls + rs + cs + ps)
        if k == 'mkCell':
            ls = g('lines')
            kw = self._args(op.get('a'), with_text=False)
            return self._new(lambda: pdm.PageXMLTableCell(lines=ls, row=op.get('row', 0), col=op.get('col', 0), **kw), ls)
        if k == 'mkRow':
            cs = g('cells')
            kw = self._args(op.get('a'), with_text=False)
            return self._new(lambda: pdm.PageXMLTableRow(cells=cs, **kw), [])
        if k == 'mkTable':
            rs = g('rows')
            kw = self._args(op.get('a'), with_text=False)
            return self._new(lambda: pdm.PageXMLTableRegion(rows=rs, **kw), [])
        try:
            if k == 'addChild':
                p, c = self.objs[op['p']], self.objs[op['c']]
                if op.get('as_extra'):
                    p.add_child(c, as_extra=True)
                else:
                    p.add_child(c)
                return {'unit': None}
            if k == 'setParent':
                self.objs[op['c']].set_parent(self.objs[op['p']])
                return {'unit': None}
            if k == 'setAsParent':
                self.objs[op['p']].set_as_parent(g('cs'))
                return {'unit': None}
            if k == 'attachLines':
                p = self.objs[op['p']]
                p.lines = g('cs')
                p.set_as_parent(p.lines)
                return {'unit': None}
            if k == 'attachRegions':
                p = self.objs[op['p']]
                p.text_regions = g('cs')
                p.set_as_parent(p.text_regions)
                return {'unit': None}
            if k == 'attachRows':
                p = self.objs[op['p']]
                p.rows = g('cs')
                p.set_as_parent(p.rows)
                return {'unit': None}
            if k == 'setParentage':
                pdm.set_parentage(self.objs[op['p']])
                return {'unit': None}
            if k == 'addType':
                ts = op['ts']
                self.objs[op['n']].add_type(ts[0] if len(ts) == 1 and op.get('as_str', True) else list(ts))
                return {'unit': None}
            if k == 'removeType':
                ts = op['ts']
                self.objs[op['n']].remove_type(ts[0] if len(ts) == 1 and op.get('as_str', True) else list(ts))
                return {'unit': None}
            if k == 'hasType':
                return {'bool': bool(self.objs[op['n']].has_type(op['t']))}
            if k == 'types':
                return {'strs': sorted(self.objs[op['n']].types)}
            if k == 'setFilename':
                self.objs[op['n']].metadata['filename'] = op['v']
                return {'unit': None}
        except RecursionError:
            return {'err': 'RecursionError'}
        except Exception as e:  # noqa
            return {'raised': err_name(e)}
        raise ValueError(f'unknown op {k}')

    @staticmethod
    def _refs(op) -> List[int]:
        r = []
        for f in ('words', 'lines', 'regions', 'tables', 'columns', 'extra', 'pages', 'cells', 'rows', 'cs'):
            r.extend(op.get(f, []))
        for f in ('p', 'c', 'n'):
            if f in op:
                r.append(op[f])
        return r

    # ---- dump
    def index(self, o) -> Optional[int]:
        if o is None:
            return None
        return self._idx.get(id(o), -1)

    def dump(self) -> List[Dict[str, Any]]:
        out = []
        self._idx = {id(x): i for i, x in enumerate(self.objs)}
        for o in self.objs:
            d = {'cls': cls_of(o), 'id': enc_val(o.id),
                 'type': o.type if isinstance(o.type, str) else list(o.type),
                 'main_type': o.main_type,
                 'md': {k: enc_val(v) for k, v in o.metadata.items()},
                 'parent': self.index(o.parent),
                 'text': getattr(o, 'text', None) if cls_of(o) in ('line', 'region', 'column', 'page', 'scan', 'word') else None,
                 'has_coords': o.coords is not None, 'area_cached': o._area is not None}
            for attr, name in DUMP_LISTS.items():
                d[name] = [self.index(c) for c in (getattr(o, attr, None) or [])]
            out.append(d)
        return out


def observe_all(w: 'World') -> None:
    """read-only use of every object of the world through the library's own observers (JSON view, statistics,
    traversals, text, printing): what the statement says about parents, metadata and types must survive being looked
    at.  The model has no such operation — an observer is the identity on the store — so the store dumped after the
    observers is compared with the same model store.  An observer that raises (a page without coordinates has no JSON
    view …) is simply not an observation."""
    for o in list(w.objs):
        for f in (lambda: o.json, lambda: o.stats, lambda: o.get_lines(), lambda: o.get_words(),
                  lambda: o.get_inner_text_regions(), lambda: o.get_text_regions_in_reading_order(),
                  lambda: repr(o), lambda: o.types, lambda: o.has_type(o.main_type)):
            try:
                f()
            except Exception:  # noqa
                pass


def model_dump(store: List[Dict[str, Any]]) -> List[Dict[str, Any]]:
    out = []
    for n in store:
        d = dict(n)
        d['md'] = {k: v for k, v in n['md']}
        out.append(d)
    return out


def diff_dumps(real: List[Dict[str, Any]], model: List[Dict[str, Any]], ignore=()) -> Optional[str]:
    if len(model) < len(real):
        return f'model has {len(model)} nodes, real world {len(real)} objects'
    for i, (r, m) in enumerate(zip(real, model)):
        for k in r:
            if k in ignore:
                continue
            if r[k] != m.get(k):
                return f'node {i} field {k}: impl={r[k]!r} model={m.get(k)!r}'
    return None


# ---------------------------------------------------------------------------------------------
# what a REJECTED add_child leaves behind on the rejected child
# ---------------------------------------------------------------------------------------------
# C02 speaks of documents obtained "by attaching children through the model's constructors and add-child operations" and
# demands that each element "refers to its ACTUAL CONTAINER as parent" and that its metadata records "that container's
# id and type".  An add_child that raises attaches nothing: the container does not list the child afterwards, so the
# clause says nothing about the link the call may or may not have written on the child before it raised (the code as it is
# re-parents the child first and raises then; rejecting before touching the child is no less conformant — if anything the
# child then still refers to the container it really has).  So from a rejected add_child(p, c) on, the fields a
# `c.set_parent(p)` writes — c.parent, metadata['parent_id'], ['parent_type'], ['<main type of p>_id'] — are NOT compared on
# node c, each until a later (non-raising) operation writes it again in the model; everything else (the outcome
# raised-or-not, the child lists of p and of every other object, all other fields and keys of c, all other nodes) stays
# compared exactly, and so does the tree discipline `Pre`, which is evaluated on the child lists only.

def rejected_link_fields(op: Dict[str, Any], out: Dict[str, Any], *stores) -> set:
    """the dump fields of node op['c'] left undetermined by this step ('parent', 'md:<key>'), empty unless the step is a
    rejected add_child; `stores`: dumps after the step (real, model) — the main type of the rejecting container"""
    if op.get('op') != 'addChild' or 'raised' not in out:
        return set()
    for st in stores:
        # an add_child that raises AFTER it has put the child into one of the container's lists (a child without
        # coordinates …) has attached it: the container is then the child's actual container and everything is compared
        if not (0 <= op['p'] < len(st)) or any(op['c'] in st[op['p']].get(name, []) for name in DUMP_LISTS.values()):
            return set()
    fields = {'parent', 'md:parent_id', 'md:parent_type'}
    for st in stores:
        mt = st[op['p']].get('main_type') if 0 <= op['p'] < len(st) else None
        if isinstance(mt, str):
            fields.add(f'md:{mt}_id')
    return fields


def mask_fields(dump: List[Dict[str, Any]], free: Dict[int, set]) -> List[Dict[str, Any]]:
    if not any(free.values()):
        return dump
    out = list(dump)
    for n, fields in free.items():
        if not fields or not (0 <= n < len(out)):
            continue
        d = dict(out[n])
        if 'parent' in fields:
            d['parent'] = '<free>'
        d['md'] = {k: v for k, v in d['md'].items() if 'md:' + k not in fields}
        out[n] = d
    return out


def field_of(node: Dict[str, Any], field: str) -> Any:
    return node.get('parent') if field == 'parent' else node['md'].get(field[3:], '<missing>')


# ---------------------------------------------------------------------------------------------
# history generator
# ---------------------------------------------------------------------------------------------

class Gen:
    """random histories; a shadow of the structure keeps most of them tree-shaped"""

    def __init__(self, rng: random.Random):
        self.rng = rng
        self.ops: List[Dict[str, Any]] = []
        self.cls: List[str] = []        # class of node i
        self.listed: List[bool] = []    # node i sits in some container
        self.kids: List[List[int]] = []
        self.coords: List[bool] = []
        self.text: List[bool] = []
        self.nid = 0

    def fresh_id(self) -> Any:
        r = self.rng.random()
        self.nid += 1
        if r < 0.08:
            return None
        if r < 0.12:
            return {'s': 'dup'}
        return {'s': f'n{self.nid}'}

    def args(self, cls: str, coords_p=0.95, text_p=0.8) -> Dict[str, Any]:
        rng = self.rng
        a: Dict[str, Any] = {'id': self.fresh_id()}
        if rng.random() < coords_p:
            a['coords'] = rng.randrange(400)
        if cls in ('line', 'region', 'word') and rng.random() < text_p:
            a['text'] = rng.choice(['a b', 'x', 'lorem ipsum dolor', 'a  b', ''])
        r = rng.random()
        if r < 0.15:
            a['dtype'] = [rng.choice(['main', 'header', 'para', MAIN[cls], 'pagexml_doc'])]
        elif r < 0.22:
            a['dtype'] = rng.sample(['main', 'header', 'para', 'marginalia', MAIN[cls]], 2)
        r = rng.random()
        if r < 0.12:    # stale provenance handed in (as a JSON rebuild does)
            a['md'] = [[rng.choice(['parent_id', 'scan_id', 'text_region_id', 'page_id', 'parent_type']),
                        {'s': 'stale'}]]
        elif r < 0.2:
            a['md'] = [['custom_attributes', {'o': '[{"tag_name": "structure", "type": "p"}]'}], ['k', None]]
        return a

    def add(self, op: Dict[str, Any], cls: str, kids: List[int]) -> int:
        self.ops.append(op)
        n = len(self.cls)
        self.cls.append(cls)
        self.listed.append(False)
        self.kids.append(list(kids))
        self.coords.append(op.get('a', {}).get('coords') is not None)
        self.text.append(op.get('a', {}).get('text') is not None)
        for k in kids:
            self.listed[k] = True
        return n

    def free(self, classes) -> List[int]:
        return [i for i, c in enumerate(self.cls) if c in classes and not self.listed[i]]

    # ---- bottom-up builders (return node id)
    def word(self) -> int:
        return self.add({'op': 'mkWord', 'a': self.args('word')}, 'word', [])

    def line(self, need_text=False) -> int:
        ws = [self.word() for _ in range(self.rng.choice([0, 0, 1, 2, 3]))]
        a = self.args('line', text_p=1.0 if need_text else 0.8)
        return self.add({'op': 'mkLine', 'a': a, 'words': ws}, 'line', ws)

    def table(self) -> int:
        rows = []
        for r in range(self.rng.choice([1, 1, 2])):
            cells = []
            for c in range(self.rng.choice([1, 2])):
                ls = [self.line(need_text=True) for _ in range(self.rng.choice([0, 1, 2]))]
                cells.append(self.add({'op': 'mkCell', 'a': self.args('cell', coords_p=1.0), 'lines': ls, 'row': r, 'col': c},
                                      'cell', ls))
            rows.append(self.add({'op': 'mkRow', 'a': self.args('row'), 'cells': cells}, 'row', cells))
            if self.rng.random() < 0.5:
                self.ops.append({'op': 'setAsParent', 'p': rows[-1], 'cs': cells})
        t = self.add({'op': 'mkTable', 'a': self.args('table', coords_p=0.3), 'rows': rows}, 'table', rows)
        if self.rng.random() < 0.5:
            self.ops.append({'op': 'setAsParent', 'p': t, 'cs': rows})
        return t

    def region(self, depth: int, col=False) -> int:
        rng = self.rng
        ls = [self.line() for _ in range(rng.choice([0, 1, 1, 2, 3]))]
        rs = [self.region(depth - 1) for _ in range(rng.choice([0, 0, 1, 2]) if depth > 0 else 0)]
        ts = [self.table() for _ in range(1 if rng.random() < 0.12 else 0)]
        cls = 'column' if col else 'region'
        return self.add({'op': 'mkColumn' if col else 'mkRegion', 'a': self.args(cls), 'lines': ls, 'regions': rs,
                         'tables': ts}, cls, ls + rs + ts)

    def page(self, depth: int) -> int:
        rng = self.rng
        cols = [self.region(depth, col=True) for _ in range(rng.choice([0, 1, 2]))]
        rs = [self.region(depth) for _ in range(rng.choice([0, 0, 1]))]
        ex = [self.region(0) for _ in range(rng.choice([0, 0, 1]))]
        ls = [self.line()] if rng.random() < 0.1 else []
        return self.add({'op': 'mkPage', 'a': self.args('page'), 'lines': ls, 'regions': rs, 'tables': [],
                         'columns': cols, 'extra': ex}, 'page', ls + rs + cols + ex)

    def scan(self, depth: int) -> int:
        rng = self.rng
        pages = [self.page(depth) for _ in range(rng.choice([0, 0, 1, 2]))]
        cols = [self.region(depth, col=True) for _ in range(rng.choice([0, 0, 1]))]
        rs = [self.region(depth) for _ in range(rng.choice([0, 1, 2]))]
        ts = [self.table()] if rng.random() < 0.15 else []
        ls = [self.line()] if rng.random() < 0.1 else []
        return self.add({'op': 'mkScan', 'a': self.args('scan'), 'lines': ls, 'regions': rs, 'tables': ts,
                         'columns': cols, 'pages': pages}, 'scan', ls + rs + ts + cols + pages)

    # ---- growth and other mutators
    def grow(self, n_ops: int, keep_tree=True):
        rng = self.rng
        for _ in range(n_ops):
            r = rng.random()
            containers = [i for i, c in enumerate(self.cls) if c in ('region', 'column', 'page', 'scan')]
            if r < 0.55 and containers:
                p = rng.choice(containers)
                pc = self.cls[p]
                want = {'region': ['line', 'region', 'line', 'region', 'column'],
                        'column': ['line', 'region'],
                        'page': ['column', 'region', 'line', 'column'],
                        'scan': ['page', 'column', 'region', 'line', 'region']}[pc]
                cc = rng.choice(want)
                cand = [i for i in self.free([cc]) if i != p and not self.below(p, i)]
                if cand and rng.random() < 0.5:
                    c = rng.choice(cand)
                else:
                    c = {'line': self.line, 'region': lambda: self.region(1), 'column': lambda: self.region(1, col=True),
                         'page': lambda: self.page(1)}[cc]()
                op = {'op': 'addChild', 'p': p, 'c': c}
                if pc == 'page' and cc in ('region', 'column') and rng.random() < 0.4:
                    op['as_extra'] = True
                self.ops.append(op)
                self.listed[c] = True
                self.kids[p].append(c)
            elif r < 0.63 and containers:
                self.ops.append({'op': 'setParentage', 'p': rng.choice(containers)})
            elif r < 0.70:
                pairs = [(p, c) for p in range(len(self.cls)) for c in self.kids[p]]
                if pairs:
                    p, c = rng.choice(pairs)
                    self.ops.append({'op': 'setParent', 'c': c, 'p': p})
            elif r < 0.75 and containers:
                p = rng.choice(containers)
                if self.kids[p]:
                    self.ops.append({'op': 'setAsParent', 'p': p, 'cs': rng.sample(self.kids[p], min(2, len(self.kids[p])))})
            elif r < 0.85 and self.cls:
                n = rng.randrange(len(self.cls))
                ts = rng.sample(['main', 'mainly', 'header', 'page-header', 'para', 'marginalia', 'x'], rng.choice([1, 1, 2]))
                if rng.random() < 0.3:      # one call naming the same tag twice
                    ts = ts + [ts[0]]
                self.ops.append({'op': 'addType', 'n': n, 'ts': ts, 'as_str': rng.random() < 0.7})
                if rng.random() < 0.4:
                    self.ops.append({'op': 'addType', 'n': n, 'ts': ts[:1]})
            elif r < 0.93 and self.cls:
                n = rng.randrange(len(self.cls))
                ts = rng.sample(['main', 'mainly', 'header', 'page-header', 'para', 'marginalia', 'x'], rng.choice([1, 1, 2]))
                self.ops.append({'op': 'removeType', 'n': n, 'ts': ts, 'as_str': rng.random() < 0.7})
                self.ops.append({'op': 'hasType', 'n': n, 't': ts[0]})
            elif self.cls:
                n = rng.randrange(len(self.cls))
                self.ops.append(rng.choice([{'op': 'types', 'n': n}, {'op': 'hasType', 'n': n, 't': 'main'},
                                            {'op': 'hasType', 'n': n, 't': MAIN[self.cls[n]]},
                                            {'op': 'setFilename', 'n': n, 'v': 'f.xml'}]))

    def below(self, n: int, root: int) -> bool:
        """n is root or sits below root"""
        todo, seen = [root], set()
        while todo:
            x = todo.pop()
            if x == n:
                return True
            if x in seen:
                continue
            seen.add(x)
            todo.extend(self.kids[x])
        return False


def gen_bottom_up(rng: random.Random) -> List[Dict[str, Any]]:
    g = Gen(rng)
    top = rng.choice(['scan', 'scan', 'page', 'region', 'column', 'line', 'table'])
    depth = rng.choice([0, 1, 1, 2, 3])
    {'scan': lambda: g.scan(depth), 'page': lambda: g.page(depth), 'region': lambda: g.region(depth),
     'column': lambda: g.region(depth, col=True), 'line': g.line, 'table': g.table}[top]()
    if rng.random() < 0.5:
        g.grow(rng.randint(1, 4))
    return g.ops


def gen_growth(rng: random.Random) -> List[Dict[str, Any]]:
    g = Gen(rng)
    for _ in range(rng.randint(1, 3)):
        top = rng.choice(['scan', 'page', 'region', 'column', 'scan'])
        depth = rng.choice([0, 0, 1])
        {'scan': lambda: g.scan(depth), 'page': lambda: g.page(depth), 'region': lambda: g.region(depth),
         'column': lambda: g.region(depth, col=True)}[top]()
    g.grow(rng.randint(3, 12))
    return g.ops


def gen_typealg(rng: random.Random) -> List[Dict[str, Any]]:
    """type-tag algebra, including the tag list that collapses to a plain string"""
    g = Gen(rng)
    n = rng.choice([g.word, g.line, lambda: g.region(0), lambda: g.region(0, col=True)])()
    cls = g.cls[n]
    # user tags include pairs where one is a substring of the other ('main' in 'mainly')
    tags = list(CLASS_TAGS[cls]) + ['main', 'mainly', 'x', 'xy']
    ops = g.ops
    for _ in range(rng.randint(3, 10)):
        r = rng.random()
        t = rng.choice(tags)
        if r < 0.4:
            ops.append({'op': 'removeType', 'n': n, 'ts': rng.sample(tags, rng.choice([1, 2, 3, len(tags) - 1])),
                        'as_str': rng.random() < 0.5})
        elif r < 0.6:
            ts = rng.sample(tags, rng.choice([1, 2]))
            if rng.random() < 0.4:          # one call naming the same tag twice
                ts = ts + [rng.choice(ts)] + (['fresh'] * 2 if rng.random() < 0.5 else [])
            ops.append({'op': 'addType', 'n': n, 'ts': ts, 'as_str': rng.random() < 0.5})
        elif r < 0.9:
            ops.append({'op': 'hasType', 'n': n, 't': rng.choice([t, t[:3], t[1:], t + 's', 'doc', ''])})
        else:
            ops.append({'op': 'types', 'n': n})
    return ops


def gen_sharing(rng: random.Random) -> List[Dict[str, Any]]:
    """histories that leave the tree discipline or make the code raise: the model mirrors them,
    the oracle only judges the objects that still sit in exactly one container"""
    g = Gen(rng)
    kind = rng.choice(['twice', 'two-parents', 'illtyped', 'nocoords', 'celltext', 'nomethod', 'reparent', 'emptytable',
                       'cycle-self', 'cycle-ancestor', 'cycle-attach'])
    if kind == 'twice':
        l = g.line()
        r = g.add({'op': 'mkRegion', 'a': g.args('region'), 'lines': [l, l], 'regions': [], 'tables': []}, 'region', [l])
        g.ops.append({'op': 'addChild', 'p': r, 'c': l})
    elif kind == 'two-parents':
        l = g.line()
        r1 = g.add({'op': 'mkRegion', 'a': g.args('region'), 'lines': [l], 'regions': [], 'tables': []}, 'region', [l])
        r2 = g.add({'op': 'mkRegion', 'a': g.args('region'), 'lines': [l], 'regions': [], 'tables': []}, 'region', [l])
        if rng.random() < 0.5:
            g.add({'op': 'mkScan', 'a': g.args('scan'), 'lines': [], 'regions': [r1], 'tables': [], 'columns': [],
                   'pages': []}, 'scan', [r1])
        if rng.random() < 0.5:
            g.ops.append({'op': 'setParentage', 'p': r1})
    elif kind == 'illtyped':
        w = g.word()
        p = rng.choice([lambda: g.region(0), lambda: g.page(0), lambda: g.scan(0)])()
        g.ops.append({'op': 'addChild', 'p': p, 'c': w})
        t = g.table()
        g.ops.append({'op': 'addChild', 'p': p, 'c': t})
    elif kind == 'nocoords':
        l = g.add({'op': 'mkLine', 'a': {'id': {'s': 'nc'}, 'text': 'a'}, 'words': []}, 'line', [])
        p = rng.choice([lambda: g.region(0), lambda: g.page(0), lambda: g.scan(0)])()
        g.ops.append({'op': 'addChild', 'p': p, 'c': l})
    elif kind == 'celltext':
        l1 = g.line(need_text=True)
        l2 = g.add({'op': 'mkLine', 'a': {'id': {'s': 'nt'}, 'coords': 3}, 'words': []}, 'line', [])
        g.add({'op': 'mkCell', 'a': g.args('cell'), 'lines': [l1, l2], 'row': 0, 'col': 0}, 'cell', [l1, l2])
        g.ops.append({'op': 'types', 'n': l1})
    elif kind == 'nomethod':
        l = g.line()
        w = g.word()
        g.ops.append({'op': 'addChild', 'p': l, 'c': w})
    elif kind == 'reparent':
        r1 = g.region(0)
        r2 = g.region(0)
        if g.kids[r1]:
            c = g.kids[r1][0]
            g.ops.append({'op': 'setParent', 'c': c, 'p': r2})
            g.ops.append({'op': 'addChild', 'p': r2, 'c': c})
    elif kind == 'cycle-self':
        # add_child of the container itself: outside the discipline (Pre false), mirrored only; every later
        # recursion over the structure (set_parentage, set_scan_id) runs into RecursionError in both worlds
        r = g.region(rng.choice([0, 1]))
        g.ops.append({'op': 'addChild', 'p': r, 'c': r})
        g.ops.append(rng.choice([{'op': 'setParentage', 'p': r}, {'op': 'types', 'n': r}]))
    elif kind == 'cycle-ancestor':
        outer = g.region(rng.choice([1, 2]))
        inner = [i for i in range(len(g.cls)) if g.cls[i] in ('region', 'column') and i != outer and g.below(i, outer)]
        if inner:
            p = rng.choice(inner)
            g.ops.append({'op': 'addChild', 'p': p, 'c': outer})
            if rng.random() < 0.6:
                g.ops.append({'op': 'setParentage', 'p': rng.choice([p, outer])})
            if rng.random() < 0.5:
                g.add({'op': 'mkScan', 'a': g.args('scan'), 'lines': [], 'regions': [], 'tables': [], 'columns': [],
                       'pages': []}, 'scan', [])
    elif kind == 'cycle-attach':
        r = g.add({'op': 'mkRegion', 'a': g.args('region'), 'lines': [], 'regions': [], 'tables': []}, 'region', [])
        g.ops.append({'op': 'attachRegions', 'p': r, 'cs': [r]})
        if rng.random() < 0.5:
            g.ops.append({'op': 'setParentage', 'p': r})
    else:
        t = g.add({'op': 'mkTable', 'a': g.args('table'), 'rows': []}, 'table', [])
        l = g.line()
        g.ops.append({'op': 'setParent', 'c': l, 'p': t})
        g.ops.append({'op': 'mkRow', 'a': g.args('row'), 'cells': []})     # IndexError: no object
    if rng.random() < 0.5:
        g.grow(rng.randint(1, 3))
    return g.ops


def enum_attach() -> List[List[Dict[str, Any]]]:
    """exhaustive: every (container class, child class, attach mode, scan context) combination"""
    out = []
    A = lambda i, **k: dict({'id': {'s': i}, 'coords': 1}, **k)  # noqa
    combos = [('line', 'word'), ('region', 'line'), ('region', 'region'), ('column', 'line'), ('column', 'region'),
              ('page', 'column'), ('page', 'region'), ('page', 'extra'), ('page', 'line'), ('scan', 'page'),
              ('scan', 'column'), ('scan', 'region'), ('scan', 'line'), ('cell', 'line')]
    for (P, C), mode, ctx in itertools.product(combos, ['ctor', 'add'], ['none', 'scan-after', 'scan-before']):
        if mode == 'add' and P in ('line', 'cell'):
            continue
        if P == 'scan' and ctx != 'none':
            continue
        ops: List[Dict[str, Any]] = []
        Cc = 'region' if C == 'extra' else C
        mk = {'word': 'mkWord', 'line': 'mkLine', 'region': 'mkRegion', 'column': 'mkColumn', 'page': 'mkPage'}[Cc]
        ops.append({'op': mk, 'a': A('c', text='t u')})                                  # node 0: the child
        field = {'word': 'words', 'line': 'lines', 'region': 'regions', 'column': 'columns', 'page': 'pages',
                 'extra': 'extra'}[C]
        mkP = {'line': 'mkLine', 'region': 'mkRegion', 'column': 'mkColumn', 'page': 'mkPage', 'scan': 'mkScan',
               'cell': 'mkCell'}[P]

        def nn():
            return sum(1 for o in ops if o['op'].startswith('mk'))

        def wrap(inner):   # put node `inner` (the container P) below a scan
            if P == 'region':
                ops.append({'op': 'mkScan', 'a': A('s'), 'regions': [inner]})
            elif P == 'column':
                pg = nn()
                ops.append({'op': 'mkPage', 'a': A('pg'), 'columns': [inner]})
                ops.append({'op': 'mkScan', 'a': A('s'), 'pages': [pg]})
            elif P == 'page':
                ops.append({'op': 'mkScan', 'a': A('s'), 'pages': [inner]})
            elif P == 'line':
                r = nn()
                ops.append({'op': 'mkRegion', 'a': A('r'), 'lines': [inner]})
                ops.append({'op': 'mkScan', 'a': A('s'), 'regions': [r]})
            elif P == 'cell':
                rw = nn()
                ops.append({'op': 'mkRow', 'a': A('rw'), 'cells': [inner]})
                ops.append({'op': 'mkTable', 'a': A('t'), 'rows': [rw]})
                ops.append({'op': 'mkScan', 'a': A('s'), 'tables': [rw + 1]})
        if mode == 'ctor':
            if ctx == 'scan-before':
                continue     # with a constructor the child is there before any scan: same as scan-after
            ops.append({'op': mkP, 'a': A('p', text='t'), field: [0]})                 # node 1: the container
            if ctx == 'scan-after':
                wrap(1)
        else:
            ops.append({'op': mkP, 'a': A('p', text='t')})                             # node 1
            if ctx == 'scan-before':
                wrap(1)
            add = {'op': 'addChild', 'p': 1, 'c': 0}
            if C == 'extra':
                add['as_extra'] = True
            ops.append(add)
            if ctx == 'scan-after':
                wrap(1)
        out.append(ops)
    return out


def enum_rejected() -> List[List[Dict[str, Any]]]:
    """an add_child that is rejected (a region / page cannot hold a word or a table), and the rejected child attached
    properly afterwards: whatever the rejected call left on the child (see rejected_link_fields), the later attachment
    must write the link and the provenance of the real container, and below a scan the scan's id"""
    out = []
    A = lambda i, **k: dict({'id': {'s': i}, 'coords': 1}, **k)  # noqa
    for P, child, ctx, stale in itertools.product(['region', 'page'], ['word', 'table'], ['none', 'scan'], [False, True]):
        md = [['parent_id', {'s': 'stale'}], ['page_id', {'s': 'stale'}]] if stale else []
        ops: List[Dict[str, Any]] = []
        if child == 'word':
            ops.append({'op': 'mkWord', 'a': A('w', text='t', md=md)})                          # node 0
        else:
            ops.append({'op': 'mkTable', 'a': A('t', md=md), 'rows': []})                        # node 0
        ops.append({'op': 'mkRegion' if P == 'region' else 'mkPage', 'a': A('p')})               # node 1
        if ctx == 'scan':
            ops.append({'op': 'mkScan', 'a': A('s'), ('regions' if P == 'region' else 'pages'): [1]})   # node 2
        n = len(ops)
        ops.append({'op': 'addChild', 'p': 1, 'c': 0})                                           # rejected
        ops.append({'op': 'addChild', 'p': 1, 'c': 0})                                           # … twice
        if child == 'word':
            ops.append({'op': 'mkLine', 'a': A('l', text='t'), 'words': [0]})                    # node n: the real container
            ops.append({'op': 'addChild', 'p': 1, 'c': n})
        else:
            ops.append({'op': 'mkRegion', 'a': A('r2'), 'tables': [0]})                          # node n
            ops.append({'op': 'addChild', 'p': 1, 'c': n})
        ops.append({'op': 'setParentage', 'p': 1})
        out.append(ops)
    return out


# ---------------------------------------------------------------------------------------------
# parse (through real XML text) and JSON rebuild as histories
# ---------------------------------------------------------------------------------------------

def _pts(tok: int) -> str:
    return box(tok).point_string


def _custom_md(custom: Optional[str]) -> List[List[Any]]:
    """initial metadata the parser hands to a constructor for a `custom` attribute
    (custom-attribute parsing is C11's subject; here it only supplies the initial dict)"""
    if custom is None:
        return []
    from pagexml.parser import parse_custom_metadata
    md = parse_custom_metadata({'@custom': custom})
    return [[k, enc_val(v)] for k, v in md.items()]


def gen_parse_spec(rng: random.Random, depth=2) -> Dict[str, Any]:
    cnt = itertools.count(1)

    def ident(p):
        return f'{p}{next(cnt)}'

    def word():
        return {'id': ident('w'), 'coords': rng.randrange(300), 'text': rng.choice(['a', 'bc', None])}

    def line(need_text=False):
        return {'id': ident('l') if rng.random() < 0.9 else None, 'coords': rng.randrange(300),
                'text': rng.choice(['a b', 'x y z']) if need_text or rng.random() < 0.8 else None,
                'custom': rng.choice([None, None, 'structure {type:heading;}']),
                'words': [word() for _ in range(rng.choice([0, 0, 1, 2]))]}

    def region(d):
        return {'id': ident('r') if rng.random() < 0.9 else None, 'coords': rng.randrange(300),
                'custom': rng.choice([None, None, 'structure {type:paragraph;}', 'readingOrder {index:0;}']),
                'lines_first': rng.random() < 0.7,
                'lines': [line() for _ in range(rng.choice([0, 1, 2, 3]))],
                'regions': [region(d - 1) for _ in range(rng.choice([0, 0, 1, 2]) if d > 0 else 0)]}

    def table():
        cells = []
        for r in rng.sample([0, 1, 2], rng.choice([1, 2])):
            for c in range(rng.choice([1, 2])):
                cells.append({'id': ident('c'), 'row': r, 'col': c, 'coords': rng.randrange(300),
                              'lines': [line(True) for _ in range(rng.choice([0, 1, 2]))]})
        rng.shuffle(cells)
        return {'id': ident('t'), 'cells': cells, 'custom': rng.choice([None, 'structure {type:tab;}'])}

    return {'file': 'doc.xml', 'image': rng.choice(['scan-1.jpg', None]),
            'regions': [region(depth) for _ in range(rng.choice([1, 1, 2, 3]))],
            'tables': [table() for _ in range(rng.choice([0, 0, 1]))]}


def spec_to_xml(spec: Dict[str, Any]) -> str:
    from xml.sax.saxutils import quoteattr, escape

    def att(name, v):
        return '' if v is None else f' {name}={quoteattr(v)}'

    def line(l):
        s = f'<TextLine{att("id", l["id"])}{att("custom", l["custom"])}><Coords points="{_pts(l["coords"])}"/>'
        for w in l['words']:
            s += f'<Word id="{w["id"]}"><Coords points="{_pts(w["coords"])}"/>'
            if w['text'] is not None:
                s += f'<TextEquiv><Unicode>{escape(w["text"])}</Unicode></TextEquiv>'
            s += '</Word>'
        if l['text'] is not None:
            s += f'<TextEquiv><Unicode>{escape(l["text"])}</Unicode></TextEquiv>'
        return s + '</TextLine>'

    def region(r):
        s = f'<TextRegion{att("id", r["id"])}{att("custom", r["custom"])}><Coords points="{_pts(r["coords"])}"/>'
        ls = ''.join(line(l) for l in r['lines'])
        rs = ''.join(region(x) for x in r['regions'])
        return s + (ls + rs if r['lines_first'] else rs + ls) + '</TextRegion>'

    def table(t):
        s = f'<TableRegion id="{t["id"]}"{att("custom", t["custom"])}>'
        for c in t['cells']:
            s += (f'<TableCell id="{c["id"]}" row="{c["row"]}" col="{c["col"]}"><Coords points="{_pts(c["coords"])}"/>'
                  + ''.join(line(l) for l in c['lines']) + '</TableCell>')
        return s + '</TableRegion>'

    img = att('imageFilename', spec['image'])
    return ('<?xml version="1.0" encoding="UTF-8"?>'
            '<PcGts xmlns="http://schema.primaresearch.org/PAGE/gts/pagecontent/2013-07-15">'
            '<Metadata><Creator>gen</Creator></Metadata>'
            f'<Page{img} imageWidth="4000" imageHeight="3000">'
            + ''.join(region(r) for r in spec['regions']) + ''.join(table(t) for t in spec['tables'])
            + '</Page></PcGts>')


def spec_to_history(spec: Dict[str, Any]):
    """the operations the parser performs on the model objects, in its execution order, and for
    every created node the path under which the parsed object is found"""
    ops: List[Dict[str, Any]] = []
    paths: List[Any] = []

    def emit(op, path):
        ops.append(op)
        if op['op'].startswith('mk'):
            paths.append(path)
            return len(paths) - 1
        return None

    def line(l, path):
        ws = [emit({'op': 'mkWord', 'a': {'id': {'s': w['id']}, 'coords': w['coords'], 'text': w['text']}},
                   path + [('words', i)]) for i, w in enumerate(l['words'])]
        a = {'id': enc_val(l['id']), 'coords': l['coords'], 'text': l['text'], 'md': _custom_md(l['custom'])}
        return emit({'op': 'mkLine', 'a': a, 'words': ws}, path)

    def region(r, path):
        md = _custom_md(r['custom'])
        n = emit({'op': 'mkRegion', 'a': {'id': enc_val(r['id']), 'coords': r['coords'], 'md': md}}, path)
        typ = [dec_val(v) for k, v in md if k == 'type']
        if typ:
            emit({'op': 'addType', 'n': n, 'ts': [typ[0]]}, None)

        def do_lines():
            if r['lines']:
                ls = [line(l, path + [('lines', i)]) for i, l in enumerate(r['lines'])]
                emit({'op': 'attachLines', 'p': n, 'cs': ls}, None)

        def do_regions():
            if r['regions']:
                rs = [region(x, path + [('text_regions', i)]) for i, x in enumerate(r['regions'])]
                emit({'op': 'attachRegions', 'p': n, 'cs': rs}, None)
        if r['lines_first']:
            do_lines(), do_regions()
        else:
            do_regions(), do_lines()
        return n

    def table(t, path):
        md = _custom_md(t['custom'])
        n = emit({'op': 'mkTable', 'a': {'id': {'s': t['id']}, 'md': md}}, path)
        typ = [dec_val(v) for k, v in md if k == 'type']
        if typ:
            emit({'op': 'addType', 'n': n, 'ts': [typ[0]]}, None)
        row_order: List[int] = []
        for c in t['cells']:
            if c['row'] not in row_order:
                row_order.append(c['row'])
        cell_node = {}
        for c in t['cells']:
            ri = row_order.index(c['row'])
            ci = [x for x in t['cells'] if x['row'] == c['row']].index(c)
            cpath = path + [('rows', ri), ('cells', ci)]
            ls = [line(l, cpath + [('lines', i)]) for i, l in enumerate(c['lines'])]
            cell_node[c['id']] = emit({'op': 'mkCell', 'a': {'id': {'s': c['id']}, 'coords': c['coords']}, 'lines': ls,
                                       'row': c['row'], 'col': c['col']}, cpath)
        rows = []
        for ri, rv in enumerate(row_order):
            cs = [cell_node[c['id']] for c in t['cells'] if c['row'] == rv]
            rn = emit({'op': 'mkRow', 'a': {'id': enc_val(rv), 'coords': 0}, 'cells': cs}, path + [('rows', ri)])
            emit({'op': 'setAsParent', 'p': rn, 'cs': cs}, None)
            rows.append(rn)
        emit({'op': 'attachRows', 'p': n, 'cs': rows}, None)
        return n

    rs = [region(r, [('text_regions', i)]) for i, r in enumerate(spec['regions'])]
    ts = [table(t, [('table_regions', i)]) for i, t in enumerate(spec['tables'])]
    md = [['Creator', {'s': 'gen'}], ['scan_width', enc_val(4000)], ['scan_height', enc_val(3000)]]
    sid = spec['image'] if spec['image'] is not None else spec['file']
    s = emit({'op': 'mkScan', 'a': {'id': {'s': sid}, 'md': md, 'coords': 0}, 'regions': rs, 'tables': ts}, [])
    emit({'op': 'setFilename', 'n': s, 'v': spec['file']}, None)
    return ops, paths


def spec_to_tree(spec: Dict[str, Any]):
    """the parse spec as the document tree of the MODEL's parser history (Model/C02Hist.lean, `PScan.hist`), and the
    paths of the parsed objects in the order that history creates them (a region before its children; the cells of a
    table grouped by row, each row after its cells)"""
    paths: List[Any] = []

    def line(l, path):
        kids = []
        for i, w in enumerate(l['words']):
            paths.append(path + [('words', i)])
            kids.append({'kind': 'word', 'a': {'id': {'s': w['id']}, 'coords': w['coords'], 'text': w['text']}})
        paths.append(path)
        return {'kind': 'line', 'kids': kids,
                'a': {'id': enc_val(l['id']), 'coords': l['coords'], 'text': l['text'], 'md': _custom_md(l['custom'])}}

    def region(r, path):
        md = _custom_md(r['custom'])
        typ = [dec_val(v) for k, v in md if k == 'type']
        paths.append(path)
        out = {'a': {'id': enc_val(r['id']), 'coords': r['coords'], 'md': md}, 'add_type': typ[:1],
               'lines_first': bool(r['lines_first'])}

        def do_lines():
            out['lines'] = [line(l, path + [('lines', i)]) for i, l in enumerate(r['lines'])]

        def do_regions():
            out['regions'] = [region(x, path + [('text_regions', i)]) for i, x in enumerate(r['regions'])]
        if r['lines_first']:
            do_lines(), do_regions()
        else:
            do_regions(), do_lines()
        return out

    def table(t, path):
        md = _custom_md(t['custom'])
        typ = [dec_val(v) for k, v in md if k == 'type']
        paths.append(path)
        row_order: List[int] = []
        for c in t['cells']:
            if c['row'] not in row_order:
                row_order.append(c['row'])
        rows = []
        for ri, rv in enumerate(row_order):
            cells = []
            for ci, c in enumerate([x for x in t['cells'] if x['row'] == rv]):
                cpath = path + [('rows', ri), ('cells', ci)]
                ls = [line(l, cpath + [('lines', i)]) for i, l in enumerate(c['lines'])]
                paths.append(cpath)
                cells.append({'kind': 'cell', 'a': {'id': {'s': c['id']}, 'coords': c['coords']}, 'kids': ls})
            paths.append(path + [('rows', ri)])
            rows.append({'kind': 'row', 'a': {'id': enc_val(rv), 'coords': 0}, 'kids': cells})
        return {'a': {'id': {'s': t['id']}, 'md': md}, 'add_type': typ[:1], 'rows': rows}

    rs = [region(r, [('text_regions', i)]) for i, r in enumerate(spec['regions'])]
    ts = [table(t, [('table_regions', i)]) for i, t in enumerate(spec['tables'])]
    md = [['Creator', {'s': 'gen'}], ['scan_width', enc_val(4000)], ['scan_height', enc_val(3000)]]
    sid = spec['image'] if spec['image'] is not None else spec['file']
    paths.append([])
    return {'a': {'id': {'s': sid}, 'md': md, 'coords': 0}, 'regions': rs, 'tables': ts, 'file': spec['file']}, paths


def json_tree(j: Dict[str, Any]) -> Dict[str, Any]:
    """the JSON dict as the document tree of the MODEL's JSON-builder history (`JTree.hist true`); children in the
    order the builders construct them (the same order as `json_history` below)"""
    def args(d, text=False):
        a = {'id': enc_val(d['id']), 'dtype': [d['type']] if isinstance(d['type'], str) else list(d['type']),
             'md': [[k, enc_val(v)] for k, v in d['metadata'].items()]}
        if 'coords' in d:
            a['coords'] = 0
        if text:
            a['text'] = d.get('text')
        return a

    def node(kind, d, kids, text=False, extra=False):
        return {'kind': kind, 'extra': extra, 'a': args(d, text), 'kids': kids}

    def line(d):
        return node('line', d, [node('word', w, [], True) for w in d.get('words', [])], True)

    def text_region(d, extra=False):
        return node('region', d, [text_region(x) for x in d.get('text_regions', [])] + [line(x) for x in d.get('lines', [])]
                    + [table(x) for x in d.get('table_regions', [])], True, extra)

    def table(d):
        return node('table', d, [node('row', r, [node('cell', c, [line(x) for x in c.get('lines', [])])
                                                 for c in r.get('cells', [])]) for r in d.get('rows', [])])

    def regions(d):
        return [text_region(x) for x in d.get('text_regions', [])] + [table(x) for x in d.get('table_regions', [])]

    def column(d):
        return node('column', d, regions(d) + [line(x) for x in d.get('lines', [])])

    def container(d):
        return [column(x) for x in d.get('columns', [])] + regions(d) + [line(x) for x in d.get('lines', [])]

    def page(d):
        return node('page', d, [text_region(x, True) for x in d.get('extra', [])] + container(d))

    def scan(d):
        return node('scan', d, [page(x) for x in d.get('pages', [])] + container(d))

    t = j['type']
    if 'scan' in t:
        return scan(j)
    if 'page' in t:
        return page(j)
    if 'column' in t:
        return column(j)
    if 'text_region' in t:
        return text_region(j)
    if 'line' in t:
        return line(j)
    return node('word', j, [], True)


def follow(root, path):
    o = root
    for attr, i in path:
        o = getattr(o, attr)[i]
    return o


def json_history(j: Dict[str, Any], base: int):
    """the operations parse_pagexml_from_json performs for the JSON dict `j` (nodes numbered
    from `base`), and the paths of the created objects under the rebuilt root"""
    ops: List[Dict[str, Any]] = []
    paths: List[Any] = []

    def emit(op, path=None):
        ops.append(op)
        if op['op'].startswith('mk'):
            paths.append(path)
            return base + len(paths) - 1
        return None

    def args(d, text=False):
        a = {'id': enc_val(d['id']), 'dtype': [d['type']] if isinstance(d['type'], str) else list(d['type']),
             'md': [[k, enc_val(v)] for k, v in d['metadata'].items()]}
        if 'coords' in d:
            a['coords'] = 0
        if text:
            a['text'] = d.get('text')
        return a

    def line(d, path):
        ws = [emit({'op': 'mkWord', 'a': args(w, True)}, path + [('words', i)]) for i, w in enumerate(d.get('words', []))]
        return emit({'op': 'mkLine', 'a': args(d, True), 'words': ws}, path)

    def text_region(d, path):
        rs = [text_region(x, path + [('text_regions', i)]) for i, x in enumerate(d.get('text_regions', []))]
        ls = [line(x, path + [('lines', i)]) for i, x in enumerate(d.get('lines', []))]
        ts = [table(x, path + [('table_regions', i)]) for i, x in enumerate(d.get('table_regions', []))]
        n = emit({'op': 'mkRegion', 'a': args(d, True), 'lines': ls, 'regions': rs, 'tables': ts}, path)
        emit({'op': 'setParentage', 'p': n})
        return n

    def cell(d, path):
        ls = [line(x, path + [('lines', i)]) for i, x in enumerate(d.get('lines', []))]
        n = emit({'op': 'mkCell', 'a': args(d), 'lines': ls}, path)
        emit({'op': 'setParentage', 'p': n})
        return n

    def row(d, path):
        cs = [cell(x, path + [('cells', i)]) for i, x in enumerate(d.get('cells', []))]
        n = emit({'op': 'mkRow', 'a': args(d), 'cells': cs}, path)
        emit({'op': 'setParentage', 'p': n})
        return n

    def table(d, path):
        rws = [row(x, path + [('rows', i)]) for i, x in enumerate(d.get('rows', []))]
        n = emit({'op': 'mkTable', 'a': args(d), 'rows': rws}, path)
        emit({'op': 'setParentage', 'p': n})
        return n

    def regions(d, path):
        rs = [text_region(x, path + [('text_regions', i)]) for i, x in enumerate(d.get('text_regions', []))]
        ts = [table(x, path + [('table_regions', i)]) for i, x in enumerate(d.get('table_regions', []))]
        return rs, ts

    def column(d, path):
        rs, ts = regions(d, path)
        ls = [line(x, path + [('lines', i)]) for i, x in enumerate(d.get('lines', []))]
        n = emit({'op': 'mkColumn', 'a': args(d), 'lines': ls, 'regions': rs, 'tables': ts}, path)
        emit({'op': 'setParentage', 'p': n})
        return n

    def container(d, path):
        cols = [column(x, path + [('columns', i)]) for i, x in enumerate(d.get('columns', []))]
        rs, ts = regions(d, path)
        ls = [line(x, path + [('lines', i)]) for i, x in enumerate(d.get('lines', []))]
        return cols, rs, ts, ls

    def page(d, path):
        ex = [text_region(x, path + [('extra', i)]) for i, x in enumerate(d.get('extra', []))]
        cols, rs, ts, ls = container(d, path)
        n = emit({'op': 'mkPage', 'a': args(d), 'lines': ls, 'regions': rs, 'tables': ts, 'columns': cols, 'extra': ex}, path)
        emit({'op': 'setParentage', 'p': n})
        return n

    def scan(d, path):
        pages = [page(x, path + [('pages', i)]) for i, x in enumerate(d.get('pages', []))]
        cols, rs, ts, ls = container(d, path)
        n = emit({'op': 'mkScan', 'a': args(d), 'lines': ls, 'regions': rs, 'tables': ts, 'columns': cols, 'pages': pages}, path)
        emit({'op': 'setParentage', 'p': n})
        return n

    t = j['type']
    if 'scan' in t:
        scan(j, [])
    elif 'page' in t:
        page(j, [])
    elif 'column' in t:
        column(j, [])
    elif 'text_region' in t:
        text_region(j, [])
    elif 'line' in t:
        line(j, [])
    elif 'word' in t:
        emit({'op': 'mkWord', 'a': args(j, True)}, [])
    return ops, paths


# ---------------------------------------------------------------------------------------------
# the oracle: the property statement on dumps of the real objects
# ---------------------------------------------------------------------------------------------

def containers_of(dump: List[Dict[str, Any]]) -> Dict[int, List[int]]:
    """node -> the nodes that list it (any child list), with multiplicity"""
    cont: Dict[int, List[int]] = {}
    for p, d in enumerate(dump):
        for name in DUMP_LISTS.values():
            for c in d[name]:
                cont.setdefault(c, []).append(p)
    return cont


def judge_dump(dump: List[Dict[str, Any]], removed: Dict[int, set], path_hint: str) -> List[tuple]:
    """[(key, what)] — the clauses of C02 on one dump of real objects.
    Only objects that sit in exactly one container exactly once are judged for the link
    clauses (the property speaks of trees); `removed[n]` = class tags removed on purpose."""
    bad = []
    cont = containers_of(dump)
    for p, d in enumerate(dump):
        if d['cls'] in ('table', 'row'):
            kids = []
        else:
            kids = [c for name in ('pages', 'columns', 'extra', 'regions', 'lines', 'words') for c in d[name]]
        for c in kids:
            if c is None or c < 0 or len(cont.get(c, [])) != 1:
                continue
            cd = dump[c]
            if cd['cls'] not in ('word', 'line', 'region', 'column', 'page', 'scan'):
                continue
            where = f'{d["cls"]}>{cd["cls"]}'
            if cd['parent'] != p:
                bad.append((f'parent-link:{where}', f'{path_hint}: node {c} ({cd["cls"]}) is listed by node {p} '
                                                    f'({d["cls"]}) but its parent is {cd["parent"]}'))
                continue
            exp = {'parent_id': d['id'], 'parent_type': {'s': d['main_type']}, d['main_type'] + '_id': d['id']}
            for k, v in exp.items():
                if k not in cd['md'] or cd['md'][k] != v:
                    kk = k if k in ('parent_id', 'parent_type') else '<type>_id'
                    bad.append((f'provenance:{where}:{kk}', f'{path_hint}: node {c} ({cd["cls"]}) in node {p} ({d["cls"]}, '
                                                            f'id {d["id"]}): metadata[{k!r}] = {cd["md"].get(k, "<missing>")!r}, expected {v!r}'))
    # below a scan: scan_id
    for s, d in enumerate(dump):
        if d['cls'] != 'scan':
            continue
        seen, todo, path_ok = set(), [(s, True)], {}
        while todo:
            x, ok = todo.pop()
            if x in seen or x is None or x < 0:
                continue
            seen.add(x)
            path_ok[x] = ok
            for name in DUMP_LISTS.values():
                for c in dump[x][name]:
                    todo.append((c, ok and c is not None and c >= 0 and len(cont.get(c, [])) == 1))
        for x in seen:
            if x == s or not path_ok[x]:
                continue
            xd = dump[x]
            if xd['cls'] not in ('word', 'line', 'region', 'column', 'page'):
                continue
            # not below another scan as well
            if xd['md'].get('scan_id', '<missing>') != d['id']:
                bad.append((f'scan-id:{xd["cls"]}', f'{path_hint}: node {x} ({xd["cls"]}) is below scan node {s} (id {d["id"]}) '
                                                    f'but metadata["scan_id"] = {xd["md"].get("scan_id", "<missing>")!r}'))
    # main type and generic tags
    for n, d in enumerate(dump):
        tags = [d['type']] if isinstance(d['type'], str) else d['type']
        if d['main_type'] != MAIN[d['cls']]:
            bad.append((f'main-type:{d["cls"]}', f'{path_hint}: node {n} ({d["cls"]}) has main_type {d["main_type"]!r}'))
        for t in [MAIN[d['cls']]] + GENERIC:
            if t not in tags and t not in removed.get(n, set()):
                bad.append((f'type-tag:{d["cls"]}:{t}', f'{path_hint}: node {n} ({d["cls"]}) lacks the type tag {t!r}: {tags}'))
    return bad


def pre_ok(dump: List[Dict[str, Any]], op: Dict[str, Any]) -> bool:
    """the tree discipline (the model's `Pre`), evaluated on the dump of the REAL objects before
    the operation: children are attached only while unlisted, scans are never attached,
    set_parent names the element's own container, demanded tags are not removed"""
    if any(not (0 <= r < len(dump)) for r in World._refs(op)):
        return False
    cont = containers_of(dump)
    free = lambda c: not cont.get(c)  # noqa
    only_by = lambda c, p: all(x == p for x in cont.get(c, []))  # noqa
    not_scan = lambda c: dump[c]['cls'] != 'scan'  # noqa
    def below(n, root):
        """n is root or sits below root (child lists of the real objects)"""
        todo, seen = [root], set()
        while todo:
            x = todo.pop()
            if x == n:
                return True
            if x in seen or x is None or x < 0:
                continue
            seen.add(x)
            for name in DUMP_LISTS.values():
                todo.extend(dump[x][name])
        return False
    k = op['op']
    if k == 'addChild':
        # … and never below itself: add_child of the container itself or of one of its ancestors closes a cycle
        return free(op['c']) and not_scan(op['c']) and not below(op['p'], op['c'])
    if k == 'setParent':
        return only_by(op['c'], op['p']) and not_scan(op['c'])
    if k == 'setAsParent':
        return all(only_by(c, op['p']) and not_scan(c) for c in op.get('cs', []))
    if k in ('attachLines', 'attachRegions', 'attachRows'):
        return (free(op['p']) and not_scan(op['p'])
                and all(only_by(c, op['p']) and not_scan(c) for c in op.get('cs', []))
                and all(c != op['p'] for c in op.get('cs', [])))
    if k == 'removeType':
        return all(t not in [MAIN[dump[op['n']]['cls']]] + GENERIC for t in op['ts'])
    if k.startswith('mk'):
        kids = [c for f in ('words', 'lines', 'regions', 'tables', 'columns', 'extra', 'pages', 'cells', 'rows')
                for c in op.get(f, [])]
        return all(free(c) and not_scan(c) for c in kids)
    return True


def multi_scan(dump) -> bool:
    """some node sits below two scans, or a scan sits below something"""
    cont = containers_of(dump)
    return any(d['cls'] == 'scan' and cont.get(i) for i, d in enumerate(dump))


_JSON_CACHE: Dict[int, Any] = {}


class C02(Check):
    pid = 'C02'
    props_module = 'PagexmlModel.Props.C02'
    anchors = {
        'pagexml/model/basic_document_model.py': [
            'StructureDoc.__init__', 'StructureDoc.set_parent', 'StructureDoc.set_as_parent',
            'StructureDoc.add_parent_id_to_metadata', 'StructureDoc.add_type', 'StructureDoc.remove_type',
            'StructureDoc.has_type', 'StructureDoc.types', 'PhysicalStructureDoc.__init__',
            'PhysicalStructureDoc.add_parent_id_to_metadata'],
        'pagexml/model/pagexml_document_model.py': [
            'PageXMLDoc.__init__', 'PageXMLWord.__init__', 'PageXMLTextLine.__init__', 'PageXMLTextRegion.__init__',
            'PageXMLTextRegion.add_child', 'PageXMLColumn.__init__', 'PageXMLPage.__init__', 'PageXMLPage.add_child',
            'PageXMLScan.__init__', 'PageXMLScan.add_child', 'PageXMLScan.set_scan_id_as_metadata', 'set_scan_id',
            'PageXMLTableCell.__init__', 'PageXMLTableRow.__init__', 'PageXMLTableRegion.__init__'],
        'pagexml/model/physical_document_model.py': ['set_parentage'],
        'pagexml/parser.py': ['parse_textregion', 'parse_tableregion', 'make_rows_from_cells', 'parse_pagexml_json',
                              'json_to_pagexml_text_region', 'json_to_pagexml_line', 'json_to_pagexml_page',
                              'json_to_pagexml_scan', 'json_to_pagexml_column'],
    }
    level_note = ('proved in Lean for every history of the modelled operations that meets the decidable precondition Pre '
                  '(unbounded length and object count): links + provenance keys (C02_linked), scan id below a scan incl. late '
                  'add_child and the table structure (C02_scan_tagged), main type + generic tags (C02_typed), forest shape, no '
                  'cycles (C02_acyclic), depth <= number of objects (C02_depth_le_size), hence set_scan_id / set_parentage never '
                  'run out of their fuel size+1 and no disciplined operation fails (C02_fuel_suffices, C02_run_total), type-tag '
                  'algebra.  C02_parse_linked / C02_json_linked: the operation sequences of the XML parser (PScan.hist), of the '
                  'JSON builders (JTree.hist true) and of bottom-up construction (JTree.hist false) are defined in the model as '
                  'functions of the document tree and PROVED, for every tree, to meet Pre at every step and to end in a store '
                  'satisfying the invariant - also next to documents that exist already.  Tie: the model-defined history of every '
                  'generated parse / JSON case is run by the driver and its final store compared with the dump of the real parsed / '
                  'rebuilt objects; the harness\'s own replay list (spec_to_history / json_history) is kept as a second witness.  '
                  'Not proved: that the real parser and builders perform exactly these sequences (that is what the comparison '
                  'samples); in the parser history the cells of a table are created grouped by row (make_rows_from_cells groups '
                  'them; documents listing one row\'s cells non-contiguously differ in creation order only).  Histories on USED '
                  'objects (wave 4; an observer is the identity of the model store, so no new model operation): a share of every '
                  'history family is run with all objects read through the library\'s observers (JSON view, stats, get_lines / '
                  'get_words / inner regions / reading order, repr, types) after EVERY operation before the store is dumped; a '
                  'parsed scan is observed, another document with the same ids and the same text are parsed in the same process, '
                  'and both the first scan\'s objects and the second parse must repeat the first dump; a JSON view is taken twice '
                  'and rebuilt twice (string and dictionary form), source and rebuilt objects re-dumped afterwards.  '
                  'Correspondence level: an add_child that raises attaches nothing, and the statement speaks of the ACTUAL container '
                  'only — what such a call leaves on the rejected child (its parent field and the metadata keys parent_id, parent_type, '
                  '<type of the rejecting container>_id; the model mirrors "re-parented first") is not compared on that node until a '
                  'later operation writes the field again; raised-or-not, all child lists and all other fields stay exact')
    assumptions = [
        'histories are sequences of the modelled operations (constructors, add_child, set_parent, set_as_parent, '
        'the parser\'s attach statements, set_parentage, add_type/remove_type, has_type/types); attributes are not '
        'assigned behind the model\'s back and no reading order is passed to constructors',
        'the link clauses are claimed for histories that keep the structure a forest: a child is attached only while '
        'no container lists it and never below itself (no add_child of the container itself or of one of its ancestors), '
        'and a scan is never attached as a child (decidable precondition `Pre`, evaluated by '
        'the model on every correspondence history); for other histories the model still mirrors the code '
        '(last writer wins) but no invariant is claimed',
        'custom-attribute parsing (C11) and the JSON view (C06) only supply initial metadata / constructor arguments',
        'rows are constructed from cells with one common row index and integer column indices',
    ]
    nontrivial_rule = 'distinct histories with at least one attachment (a constructor with children, add_child, set_parent…)'

    # ------------------------------------------------------------------ generation
    def cases(self, rng: random.Random, tier: str) -> Iterable[Case]:
        out: List[Case] = []
        for ops in CORPUS:
            out.append(Case('history', {'ops': ops}, ['corpus']))
        for ops in enum_attach():
            out.append(Case('history', {'ops': ops}, ['enum-attach']))
        n = 250 if tier == 'quick' else 2500
        for _ in range(n * 6 // 10):
            out.append(Case('history', {'ops': gen_bottom_up(rng)}, ['bottom-up']))
        for _ in range(n * 25 // 100):
            out.append(Case('history', {'ops': gen_growth(rng)}, ['growth']))
        for _ in range(n // 10):
            out.append(Case('history', {'ops': gen_sharing(rng)}, ['sharing']))
        for _ in range(n // 10):
            out.append(Case('history', {'ops': gen_typealg(rng)}, ['typealg']))
        # the same families on USED objects: after every operation all objects are read through the library's observers
        # (JSON view, statistics, traversals); the model store is the same (an observer is the identity)
        for ops in CORPUS:
            out.append(Case('history', {'ops': ops, 'observe': True}, ['corpus', 'observed']))
        for gen_f, share, tag in ((gen_bottom_up, 12, 'bottom-up'), (gen_growth, 12, 'growth'), (gen_sharing, 4, 'sharing'),
                                  (gen_typealg, 4, 'typealg')):
            for _ in range(n * share // 100):
                out.append(Case('history', {'ops': gen_f(rng), 'observe': True}, [tag, 'observed']))
        for _ in range(n // 10):
            out.append(Case('parse', {'spec': gen_parse_spec(rng, rng.choice([0, 1, 2, 3]))}, ['parse']))
        for _ in range(n // 10):
            g = Gen(rng)
            top = rng.choice(['scan', 'scan', 'page', 'region', 'column', 'line'])
            d = rng.choice([0, 1, 2])
            root = {'scan': lambda: g.scan(d), 'page': lambda: g.page(d), 'region': lambda: g.region(d),
                    'column': lambda: g.region(d, col=True), 'line': g.line}[top]()
            out.append(Case('json', {'ops': g.ops, 'root': root}, ['json']))
        for ops in enum_rejected():
            out.append(Case('history', {'ops': ops}, ['enum-rejected']))
        return out

    # ------------------------------------------------------------------ implementation
    def impl(self, case: Case) -> Any:
        if case.kind == 'history':
            w = World()
            steps = []
            for op in case.input['ops']:
                o = w.exec(op)
                if 'err' in o:
                    steps.append(o)
                    break
                if case.input.get('observe'):
                    # USED objects: everything built so far is looked at through the library's observers before the
                    # store is dumped (and so before the next operation works on it)
                    observe_all(w)
                steps.append({'out': o, 'store': w.dump()})
            return {'steps': steps}
        if case.kind == 'parse':
            from pagexml.parser import parse_pagexml_file
            spec = case.input['spec']
            ops, paths = spec_to_history(spec)
            try:
                scan = parse_pagexml_file(spec['file'], pagexml_data=spec_to_xml(spec))
            except Exception as e:  # noqa
                return {'err': err_name(e)}
            w = World()
            w.objs = [follow(scan, p) for p in paths]
            out = {'final': w.dump()}
            # the same parsed objects, numbered in the order the MODEL's parser history creates them
            _, lean_paths = spec_to_tree(spec)
            w2 = World()
            w2.objs = [follow(scan, p) for p in lean_paths]
            out['final_tree'] = w2.dump()
            # several documents in one process (the model is pure): the first scan is looked at through the observers,
            # another document (the same ids, another file name) and the same text are parsed, then the first scan's
            # objects are dumped again and the second parse of the same text is dumped — both must repeat `final`
            try:
                observe_all(w)
                other = dict(spec, file='other_' + str(spec['file']))
                parse_pagexml_file(other['file'], pagexml_data=spec_to_xml(other))
                scan2 = parse_pagexml_file(spec['file'], pagexml_data=spec_to_xml(spec))
                d = diff_dumps(out['final'], w.dump())
                if d:
                    out['hist'] = ['reread', f'the parsed objects read again after other documents were parsed: {d}']
                else:
                    w3 = World()
                    w3.objs = [follow(scan2, p) for p in paths]
                    d = diff_dumps(out['final'], w3.dump())
                    if d:
                        out['hist'] = ['second-parse', f'the same text parsed a second time in the same process: {d}']
            except Exception as e:  # noqa
                out['hist'] = ['raises-later', f'parsing again / reading the scan again raised {err_name(e)}']
            return out
        if case.kind == 'json':
            from pagexml.parser import parse_pagexml_from_json
            w = World()
            for op in case.input['ops']:
                w.exec(op)
            root = w.objs[case.input['root']]
            try:
                text = json.dumps(root.json)
                ops, paths = json_history(json.loads(text), len(w.objs))
                new = parse_pagexml_from_json(text)
            except Exception as e:  # noqa
                return {'err': err_name(e)}
            olds = list(w.objs)
            w.objs = olds + [follow(new, p) for p in paths]
            res = {'final': w.dump(), 'rebuild_ops': ops, 'tree': json_tree(json.loads(text))}
            # history (the model is pure): the JSON view taken a second time, the source and the rebuilt document looked
            # at through the observers, the same text rebuilt a second time — source objects and second rebuild must
            # repeat `final`
            try:
                observe_all(w)
                if json.dumps(root.json) != text:
                    res['hist'] = ['export-again', 'the JSON view of the same document taken a second time differs']
                else:
                    new2 = parse_pagexml_from_json(json.loads(text))
                    d = diff_dumps(res['final'], w.dump())
                    if d:
                        res['hist'] = ['reread', f'source / rebuilt objects read again after a second export and rebuild: {d}']
                    else:
                        w2 = World()
                        w2.objs = olds + [follow(new2, p) for p in paths]
                        d = diff_dumps(res['final'], w2.dump())
                        if d:
                            res['hist'] = ['second-rebuild', f'the same JSON (dictionary form) rebuilt a second time: {d}']
            except Exception as e:  # noqa
                res['hist'] = ['raises-later', f'exporting / rebuilding again raised {err_name(e)}']
            _JSON_CACHE[id(case)] = res
            return res
        raise ValueError(case.kind)

    # ------------------------------------------------------------------ model
    def requests(self, case: Case):
        if case.kind == 'history':
            return [{'p': 'C02', 'op': 'history', 'args': {'ops': case.input['ops']}}]
        if case.kind == 'parse':
            ops, _ = spec_to_history(case.input['spec'])
            tree, _ = spec_to_tree(case.input['spec'])
            return [{'p': 'C02', 'op': 'final', 'args': {'ops': ops}},
                    {'p': 'C02', 'op': 'tree', 'args': {'mode': 'parse', 'ops': [], 'tree': tree}}]
        if case.kind == 'json':
            # the rebuild operations are derived from the JSON text the real code produced
            o = _JSON_CACHE.get(id(case)) or self.impl(case)
            if 'rebuild_ops' not in o:
                return []
            return [{'p': 'C02', 'op': 'final', 'args': {'ops': case.input['ops'] + o['rebuild_ops']}},
                    {'p': 'C02', 'op': 'tree', 'args': {'mode': 'json', 'ops': case.input['ops'], 'tree': o['tree']}}]
        return []

    def compare(self, case, impl_out, model_out):
        if not model_out:
            return None if 'err' in impl_out else 'no model answer'
        m = model_out[0]
        if case.kind == 'history':
            if 'ok' not in m:
                return f'model answered {m}'
            ms, rs = m['ok'], impl_out['steps']
            if len(ms) != len(rs):
                return f'{len(rs)} real steps, {len(ms)} model steps'
            free: Dict[int, set] = {}       # node -> fields a rejected add_child left undetermined (see rejected_link_fields)
            prev_model: List[Dict[str, Any]] = []
            for i, (r, mm) in enumerate(zip(rs, ms)):
                if 'err' in r or 'err' in mm:
                    if r.get('err') != mm.get('err'):
                        return f'step {i}: impl={r} model={mm if "err" in mm else "ok"}'
                    continue
                mo = dict(mm['out'])
                if 'strs' in mo:
                    mo['strs'] = sorted(mo['strs'])
                if r['out'] != mo:
                    return f'step {i} ({case.input["ops"][i]["op"]}): out impl={r["out"]} model={mo}'
                pre_real = pre_ok(rs[i - 1]['store'] if i else [], case.input['ops'][i])
                if pre_real != mm['pre']:
                    return f'step {i} ({case.input["ops"][i]["op"]}): precondition impl-side={pre_real} model={mm["pre"]}'
                md = model_dump(mm['store'])
                rejected = rejected_link_fields(case.input['ops'][i], r['out'], r['store'], md)
                if rejected:
                    free.setdefault(case.input['ops'][i]['c'], set()).update(rejected)
                elif free and 'raised' not in r['out']:
                    # a field the operation wrote again in the model is determined again
                    for n, fields in free.items():
                        if n < len(prev_model) and n < len(md):
                            fields -= {f for f in fields if field_of(md[n], f) != field_of(prev_model[n], f)}
                d = diff_dumps(mask_fields(r['store'], free), mask_fields(md, free))
                if d:
                    return f'step {i} ({case.input["ops"][i]["op"]}): {d}'
                if len(mm['store']) != len(r['store']):
                    return f'step {i}: {len(r["store"])} objects, {len(mm["store"])} model nodes'
                prev_model = md
            return None
        if 'err' in impl_out or 'err' in m:
            return None if impl_out.get('err') == m.get('err') else f'impl={impl_out.get("err")} model={m.get("err")}'
        if not m.get('pre'):
            return f'the {case.kind} history does not meet the precondition of the invariants'
        d = diff_dumps(impl_out['final'], model_dump(m['ok']))
        if d:
            return d
        # the history the MODEL defines for this document tree (`PScan.hist` / `JTree.hist true`, the functions the
        # theorems C02_parse_linked / C02_json_linked speak about) must build the same objects
        if len(model_out) > 1:
            mt = model_out[1]
            if 'ok' not in mt:
                return f'model history of the document tree answered {str(mt)[:200]}'
            if not mt.get('valid'):
                return 'the document tree is outside the theorem (a row without cells)'
            if not mt.get('pre'):
                return f'the model-defined {case.kind} history does not meet Pre (contradicts C02_{case.kind}_linked)'
            d = diff_dumps(impl_out.get('final_tree', impl_out['final']), model_dump(mt['ok']))
            if d:
                return f'model-defined {case.kind} history: {d}'
        return None

    # ------------------------------------------------------------------ oracle
    def oracle(self, case: Case, out: Any) -> List[Finding]:
        fs: List[Finding] = []
        seen = set()

        def report(key, what):
            if key not in seen:
                seen.add(key)
                fs.append(Finding(f'C02:{key}', what, case, None))
        if case.kind == 'history':
            ops = case.input['ops']
            prev: List[Dict[str, Any]] = []
            disciplined = True
            for i, st in enumerate(out['steps']):
                if 'err' in st:
                    break
                op = ops[i]
                dump = st['store']
                disciplined = disciplined and pre_ok(prev, op)
                if disciplined:
                    for key, what in judge_dump(dump, {}, f'after op {i} ({op["op"]})'):
                        report(key, what)
                # type tags behave as a set
                if op['op'] in ('addType', 'removeType') and 'raised' not in st['out']:
                    before = prev[op['n']]['type']
                    before = [before] if isinstance(before, str) else before
                    after = dump[op['n']]['type']
                    after = [after] if isinstance(after, str) else after
                    if len(set(after)) != len(after):
                        report('tags:duplicate', f'after op {i}: duplicate type tag in {after}')
                    if op['op'] == 'addType':
                        if set(after) != set(before) | set(op['ts']):
                            report('tags:add', f'op {i}: add_type({op["ts"]}) turned {before} into {after}')
                        if set(op['ts']) <= set(before) and set(after) != set(before):
                            report('tags:add-idempotent', f'op {i}: add_type({op["ts"]}) of present tags changed {before} to {after}')
                    else:
                        if set(after) != set(before) - set(op['ts']):
                            report('tags:remove', f'op {i}: remove_type({op["ts"]}) turned {before} into {after}')
                if op['op'] == 'hasType' and 'bool' in st['out']:
                    t = dump[op['n']]['type']
                    t = [t] if isinstance(t, str) else t
                    if st['out']['bool'] != (op['t'] in t):
                        report('tags:has_type', f'op {i}: has_type({op["t"]!r}) = {st["out"]["bool"]} on {t}')
                if op['op'] == 'types' and 'strs' in st['out']:
                    t = dump[op['n']]['type']
                    t = [t] if isinstance(t, str) else t
                    if st['out']['strs'] != sorted(set(t)):
                        report('tags:types', f'op {i}: types = {st["out"]["strs"]} on {t}')
                prev = dump
        elif 'final' in out:
            for key, what in judge_dump(out['final'], {}, f'after {case.kind}'):
                report(f'{case.kind}:{key}', what)
            if out.get('hist'):
                report(f'{case.kind}:{out["hist"][0]}', out['hist'][1])
        elif case.kind == 'parse':
            report('parse:error', f'a valid document was rejected: {out}')
        return fs

    def nontrivial(self, case: Case) -> bool:
        if case.kind != 'history':
            return True
        return any(o['op'] in ('addChild', 'setParent', 'setAsParent', 'setParentage') or
                   any(o.get(f) for f in ('words', 'lines', 'regions', 'columns', 'extra', 'pages'))
                   for o in case.input['ops'])

    def shrink_candidates(self, case: Case):
        for c in self._shrink_candidates(case):
            if case.kind == 'history' and case.input.get('observe'):
                c = Case(c.kind, dict(c.input, observe=True), c.tags)
            yield c
        if case.kind == 'history' and case.input.get('observe'):
            yield Case('history', {k: v for k, v in case.input.items() if k != 'observe'}, case.tags)

    def _shrink_candidates(self, case: Case):
        if case.kind == 'history':
            ops = case.input['ops']
            # shorter prefixes first
            for k in sorted({len(ops) // 4, len(ops) // 2, (3 * len(ops)) // 4, len(ops) - 1}):
                if 0 < k < len(ops):
                    yield Case('history', {'ops': ops[:k]}, case.tags)
            for i, o in enumerate(ops):
                if not o['op'].startswith('mk'):
                    yield Case('history', {'ops': ops[:i] + ops[i + 1:]}, case.tags)
            # detach a child from the constructor call that lists it
            for i, o in enumerate(ops):
                for f in ('words', 'lines', 'regions', 'tables', 'columns', 'extra', 'pages', 'cells', 'rows', 'cs'):
                    for j in range(len(o.get(f, []))):
                        o2 = dict(o)
                        o2[f] = o[f][:j] + o[f][j + 1:]
                        yield Case('history', {'ops': ops[:i] + [o2] + ops[i + 1:]}, case.tags)
            # drop a created node nobody mentions (renumbering the later ones)
            for i, o in enumerate(ops):
                if not o['op'].startswith('mk'):
                    continue
                node = sum(1 for x in ops[:i] if x['op'].startswith('mk'))
                if any(node in World._refs(x) for x in ops):
                    continue

                def ren(x, node=node):
                    y = copy.deepcopy(x)
                    for f in ('words', 'lines', 'regions', 'tables', 'columns', 'extra', 'pages', 'cells', 'rows', 'cs'):
                        if f in y:
                            y[f] = [v - 1 if v > node else v for v in y[f]]
                    for f in ('p', 'c', 'n'):
                        if f in y and y[f] > node:
                            y[f] -= 1
                    return y
                yield Case('history', {'ops': [ren(x) for j, x in enumerate(ops) if j != i]}, case.tags)
            # simplify arguments
            for i, o in enumerate(ops):
                a = o.get('a')
                if a and (a.get('md') or a.get('dtype')):
                    o2 = dict(o, a={k: v for k, v in a.items() if k not in ('md', 'dtype')})
                    yield Case('history', {'ops': ops[:i] + [o2] + ops[i + 1:]}, case.tags)
        elif case.kind == 'parse':
            spec = case.input['spec']
            for f in ('regions', 'tables'):
                for i in range(len(spec[f])):
                    s2 = copy.deepcopy(spec)
                    del s2[f][i]
                    if s2['regions'] or s2['tables']:
                        yield Case('parse', {'spec': s2}, case.tags)

            def sub(r):
                for i in range(len(r['lines'])):
                    r2 = copy.deepcopy(r)
                    del r2['lines'][i]
                    yield r2
                for i in range(len(r['regions'])):
                    r2 = copy.deepcopy(r)
                    del r2['regions'][i]
                    yield r2
                    for x in sub(r['regions'][i]):
                        r3 = copy.deepcopy(r)
                        r3['regions'][i] = x
                        yield r3
            for i, r in enumerate(spec['regions']):
                for r2 in sub(r):
                    s2 = copy.deepcopy(spec)
                    s2['regions'][i] = r2
                    yield Case('parse', {'spec': s2}, case.tags)
        elif case.kind == 'json':
            ops = case.input['ops']
            # a smaller build: try each earlier node of a region-like class as the root
            for i in range(case.input['root']):
                node_ops = [x for x in ops if x['op'].startswith('mk')]
                if node_ops[i]['op'] in ('mkRegion', 'mkColumn', 'mkPage', 'mkScan', 'mkLine'):
                    # keep only the ops up to the creation of node i
                    k = [j for j, x in enumerate(ops) if x['op'].startswith('mk')][i]
                    yield Case('json', {'ops': ops[:k + 1], 'root': i}, case.tags)


A0 = lambda i, **k: dict({'id': {'s': i}, 'coords': 1}, **k)  # noqa
CORPUS: List[List[Dict[str, Any]]] = [
    # fb930ee: children of scan / page / column record the container's own type
    [{'op': 'mkRegion', 'a': A0('r')}, {'op': 'mkScan', 'a': A0('s'), 'regions': [0]}],
    [{'op': 'mkColumn', 'a': A0('c')}, {'op': 'mkPage', 'a': A0('p'), 'columns': [0]}],
    [{'op': 'mkLine', 'a': A0('l', text='a')}, {'op': 'mkColumn', 'a': A0('c'), 'lines': [0]}],
    # 746c386: late add_child below a scan
    [{'op': 'mkRegion', 'a': A0('r')}, {'op': 'mkScan', 'a': A0('s'), 'regions': [0]},
     {'op': 'mkLine', 'a': A0('l', text='a')}, {'op': 'addChild', 'p': 0, 'c': 2}],
    [{'op': 'mkLine', 'a': A0('l', text='a')}, {'op': 'mkRegion', 'a': A0('r'), 'lines': [0]},
     {'op': 'mkColumn', 'a': A0('c'), 'regions': [1]}, {'op': 'mkPage', 'a': A0('p'), 'columns': [2]},
     {'op': 'mkScan', 'a': A0('s'), 'pages': [3]}],
    # d55fbfb: a cell is the parent of its lines
    [{'op': 'mkLine', 'a': A0('l', text='a')}, {'op': 'mkCell', 'a': A0('c'), 'lines': [0]}],
    # type tags
    [{'op': 'mkWord', 'a': A0('w')}, {'op': 'addType', 'n': 0, 'ts': ['x']}, {'op': 'addType', 'n': 0, 'ts': ['x']},
     {'op': 'removeType', 'n': 0, 'ts': ['x']}, {'op': 'hasType', 'n': 0, 't': 'x'}, {'op': 'types', 'n': 0}],
    [{'op': 'mkWord', 'a': A0('w')}, {'op': 'removeType', 'n': 0, 'ts': ['structure_doc', 'physical_structure_doc', 'pagexml_doc']},
     {'op': 'hasType', 'n': 0, 't': 'word'}, {'op': 'addType', 'n': 0, 'ts': ['y']}, {'op': 'types', 'n': 0}],
]

CHECK = C02()
