"""C05 — Explicit reading order decides region order; otherwise document order is kept."""
from __future__ import annotations

import glob
import itertools
import json
import os
import random
import xml.etree.ElementTree as ET
from collections import Counter
from typing import Any, Dict, Iterable, List

from harness.core import Case, Finding, VERIF
from harness.core import call, canon
from harness.props._doc import (DocCheck, Gen, r_doc, all_paths, node_at, random_mutation, mark_nonconformant,
                                serialise, dump_scan)
from harness.props.c01 import read_doc, has_content, _kids, _tag

CORPUS = os.path.join(VERIF, 'harness', 'corpus', 'C05')

INDEX_SETS = [lambda n: list(range(n)), lambda n: [2, 10, 9, 100, 11, 1000, 99][:n] if n <= 7 else list(range(n)),
              lambda n: [-5, 0, 7, 10 ** 20, 19, 20, 3][:n] if n <= 7 else list(range(n))]


def read_entries(xml: str):
    """(kind, [(index, ref)]) of the ReadingOrder element, read independently"""
    root = ET.fromstring(xml.encode('utf-8'))
    page = _kids(root, 'Page')[0]
    ros = _kids(page, 'ReadingOrder')
    if not ros:
        return 'absent', []
    og = _kids(ros[0], 'OrderedGroup')
    if og:
        return 'ordered', [(int(e.get('index')), e.get('regionRef')) for e in _kids(og[0], 'RegionRefIndexed')]
    if _kids(ros[0], 'UnorderedGroup'):
        return 'unordered', []
    return 'empty', []


def region_line_ids(r) -> List[Any]:
    out = []
    for s in r['regions']:
        out += region_line_ids(s)
    return out + [l['id'] for l in r['lines']]


def ro_variants(src) -> List[Dict[str, Any]]:
    """other documents over the SAME regions (same ids) whose reading orders differ from the one of `src`: used to parse
    several scans one after the other in one process.  (1) the entries re-numbered with other index values and the
    regions in the opposite order (for a document without entries: full coverage, reverse document order), (2) no
    ReadingOrder element at all, (3) an ordered group that leaves the last region out"""
    ro = src['ro']
    if ro['kind'] == 'ordered' and ro['refs']:
        by_index = sorted(ro['refs'], key=lambda e: e[0])
        refs = [[7 + 10 * k, by_index[len(by_index) - 1 - k][1]] for k in range(len(by_index))]
    else:
        ids = [r['id'] for r in src['regions'] if r['id'] is not None]
        refs = [[7 + 10 * k, rid] for k, rid in enumerate(reversed(ids))]
    out = [dict(src, ro={'kind': 'ordered', 'id': 'og-v', 'caption': None, 'refs': refs}, ro_first=not src['ro_first']),
           dict(src, ro={'kind': 'absent'})]
    if len(refs) >= 2:
        out.append(dict(src, ro={'kind': 'ordered', 'id': 'og-p', 'caption': None, 'refs': refs[:-1]}))
    return out


class C05(DocCheck):
    pid = 'C05'
    model_pid = 'C05'
    props_module = 'PagexmlModel.Props.C05'
    anchors = {
        'pagexml/parser.py': ['parse_page_reading_order', 'parse_pagexml_json'],
        'pagexml/model/pagexml_document_model.py': ['PageXMLTextRegion.__init__',
                                                    'PageXMLTextRegion.set_text_regions_in_reader_order',
                                                    'PageXMLTextRegion.get_text_regions_in_reading_order',
                                                    'PageXMLTextRegion.get_regions', 'PageXMLTextRegion.get_lines'],
        'pagexml/model/basic_document_model.py': ['StructureDoc.__init__'],
    }
    level_note = (
        'proved for every list of regions with pairwise different ids and every reading-order dict (unbounded sizes, '
        'Int indices): each region exactly once; full coverage => ids delivered in ascending numeric index order, '
        'independent of the textual order of the entries, of the order of the regions in the file and of the position of '
        'the ReadingOrder element; dangling references ignored; absent / empty / unordered / partial => document order; '
        'lines follow the regions; reading chosen: indices pairwise different (two entries with one index overwrite each '
        'other in the dict, the region that lost its entry is not covered and document order is kept — generated in a '
        'separate stream judged only for "each region once"); sorted() is modelled by List.mergeSort; correspondence at '
        'the level of the statement: an unused reading order is compared by truthiness (None = {}: the statement fixes the '
        'orders delivered, not the falsy value kept in scan.reading_order; entries of unknown ids may stay or go), two '
        'rejections agree whatever the exception '
        'class, extra scan.metadata keys are ignored, mutated ReadingOrder elements that are no reading-order group any '
        'more are outside the quantifier (recorded only). Histories (wave 4): every document is parsed a second and a '
        'third time in the same process, with documents over the SAME region ids but other index values / no / a partial '
        'reading order parsed in between (each judged against its own text), and the first scan object is read again '
        'twice: the delivered orders and the kept entries must be those of a first parse (the model is pure)')
    assumptions = [
        'CPython sorted() with an integer key returns the ascending (stable) order — List.mergeSort',
        'dict assignment / iteration order as in CPython >= 3.7 (association lists)',
        'the C01 model of xmltodict and of the region parser (shared; validated on the same documents)',
    ]
    nontrivial_rule = 'distinct documents with at least two top-level regions and a ReadingOrder element'

    # ---------------------------------------------------------------- generation
    def cases(self, rng: random.Random, tier: str) -> Iterable[Case]:
        out: List[Case] = []
        for path in sorted(glob.glob(os.path.join(CORPUS, '*.json'))):
            c = json.load(open(path, encoding='utf-8'))['case']
            out.append(Case(c['kind'], c['input'], list(c.get('tags', [])) + ['corpus']))
        gen = Gen(rng)
        seq = itertools.count(1)

        def doc(src, *tags, **kw):
            out.append(Case('doc', dict({'src': src, 'fname': 'ro_%d.xml' % next(seq), 'seed': rng.randrange(10 ** 9)}, **kw),
                            list(tags) + ['expect-mirror']))

        def flat_regions(n, with_lines=True):
            rs = []
            for i in range(n):
                rs.append({'id': f'r{i}', 'orientation': None, 'custom': None, 'coords': gen.rect(), 'te': None,
                           'lines_first': True, 'lines': [gen.line() for _ in range(rng.choice([0, 1, 2]) if with_lines else 0)],
                           'subs': []})
            return rs

        def page(regions, ro, ro_first=None, tables=()):
            return {'ns2019': rng.random() < 0.5, 'meta': None, 'image_filename': 'img.jpg', 'width': 1000, 'height': 1000,
                    'ro_first': rng.random() < 0.5 if ro_first is None else ro_first, 'ro': ro, 'regions': regions,
                    'tables': list(tables)}

        # -- exhaustive: every permutation, for each coverage pattern and index set
        nmax = 4 if tier == 'quick' else 6
        for n in range(0, nmax + 1):
            perms = list(itertools.permutations(range(n)))
            if tier == 'quick' and n == 4:
                perms = rng.sample(perms, 12)
            if tier == 'thorough' and n == 6:
                perms = rng.sample(perms, 240)
            for perm in perms:
                for pattern in ('full', 'partial', 'dangling'):
                    if pattern == 'partial' and n < 2:
                        continue
                    idx = rng.choice(INDEX_SETS)(n + 1)
                    refs = [[idx[k], f'r{perm[k]}'] for k in range(n)]
                    if pattern == 'partial':
                        del refs[rng.randrange(len(refs))]
                    if pattern == 'dangling':
                        refs.insert(rng.randrange(len(refs) + 1), [idx[n], 'nowhere'])
                    rng.shuffle(refs)
                    ro = {'kind': 'ordered', 'id': 'og', 'caption': rng.choice([None, 'cap']), 'refs': refs}
                    doc(page(flat_regions(n, with_lines=(n <= 4)), ro), 'perm', 'pattern:' + pattern, f'n={n}')
        # -- the other kinds of ReadingOrder element
        for _ in range(10 if tier == 'quick' else 100):
            n = rng.randint(0, 4)
            regs = flat_regions(n)
            for kind in ('absent', 'empty', 'unordered', 'emptygroup'):
                doc(page(regs, gen.ro_for(regs, kind)), 'kind:' + kind)
        # -- single entry; same textual order vs reversed; position of the element
        for _ in range(10 if tier == 'quick' else 100):
            regs = flat_regions(1)
            doc(page(regs, {'kind': 'ordered', 'id': 'og', 'caption': None, 'refs': [[rng.choice([0, 7, -3]), 'r0']]}), 'single')
            n = rng.randint(2, 5)
            regs = flat_regions(n)
            idx = rng.choice(INDEX_SETS)(n)
            refs = [[idx[k], f'r{k}'] for k in range(n)]
            rng.shuffle(refs)
            for first in (True, False):
                for order in (refs, list(reversed(refs)), sorted(refs)):
                    doc(page(regs, {'kind': 'ordered', 'id': 'og', 'caption': None, 'refs': order}, ro_first=first),
                        'entry-order', shuffle=False)
        # -- random structured documents (nested regions, Unicode ids, tables next to regions)
        for _ in range(60 if tier == 'quick' else 1500):
            doc(gen.page(depth=rng.choice([0, 1, 2]), nregions=rng.randint(0, 6), ntables=rng.choice([0, 0, 1])), 'random')
        # -- regions without id, refs to skipped (content-less) regions
        for _ in range(10 if tier == 'quick' else 100):
            regs = flat_regions(rng.randint(2, 4))
            regs[0]['id'] = None
            ro = gen.ro_for(regs, 'full')
            doc(page(regs, ro), 'no-id')
            regs = flat_regions(rng.randint(2, 4))
            regs.append({'id': 'hollow', 'orientation': None, 'custom': None, 'coords': None, 'te': None, 'lines_first': True,
                         'lines': [], 'subs': []})
            doc(page(regs, gen.ro_for(regs, 'full')), 'ref-to-skipped')
        # -- two entries with one index (outside the theorem's reading; judged for "each once" only)
        for _ in range(10 if tier == 'quick' else 100):
            n = rng.randint(2, 4)
            regs = flat_regions(n)
            refs = [[k, f'r{k}'] for k in range(n)]
            refs[rng.randrange(1, n)][0] = refs[0][0]
            rng.shuffle(refs)
            doc(page(regs, {'kind': 'ordered', 'id': 'og', 'caption': None, 'refs': refs}), 'dup-index')
        # -- malformed: a mutation inside the ReadingOrder element
        for _ in range(40 if tier == 'quick' else 800):
            regs = flat_regions(rng.randint(1, 3), with_lines=False)
            src = page(regs, gen.ro_for(regs, rng.choice(['full', 'partial', 'dangling', 'unordered'])))
            tree = r_doc(src)
            paths = [p for p in all_paths(tree) if len(p) >= 2 and node_at(tree, p[:2])['t'] == 'ReadingOrder']
            if not paths:
                continue
            m = None
            for _k in range(10):
                m = random_mutation(tree, rng)
                if m is not None and m['path'] in paths:
                    break
                m = None
            if m is not None:
                out.append(Case('mut', {'src': src, 'fname': 'ro_%d.xml' % next(seq), 'mut': m}, ['malformed', 'mut:' + m['op']]))
        # the quantifier: "reading-order groups listing each region at most once" in documents whose regions have
        # distinct ids: a mutated ReadingOrder that is no such group any more (entry without index / regionRef,
        # non-integer index, a region listed twice, group without id) is outside it — mirrored, recorded only
        return mark_nonconformant(out)

    def nontrivial(self, case: Case) -> bool:
        src = case.input['src']
        return len(src['regions']) >= 2 and src['ro']['kind'] != 'absent'

    # ---------------------------------------------------------------- implementation: the document, then a history
    def impl(self, case: Case) -> Any:
        out = super().impl(case)
        if case.kind != 'doc' or 'err' in out['real']:
            return out
        # several scans parsed one after the other in this process (the model is pure: every parse has the answer of
        # a first parse): the same text again, documents over the same region ids with other reading orders, the
        # same text a third time; the first scan object is read twice more in between (the orders it delivers must
        # not depend on how often they were asked for or on what was parsed afterwards)
        from pagexml.parser import parse_pagexml_file
        fname, xml = case.input.get('fname', 'doc.xml'), out['xml']

        def hist():
            scan = parse_pagexml_file(fname, pagexml_data=xml)
            first = dump_scan(scan)
            others = []
            for v in ro_variants(case.input['src']):
                vx = serialise(r_doc(v))
                vs = call(lambda: dump_scan(parse_pagexml_file(fname, pagexml_data=vx)))
                others.append({'xml': vx, 'real': vs})
            reread = dump_scan(scan)
            scan.get_lines()
            scan.get_text_regions_in_reading_order()
            return {'second': first, 'others': others, 'reread': reread, 'reread2': dump_scan(scan),
                    'third': dump_scan(parse_pagexml_file(fname, pagexml_data=xml))}
        out['hist'] = canon(call(hist))
        return out

    # ---------------------------------------------------------------- oracle
    def oracle(self, case: Case, out: Any) -> List[Finding]:
        if case.kind != 'doc':
            return []
        fs: List[Finding] = []
        seen = set()

        def bad(key, what):
            if key not in seen:
                seen.add(key)
                fs.append(Finding(f'C05:{key}', what, case, {'what': what}))

        real = out['real']
        if 'err' in real:
            bad('raises:' + real['err'], f'document with a reading order rejected with {real["err"]}')
            return fs
        self.judge(case, out['xml'], real['ok']['scan'], bad, '')
        h = out.get('hist')
        if h is None or fs:
            return fs
        if 'err' in h:
            bad('raises-later:' + h['err'], f'parsing the document again / other documents afterwards raised {h["err"]}')
            return fs
        h = h['ok']

        def view(scan):
            """what the statement observes of a scan: the orders delivered and the reading order kept (None = {};
            entries of unknown ids may stay or go, as in `reading-order-kept` below)"""
            ids = set(r['id'] for r in scan['regions'])
            return {'text_regions': [r['id'] for r in scan['regions']], 'get_lines': scan['lines'],
                    'get_text_regions_in_reading_order': scan['regions_in_ro'],
                    'reading_order': sorted(e for e in map(tuple, scan['reading_order'] or []) if e[1] in ids)}
        first = view(real['ok']['scan'])
        for k, what in (('second', 'parsed a second time'), ('reread', 'the scan read again after other scans were parsed'),
                        ('reread2', 'the scan read a third time'), ('third', 'parsed again after other scans')):
            later = view(h[k])
            if later != first:
                diff = [f for f in first if first[f] != later[f]]
                bad('not-repeatable:' + k, f'{what}: differs from the first parse in {diff}: '
                                           f'{[first[f] for f in diff]} -> {[later[f] for f in diff]}')
        for i, o in enumerate(h['others']):
            if 'err' in o['real']:
                bad('raises-later:' + o['real']['err'], f'a scan parsed after another one is rejected with {o["real"]["err"]}')
            else:
                self.judge(case, o['xml'], o['real']['ok'], bad, ':after-another-scan')
        return fs

    def judge(self, case: Case, xml: str, scan, bad0, tag: str) -> None:
        """the statement on one parsed scan (dump) against its own source text, read independently"""
        def bad(key, what):
            bad0(key + tag, (what if not tag else 'parsed after other scans in the same process: ' + what))
        fs = None
        exp = read_doc(xml)
        kind, entries = read_entries(xml)
        doc_ids = [r['id'] for r in exp['regions'] if has_content(r)]
        got_ids = [r['id'] for r in scan['regions']]
        # every region and every line exactly once
        if Counter(got_ids) != Counter(doc_ids):
            bad('regions-once', f'regions delivered {got_ids}, regions in the file {doc_ids}')
            return fs
        by_id_lines = [region_line_ids(r) for r in scan['regions']]
        table_lines = [l['id'] for t in scan['tables'] for row in t['rows'] for c in row['cells'] for l in c['lines']]
        if Counter(scan['lines']) != Counter([i for b in by_id_lines for i in b] + table_lines):
            bad('lines-once', 'get_lines() does not deliver every line of the regions exactly once')
        # lines follow the delivered regions, block by block
        pos, ok = 0, True
        for block in by_id_lines:
            if Counter(scan['lines'][pos:pos + len(block)]) != Counter(block):
                ok = False
            pos += len(block)
        if not ok:
            bad('lines-follow', f'get_lines() {scan["lines"]} does not follow the region order {got_ids}')
        # the order
        distinct_ids = len(set(doc_ids)) == len(doc_ids) and None not in doc_ids
        idxs = [i for i, _ in entries]
        refs = [r for _, r in entries]
        in_quantifier = distinct_ids and len(set(refs)) == len(refs)
        if 'dup-index' in case.tags or len(set(idxs)) != len(idxs) or not in_quantifier:
            return fs
        full = kind == 'ordered' and bool(entries) and set(doc_ids) <= set(refs)
        if full:
            want = [r for _, r in sorted(entries, key=lambda e: e[0]) if r in set(doc_ids)]
            if got_ids != want:
                bad('index-order', f'regions delivered {got_ids}; ascending index order is {want} (entries {entries})')
            if scan['regions_in_ro'] != want:
                bad('get-in-reading-order', f'get_text_regions_in_reading_order() gives {scan["regions_in_ro"]}, expected {want}')
            # the order that was used is kept: every entry of a delivered region, with its index, and nothing that is
            # not in the file ("entries that reference unknown ids are ignored": they may stay or go)
            ro = scan['reading_order']
            used = sorted(e for e in entries if e[1] in set(doc_ids))
            ro = ro or []
            if sorted(e for e in map(tuple, ro) if e[1] in set(doc_ids)) != used or not set(map(tuple, ro)) <= set(entries):
                bad('reading-order-kept', f'scan.reading_order is {ro}, entries are {entries}')
        else:
            if got_ids != doc_ids:
                bad('document-order', f'regions delivered {got_ids}; document order is {doc_ids} '
                                       f'(reading order {kind} {entries} does not cover them)')
            if scan['regions_in_ro'] != doc_ids:
                bad('get-in-reading-order', f'get_text_regions_in_reading_order() gives {scan["regions_in_ro"]}, '
                                            f'document order is {doc_ids}')
        return fs


CHECK = C05()
