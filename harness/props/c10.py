"""C10 — Overlap and distance relations obey interval arithmetic and its symmetries."""
from __future__ import annotations

import itertools
import random
from fractions import Fraction
from typing import Any, Dict, Iterable, List, Optional

from harness.core import Case, Check, Finding, call, canon

FUNCS = ['has_baseline', 'has_baseline_pdm', 'h_overlap', 'v_overlap', 'is_v_overlapping', 'is_h_overlapping',
         'h_diff', 'v_diff', 'h_diff_ratio', 'v_diff_ratio', 'h_overlap_ratio', 'v_overlap_ratio', 'is_below',
         'is_next_to', 'h_distance', 'v_distance', 'in_same_column', 'is_point_inside', 'region_type',
         'regions_overlap']
RATIOS = {'h_diff_ratio', 'v_diff_ratio', 'h_overlap_ratio', 'v_overlap_ratio'}
# vertical function -> horizontal function it must equal on the transposed pair
DUAL = {'v_overlap': 'h_overlap', 'is_v_overlapping': 'is_h_overlapping', 'v_diff': 'h_diff',
        'v_diff_ratio': 'h_diff_ratio', 'v_overlap_ratio': 'h_overlap_ratio', 'is_next_to': 'is_below',
        'v_distance': 'h_distance'}
SYMMETRIC = ['h_overlap', 'v_overlap', 'is_v_overlapping', 'is_h_overlapping', 'h_diff', 'v_diff', 'h_diff_ratio',
             'v_diff_ratio', 'h_overlap_ratio', 'v_overlap_ratio', 'h_distance', 'v_distance', 'regions_overlap']
TRANSLATION_INVARIANT = [f for f in FUNCS if f != 'is_point_inside']


def _mods():
    import pagexml.model.physical_document_model as pdm
    import pagexml.helper.pagexml_helper as ph
    return pdm, ph


def _coords(pdm, box, cls):
    if box is None:
        return None
    l, t, r, b = box
    if cls is pdm.Baseline:
        return pdm.Baseline([(l, t), (r, b)])
    return pdm.Coords([(l, t), (r, t), (r, b), (l, b)])


def build(e: Dict[str, Any]):
    pdm, _ = _mods()
    md = {}
    if e.get('scan_id') is not None:
        md['scan_id'] = e['scan_id']
    if e.get('column_id') is not None:
        md['column_id'] = e['column_id']
    c = _coords(pdm, e.get('coords'), pdm.Coords)
    bl = _coords(pdm, e.get('baseline'), pdm.Baseline)
    if e.get('baseline') is not None and e.get('baseline_pts'):
        # the same baseline box, its points listed in another order (right-to-left, with a back-step …)
        bl = pdm.Baseline([tuple(p) for p in e['baseline_pts']])
    if e['kind'] == 'line':
        return pdm.PageXMLTextLine(doc_id='x', coords=c, baseline=bl, metadata=md)
    if e['kind'] == 'word':
        return pdm.PageXMLWord(doc_id='x', coords=c, baseline=bl, metadata=md)
    return pdm.PageXMLTextRegion(doc_id='x', coords=c, metadata=md)


def eval_pair(ea, eb, thr, margin, pt) -> Dict[str, Any]:
    return eval_objs(build(ea), build(eb), thr, margin, pt)


def move_obj(obj, e):
    """give a used object the geometry of element description e (assignment to .coords / .baseline)"""
    pdm, _ = _mods()
    obj.coords = _coords(pdm, e.get('coords'), pdm.Coords)
    if hasattr(obj, 'baseline'):
        fresh = build(e)
        obj.baseline = getattr(fresh, 'baseline', None)


def eval_objs(a, b, thr, margin, pt) -> Dict[str, Any]:
    pdm, ph = _mods()
    import pagexml.model.pagexml_document_model as pxm
    t = thr[0] / thr[1]
    out = {
        'has_baseline': [pxm.has_baseline(a), pxm.has_baseline(b)],
        'has_baseline_pdm': [pdm.has_baseline(a), pdm.has_baseline(b)],
        'h_overlap': call(pdm.get_horizontal_overlap, a, b),
        'v_overlap': call(pdm.get_vertical_overlap, a, b),
        'is_v_overlapping': call(pdm.is_vertically_overlapping, a, b, t),
        'is_h_overlapping': call(pdm.is_horizontally_overlapping, a, b, t),
        'h_diff': call(pdm.get_horizontal_diff, a, b),
        'v_diff': call(pdm.get_vertical_diff, a, b),
        'h_diff_ratio': call(pdm.get_horizontal_diff_ratio, a, b),
        'v_diff_ratio': call(pdm.get_vertical_diff_ratio, a, b),
        'h_overlap_ratio': call(pdm.get_horizontal_overlap_ratio, a, b),
        'v_overlap_ratio': call(pdm.get_vertical_overlap_ratio, a, b),
        'is_below': call(pdm.is_below, a, b, margin),
        'is_next_to': call(pdm.is_next_to, a, b, margin),
        'h_distance': call(pdm.horizontal_distance, a, b),
        'v_distance': call(pdm.vertical_distance, a, b),
        'in_same_column': call(pdm.in_same_column, a, b),
        'is_point_inside': call(ph.is_point_inside, tuple(pt), a),
        'region_type': call(lambda: ph.get_region_type(a).name),
        'regions_overlap': call(ph.regions_overlap, a, b, t),
    }
    for k in RATIOS:                      # floats are never compared raw: keep them as exact fractions
        if 'ok' in out[k]:
            f = Fraction(out[k]['ok'])
            out[k] = {'ok': {'frac': [f.numerator, f.denominator]}}
    return canon(out)


def shift_elem(e, dx, dy):
    def sh(b):
        return None if b is None else [b[0] + dx, b[1] + dy, b[2] + dx, b[3] + dy]
    out = dict(e, coords=sh(e.get('coords')), baseline=sh(e.get('baseline')))
    if e.get('baseline_pts'):
        out['baseline_pts'] = [[p[0] + dx, p[1] + dy] for p in e['baseline_pts']]
    return out


def transpose_elem(e):
    def tr(b):
        return None if b is None else [b[1], b[0], b[3], b[2]]
    out = dict(e, coords=tr(e.get('coords')), baseline=tr(e.get('baseline')))
    if e.get('baseline_pts'):
        out['baseline_pts'] = [[p[1], p[0]] for p in e['baseline_pts']]
    return out


def used_variants(inp):
    """the element descriptions that the used-object steps of impl() end up with"""
    a, b, thr, m, pt = inp['a'], inp['b'], inp['thr'], inp['margin'], inp['pt']
    dx, dy = inp['shift']
    b2 = shift_elem(b, dx + 3, dy + 5)
    a2 = shift_elem(a, -2 if (a.get('coords') or [9])[0] >= 2 else 1, 4)
    return {'again': (a, b, thr, m, pt), 'again_first': (a, b, thr, m, pt), 'moved_b': (a, b2, thr, m, pt),
            'moved_b_swapped': (b2, a, thr, m, pt), 'moved_ab': (a2, b2, thr, m, pt)}


def variants(inp):
    a, b, thr, m, pt = inp['a'], inp['b'], inp['thr'], inp['margin'], inp['pt']
    dx, dy = inp['shift']
    return {
        'ab': (a, b, thr, m, pt),
        'ba': (b, a, thr, m, pt),
        'shift': (shift_elem(a, dx, dy), shift_elem(b, dx, dy), thr, m, [pt[0] + dx, pt[1] + dy]),
        'transposed': (transpose_elem(a), transpose_elem(b), thr, m, [pt[1], pt[0]]),
        'thr2': (a, b, inp['thr2'], m, pt),
    }


def interval_count(lo1, hi1, lo2, hi2) -> int:
    lo, hi = max(lo1, lo2), min(hi1, hi2)
    return hi - lo + 1 if hi >= lo else 0


def gap(lo1, hi1, lo2, hi2) -> int:
    if hi1 < lo2:
        return lo2 - hi1
    if lo1 > hi2:
        return lo1 - hi2
    return 0


class C10(Check):
    pid = 'C10'
    props_module = 'PagexmlModel.Props.C10'
    anchors = {
        'pagexml/model/pagexml_document_model.py': [
            'has_baseline', 'get_horizontal_overlap', 'get_vertical_overlap', 'is_vertically_overlapping',
            'is_horizontally_overlapping', 'get_horizontal_diff_ratio', 'get_vertical_diff_ratio',
            'get_vertical_diff', 'get_horizontal_diff'],
        'pagexml/model/physical_document_model.py': [
            'in_same_column', 'has_baseline', 'is_below', 'is_next_to', 'horizontal_distance', 'vertical_distance',
            'get_horizontal_overlap_ratio', 'get_vertical_overlap_ratio'],
        'pagexml/helper/pagexml_helper.py': ['is_point_inside', 'get_region_type', 'regions_overlap'],
    }
    level_note = ('all laws proved over unbounded Int boxes with thresholds as rationals p/q; that the IEEE-double '
                  'comparison `x / y > t` equals the exact comparison for pixel-sized operands and decimal '
                  'thresholds is a trusted-base argument (DESIGN §3.4), sampled by the correspondence')
    assumptions = ['double comparison x/y > t agrees with exact x*q > p*y for |x|,|y| < 2^26 and t = p/q with q <= 10^6',
                   'Coords/Baseline give boxes with left <= right, top <= bottom (C03)']
    nontrivial_rule = 'distinct (a, b, threshold, margin) inputs; non-trivial = the two boxes are not identical'

    THRS = [[1, 2], [1, 4], [3, 4], [1, 10], [3, 5], [9, 10]]

    def translate(self):
        """default thresholds of the two is-overlapping functions (used inside is_below / is_next_to)"""
        from harness import translate as tr
        rel = 'pagexml/model/pagexml_document_model.py'
        h = tr.as_fraction(tr.func_defaults(rel, 'is_horizontally_overlapping')['threshold'])
        v = tr.as_fraction(tr.func_defaults(rel, 'is_vertically_overlapping')['threshold'])
        body = tr.HEADER.format(src=rel + ': default `threshold` of is_horizontally_overlapping / '
                                'is_vertically_overlapping') + (
            'namespace Pagexml.Generated.C10\n\n'
            '/-- default threshold (p, q) of is_horizontally_overlapping: used by is_below -/\n'
            f'def hOverlapThr : Int × Int := ({h.numerator}, {h.denominator})\n\n'
            '/-- default threshold (p, q) of is_vertically_overlapping: used by is_next_to -/\n'
            f'def vOverlapThr : Int × Int := ({v.numerator}, {v.denominator})\n\n'
            'end Pagexml.Generated.C10\n')
        return {'PagexmlModel/Generated/C10.lean': body}

    def _mk(self, a, b, rng, tags):
        thr = rng.choice(self.THRS)
        thr2 = rng.choice([t for t in self.THRS if t[0] * thr[1] >= thr[0] * t[1]])  # thr2 >= thr
        ca = a.get('coords') or [0, 0, 0, 0]
        return Case('pair', {'a': a, 'b': b, 'thr': thr, 'thr2': thr2, 'margin': rng.choice([0, 1, 20, 40]),
                             'pt': [rng.randint(ca[0] - 2, ca[2] + 2), rng.randint(ca[1] - 2, ca[3] + 2)],
                             'shift': [rng.choice([0, 1, 7, 1000, -3]), rng.choice([0, 2, 50, 12345, -1])]}, tags)

    def cases(self, rng: random.Random, tier: str) -> Iterable[Case]:
        out: List[Case] = []
        reg = lambda box: {'kind': 'region', 'coords': box, 'baseline': None}   # noqa: E731
        # corpus
        narrow = {'kind': 'line', 'coords': [0, 0, 100, 100], 'baseline': [40, 50, 50, 50]}
        out.append(self._mk(narrow, narrow, rng, ['corpus', 'narrow-baseline']))
        out.append(self._mk(reg(None), reg([0, 0, 5, 5]), rng, ['corpus', 'no-coords']))
        out.append(self._mk(reg([0, 0, 5, 5]), reg(None), rng, ['corpus', 'no-coords']))
        out.append(self._mk(reg([3, 3, 3, 3]), reg([3, 3, 3, 3]), rng, ['corpus', 'point']))
        # overlap-ratio sweep: every ratio k/H around the thresholds, both orientations, placed so that
        # is_below / is_next_to depend on the is-overlapping answer
        for H in ((10, 20) if tier == 'quick' else (7, 10, 20, 50)):
            for ov in range(0, H + 2):
                a_v = [100, 0, 150, H]
                b_v = [0, H - ov + 1, 90, 2 * H - ov + 1]
                out.append(self._mk(reg(a_v), reg(b_v), rng, ['ratio-sweep']))
                a_h = [0, 100, H, 150]
                b_h = [H - ov + 1, 0, 2 * H - ov + 1, 90]
                out.append(self._mk(reg(a_h), reg(b_h), rng, ['ratio-sweep']))
        # exhaustive lattice of box pairs (degenerate boxes included)
        n = 3 if tier == 'quick' else 4
        boxes = [[l, t, r, b] for l in range(n) for r in range(l, n) for t in range(n) for b in range(t, n)]
        for ba, bb in itertools.product(boxes, repeat=2):
            out.append(self._mk(reg(ba), reg(bb), rng, ['lattice']))
        # lines with / without baselines on the lattice (sampled)
        k = 600 if tier == 'quick' else 6000
        for _ in range(k):
            ea, eb = self._rand_elem(rng, boxes), self._rand_elem(rng, boxes)
            out.append(self._mk(ea, eb, rng, ['lattice-mixed']))
        # random large boxes
        for _ in range(k):
            mag = rng.choice([10, 200, 5000, 10 ** 6])
            def rb():
                l, t = rng.randint(0, mag), rng.randint(0, mag)
                return [l, t, l + rng.choice([0, 1, rng.randint(0, mag)]), t + rng.choice([0, 1, rng.randint(0, mag)])]
            ea = self._rand_elem(rng, None, rb)
            eb = self._rand_elem(rng, None, rb)
            if rng.random() < 0.3 and ea['coords'] is not None:            # nested / touching / identical boxes
                c = ea['coords']
                eb = dict(eb, coords=rng.choice([c, [c[0], c[1], c[2] + 1, c[3]], [c[2], c[1], c[2] + 5, c[3]],
                                                 [c[2] + 1, c[1], c[2] + 9, c[3]], [c[0], c[3], c[2], c[3] + 4]]))
            out.append(self._mk(ea, eb, rng, ['random']))
        return out

    def _rand_elem(self, rng, boxes, rb=None):
        pick = (lambda: rng.choice(boxes)) if boxes else rb
        kind = rng.choice(['region', 'line', 'line', 'line', 'word'])
        e = {'kind': kind, 'coords': pick(), 'baseline': None}
        if kind != 'region' and rng.random() < 0.7:
            c = e['coords']
            r = rng.random()
            if r < 0.5:     # baseline inside the box, horizontal
                x1 = rng.randint(c[0], c[2])
                x2 = rng.randint(x1, c[2])
                y = rng.randint(c[1], c[3])
                e['baseline'] = [x1, y, x2, rng.randint(y, c[3])]
            else:
                e['baseline'] = pick()
            if rng.random() < 0.5:
                l, t, r, b = e['baseline']
                pts = [[l, t], [r, b]] + [[rng.randint(l, r), rng.randint(t, b)] for _ in range(rng.choice([0, 1, 3]))]
                order = rng.choice(['rtl', 'shuffle', 'backstep'])
                if order == 'rtl':
                    pts.sort(key=lambda p: -p[0])
                elif order == 'shuffle':
                    rng.shuffle(pts)
                else:
                    pts.sort(key=lambda p: p[0])
                    pts.append([max(l, r - max(1, (r - l) // 3)), pts[-1][1]])
                e['baseline_pts'] = pts
        if rng.random() < 0.1:
            e['scan_id'] = rng.choice(['s1', 's2'])
        if rng.random() < 0.1:
            e['column_id'] = rng.choice(['c1', 'c2'])
        if rng.random() < 0.02:
            e['coords'] = None
        return e

    # ------------------------------------------------------------------
    def impl(self, case: Case) -> Any:
        out = {name: eval_pair(*v) for name, v in variants(case.input).items()}
        # used objects: every relation is a function of the CURRENT coordinates.  Compare the pair, ask again
        # (second call = first call), then move one of the two objects and ask again on the same objects
        inp = case.input
        a, b, thr, m, pt = variants(inp)['ab']
        dx, dy = inp['shift']
        oa, ob = build(a), build(b)
        first = eval_objs(oa, ob, thr, m, pt)
        out['again'] = eval_objs(oa, ob, thr, m, pt)
        out['again_first'] = first
        call(move_obj, ob, shift_elem(b, dx + 3, dy + 5))
        out['moved_b'] = eval_objs(oa, ob, thr, m, pt)
        out['moved_b_swapped'] = eval_objs(ob, oa, thr, m, pt)
        call(move_obj, oa, shift_elem(a, -2 if (a.get('coords') or [9])[0] >= 2 else 1, 4))
        out['moved_ab'] = eval_objs(oa, ob, thr, m, pt)
        return out

    def requests(self, case: Case):
        reqs = []
        allv = dict(variants(case.input))
        allv.update(used_variants(case.input))
        for name, (a, b, thr, m, pt) in allv.items():
            a = {k: v for k, v in a.items() if k != 'baseline_pts'}
            b = {k: v for k, v in b.items() if k != 'baseline_pts'}
            reqs.append({'p': 'C10', 'op': 'pair', 'args': {'a': a, 'b': b, 'thr': thr, 'margin': m, 'pt': pt}})
        return reqs

    def compare(self, case, impl_out, model_out):
        for (name, io), mo in zip(impl_out.items(), model_out):
            if 'ok' not in mo:
                return f'{name}: model answered {mo}'
            for f in FUNCS:
                i, m = io[f], mo['ok'][f]
                if f in RATIOS and 'ok' in i and 'ok' in m:
                    num, den = m['ok']
                    if Fraction(num / den) != Fraction(*i['ok']['frac']):
                        return f'{name}.{f}: impl={i} model={m}'
                elif i != m:
                    return f'{name}.{f}: impl={i} model={m}'
        return None

    # ------------------------------------------------------------------
    def oracle(self, case: Case, out: Any) -> List[Finding]:
        fs: List[Finding] = []
        inp = case.input
        a, b = inp['a'], inp['b']
        ab, ba, sh, tr, t2 = out['ab'], out['ba'], out['shift'], out['transposed'], out['thr2']

        def bad(key, what):
            fs.append(Finding(f'C10:{key}', what, case, out))
        for name, v in used_variants(inp).items():
            fresh = eval_pair(*v)
            if out.get(name) != fresh:
                diff = [f for f in FUNCS if out.get(name, {}).get(f) != fresh.get(f)]
                bad(f'used-objects:{name}', f'{name}: on used objects {diff} differ from the answers for fresh objects '
                                            f'with the same coordinates, e.g. {diff[0]}: {out[name][diff[0]]} vs {fresh[diff[0]]}')
        ca, cb = a.get('coords'), b.get('coords')
        both = ca is not None and cb is not None
        elems_in_statement = a['kind'] != 'word' and b['kind'] != 'word'
        if both and elems_in_statement:
            lines_with_bl = (a['kind'] == 'line' and b['kind'] == 'line' and a.get('baseline') and b.get('baseline'))
            if lines_with_bl:
                exp_h = interval_count(a['baseline'][0], a['baseline'][2], b['baseline'][0], b['baseline'][2])
            else:
                exp_h = interval_count(ca[0], ca[2], cb[0], cb[2])
            exp_v = interval_count(ca[1], ca[3], cb[1], cb[3])
            if ab['h_overlap'] != {'ok': exp_h}:
                bad('h-overlap', f'horizontal overlap {ab["h_overlap"]}, interval arithmetic gives {exp_h}')
            if ab['v_overlap'] != {'ok': exp_v}:
                bad('v-overlap', f'vertical overlap {ab["v_overlap"]}, interval arithmetic gives {exp_v}')
            gh, gv = gap(ca[0], ca[2], cb[0], cb[2]), gap(ca[1], ca[3], cb[1], cb[3])
            if ab['h_distance'] != {'ok': gh}:
                bad('h-distance', f'horizontal distance {ab["h_distance"]}, gap is {gh}')
            if ab['v_distance'] != {'ok': gv}:
                bad('v-distance', f'vertical distance {ab["v_distance"]}, gap is {gv}')
            if not lines_with_bl and 'ok' in ab['h_distance'] and 'ok' in ab['h_overlap']:
                if (ab['h_distance']['ok'] == 0) != (ab['h_overlap']['ok'] > 0):
                    bad('h-distance-zero-iff', 'horizontal distance 0 does not coincide with positive overlap')
            if 'ok' in ab['v_distance'] and 'ok' in ab['v_overlap']:
                if (ab['v_distance']['ok'] == 0) != (ab['v_overlap']['ok'] > 0):
                    bad('v-distance-zero-iff', 'vertical distance 0 does not coincide with positive overlap')
        if elems_in_statement and both:
            for f in SYMMETRIC:
                if ab[f] != ba[f]:
                    bad(f'symmetry:{f}', f'{f}(a,b)={ab[f]} but {f}(b,a)={ba[f]}')
            for f in TRANSLATION_INVARIANT + ['is_point_inside']:
                if ab[f] != sh[f]:
                    bad(f'translation:{f}', f'{f} changes from {ab[f]} to {sh[f]} under a common translation')
            no_baselines = not (a.get('baseline') and a['kind'] == 'line') and not (b.get('baseline') and b['kind'] == 'line')
            if no_baselines:
                for v, h in DUAL.items():
                    if ab[v] != tr[h]:
                        bad(f'transpose:{v}', f'{v}(a,b)={ab[v]} but {h} on the transposed pair is {tr[h]}')
        # regions-overlap clauses (threshold in (0,1))
        ro = ab['regions_overlap']
        if ca is None or cb is None:
            if ro != {'ok': False}:
                bad('ro-no-coords', f'regions_overlap with a missing coords is {ro}')
        elif elems_in_statement:
            if a == b and ro != {'ok': True}:
                bad('ro-reflexive', 'regions_overlap(a, a) is not True')
            contains = (ca[0] <= cb[0] and cb[2] <= ca[2] and ca[1] <= cb[1] and cb[3] <= ca[3]) or \
                       (cb[0] <= ca[0] and ca[2] <= cb[2] and cb[1] <= ca[1] and ca[3] <= cb[3])
            disjoint = interval_count(ca[0], ca[2], cb[0], cb[2]) == 0 or interval_count(ca[1], ca[3], cb[1], cb[3]) == 0
            if contains and ro != {'ok': True}:
                bad('ro-contains', 'one box contains the other but regions_overlap is not True')
            if disjoint and ro != {'ok': False}:
                bad('ro-disjoint', 'disjoint boxes but regions_overlap is not False')
            if t2['regions_overlap'] == {'ok': True} and ro != {'ok': True}:
                bad('ro-antitone', f'regions_overlap is False at {inp["thr"]} but True at the larger {inp["thr2"]}')
        return fs

    def nontrivial(self, case: Case) -> bool:
        return case.input['a'] != case.input['b']

    def shrink_candidates(self, case: Case):
        inp = case.input
        for who in ('a', 'b'):
            e = inp[who]
            for fld in ('coords', 'baseline'):
                bx = e.get(fld)
                if bx:
                    for i in range(4):
                        for nv in (bx[i] // 2, bx[i] - 1):
                            nb = list(bx)
                            nb[i] = nv
                            if nb[0] <= nb[2] and nb[1] <= nb[3] and nb != bx and min(nb) >= 0:
                                yield Case(case.kind, dict(inp, **{who: dict(e, **{fld: nb})}), case.tags)
            if e.get('baseline') is not None:
                yield Case(case.kind, dict(inp, **{who: dict(e, baseline=None)}), case.tags)
        if inp['shift'] != [0, 0]:
            yield Case(case.kind, dict(inp, shift=[0, 0]), case.tags)


CHECK = C10()
