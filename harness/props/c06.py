"""C06 — The JSON view round-trips to an identical document.

Cases are JSON *specs* of documents; a spec is turned into a real document either through the
constructors (route 'api', assembled the way the parser assembles them) or by rendering it as
PageXML text and parsing that (route 'xml').  A case may select a sub-document of what was built
(`path`), so that regions / lines / words that carry the metadata written by their ancestors are
round-tripped on their own as well.
"""
from __future__ import annotations

import copy
import io
import json
import contextlib
import random
from typing import Any, Dict, Iterable, List, Optional

from harness.core import OUTSIDE, Case, Check, Finding, err_name

PAGE_NS = 'http://schema.primaresearch.org/PAGE/gts/pagecontent/2013-07-15'


# ---------------------------------------------------------------------------------------
# spec -> real document
# ---------------------------------------------------------------------------------------

def _pdm():
    import pagexml.model.physical_document_model as pdm
    return pdm


def _coords(pts, cls=None):
    pdm = _pdm()
    if pts is None:
        return None
    return (cls or pdm.Coords)([tuple(p) for p in pts])


def _unwire(v):
    """wire value (see _pv) -> Python value"""
    if isinstance(v, list):
        return [_unwire(x) for x in v]
    if isinstance(v, dict):
        if 'f' in v:
            return float(v['f'])
        if 't' in v:
            return tuple(_unwire(x) for x in v['t'])
        if 'd' in v:
            return {k: _unwire(x) for k, x in v['d']}
        raise ValueError(v)
    return v


def _common(spec):
    kw = {'doc_id': spec.get('id'), 'coords': _coords(spec.get('coords'))}
    if spec.get('types') is not None:
        kw['doc_type'] = spec['types']
    if spec.get('meta') is not None:
        kw['metadata'] = _unwire(spec['meta'])
    return kw


def _ro(spec):
    kw = {}
    if spec.get('ro') is not None:
        kw['reading_order'] = {int(i): r for i, r in spec['ro']}
    if spec.get('roa') is not None:
        kw['reading_order_attributes'] = _unwire(spec['roa'])
    return kw


def build_word(spec):
    pdm = _pdm()
    return pdm.PageXMLWord(text=spec.get('text'), conf=_unwire(spec.get('conf')), **_common(spec))


def build_line(spec):
    pdm = _pdm()
    words = [build_word(w) for w in spec.get('words', [])]
    return pdm.PageXMLTextLine(text=spec.get('text'), conf=_unwire(spec.get('conf')),
                               baseline=_coords(spec.get('baseline'), pdm.Baseline),
                               xheight=spec.get('xheight'), words=words, **_common(spec), **_ro(spec))


def build_table(spec):
    """cells -> rows -> table, the way parse_tableregion assembles them"""
    pdm = _pdm()
    from pagexml.parser import make_rows_from_cells
    cells = []
    for c in spec.get('cells', []):
        cells.append(pdm.PageXMLTableCell(row=c.get('row'), col=c.get('col'), row_span=c.get('row_span'),
                                          cell_span=c.get('cell_span'), header=c.get('header'),
                                          cornerpoints=_unwire(c.get('cornerpoints')),
                                          orientation=_unwire(c.get('orientation')),
                                          lines=[build_line(l) for l in c.get('lines', [])], **_common(c)))
    table = pdm.PageXMLTableRegion(orientation=_unwire(spec.get('orientation')), **_common(spec))
    table.rows = make_rows_from_cells(cells)
    table.set_as_parent(table.rows)
    return table


def _region_kw(spec):
    kw = dict(lines=[build_line(l) for l in spec.get('lines', [])],
              text_regions=[build_region(r) for r in spec.get('regions', [])],
              orientation=_unwire(spec.get('orientation')), **_common(spec), **_ro(spec))
    if spec.get('tables'):
        kw['table_regions'] = [build_table(t) for t in spec['tables']]
    return kw


def build_region(spec):
    pdm = _pdm()
    kw = _region_kw(spec)
    if 'text' in spec:
        kw['text'] = spec['text']
    return pdm.PageXMLTextRegion(**kw)


def build_column(spec):
    return _pdm().PageXMLColumn(**_region_kw(spec))


def build_page(spec):
    kw = _region_kw(spec)
    kw.pop('lines')
    return _pdm().PageXMLPage(columns=[build_column(c) for c in spec.get('columns', [])],
                              extra=[build_region(r) for r in spec.get('extra', [])], **kw)


def build_scan(spec):
    return _pdm().PageXMLScan(pages=[build_page(p) for p in spec.get('pages', [])],
                              columns=[build_column(c) for c in spec.get('columns', [])], **_region_kw(spec))


BUILDERS = {'word': build_word, 'line': build_line, 'text_region': build_region, 'column': build_column,
            'page': build_page, 'scan': build_scan}


# ---- spec -> PageXML text ----------------------------------------------------------------

def _pts_str(pts):
    return ' '.join(f'{x},{y}' for x, y in pts)


def _custom_str(custom):
    """[{tag_name, k: v, ...}] -> custom attribute string"""
    return ' '.join(c['tag_name'] + ' {' + ' '.join(f'{k}:{v};' for k, v in c.items() if k != 'tag_name') + '}'
                    for c in custom)


def _conf_str(c):
    c = _unwire(c)
    return repr(c) if isinstance(c, float) else str(c)


def render_xml(spec) -> str:
    """a scan spec as PageXML text (lxml does the escaping)"""
    from lxml import etree
    ns = '{%s}' % PAGE_NS

    def el(parent, tag, **attrs):
        e = etree.SubElement(parent, ns + tag)
        for k, v in attrs.items():
            if v is not None:
                e.set(k, str(v))
        return e

    def common(e, s):
        if s.get('id') is not None:
            e.set('id', s['id'])
        if s.get('custom'):
            e.set('custom', _custom_str(s['custom']))
        if s.get('coords') is not None:
            el(e, 'Coords', points=_pts_str(s['coords']))

    def text_equiv(e, s):
        if 'text' in s and s['text'] is not None or s.get('conf') is not None:
            te = el(e, 'TextEquiv', conf=_conf_str(s['conf']) if s.get('conf') is not None else None)
            u = el(te, 'Unicode')
            u.text = s.get('text')

    def line(parent, s):
        e = el(parent, 'TextLine', xheight=s.get('xheight'))
        common(e, s)
        if s.get('baseline') is not None:
            el(e, 'Baseline', points=_pts_str(s['baseline']))
        for w in s.get('words', []):
            we = el(e, 'Word')
            common(we, w)
            text_equiv(we, w)
        text_equiv(e, s)

    def region(parent, s):
        o = _unwire(s.get('orientation'))
        e = el(parent, 'TextRegion', orientation=repr(o) if o is not None else None)
        common(e, s)
        for l in s.get('lines', []):
            line(e, l)
        for r in s.get('regions', []):
            region(e, r)
        if s.get('text') is not None:
            te = el(e, 'TextEquiv')
            el(te, 'Unicode').text = s['text']

    def table(parent, s):
        o = _unwire(s.get('orientation'))
        e = el(parent, 'TableRegion', orientation=repr(o) if o is not None else None)
        common(e, s)
        for c in s.get('cells', []):
            co = _unwire(c.get('orientation'))
            ce = el(e, 'TableCell', row=c.get('row'), col=c.get('col'), rowSpan=c.get('row_span'),
                    cellSpan=c.get('cell_span'), header=c.get('header'),
                    orientation=repr(co) if co is not None else None)
            common(ce, c)
            for l in c.get('lines', []):
                line(ce, l)
            if c.get('cornerpoints') is not None:
                cp = _unwire(c['cornerpoints'])
                el(ce, 'CornerPts').text = cp if isinstance(cp, str) else ' '.join(str(p) for p in cp)

    root = etree.Element(ns + 'PcGts', nsmap={None: PAGE_NS})
    md = el(root, 'Metadata')
    for k, v in (spec.get('xml_metadata') or {}).items():
        el(md, k).text = v
    w, h = spec.get('size', [100, 100])
    page = el(root, 'Page', imageFilename=spec.get('id'), imageWidth=w, imageHeight=h)
    if spec.get('ro') is not None:
        ro = el(page, 'ReadingOrder')
        roa = _unwire(spec.get('roa')) or {}
        og = el(ro, 'OrderedGroup', id=roa.get('id'), caption=roa.get('caption'))
        for i, r in spec['ro']:
            el(og, 'RegionRefIndexed', index=i, regionRef=r)
    for r in spec.get('regions', []):
        region(page, r)
    for t in spec.get('tables', []):
        table(page, t)
    return etree.tostring(root, xml_declaration=True, encoding='UTF-8').decode('utf-8')


def build(inp):
    """case input -> the real document under test"""
    spec = inp['spec']
    if inp.get('route') == 'xml':
        from pagexml.parser import parse_pagexml_file
        doc = parse_pagexml_file(inp.get('filename', 'gen.xml'), pagexml_data=render_xml(spec))
    else:
        doc = BUILDERS[spec['cls']](spec)
    if inp.get('grow'):
        grow(doc, inp['grow'], inp.get('read_after', False))
    for attr, idx in inp.get('path', []):
        doc = getattr(doc, attr)[idx]
    return doc


REGION_LIKE = ('PageXMLTextRegion', 'PageXMLColumn', 'PageXMLScan')


def _walk_containers(doc):
    """every scan / page / column / text region of a document, outermost first"""
    out = [doc]
    for attr in ('pages', 'columns', 'text_regions', 'extra'):
        for c in getattr(doc, attr, None) or []:
            out.extend(_walk_containers(c))
    return out


def _read_all(doc):
    """look at every container once, as a user inspecting a document does: JSON view and statistics"""
    for o in _walk_containers(doc):
        try:
            o.json
            o.stats
        except Exception:  # noqa  (a page with direct lines has no JSON view; irrelevant here)
            pass


def grow(doc, steps, read_after=False):
    """a construction history: inspect the document, then attach further children through `add_child` at
    the given container paths (appends only, so paths computed on the spec stay valid)"""
    for st in steps:
        if st.get('read_before', True):
            _read_all(doc)
        target = doc
        for attr, idx in st['path']:
            target = getattr(target, attr)[idx]
        target.add_child(BUILDERS[st['child']['cls']](st['child']))
    if read_after:
        _read_all(doc)


def stale_stats(doc):
    """the direct statistics clause: in the JSON view of every region-like container the counts equal a fresh
    recount (the sizes of the traversals)"""
    bad = []
    for o in _walk_containers(doc):
        if type(o).__name__ not in REGION_LIKE:
            continue
        st = o.json.get('stats', {})
        want = {'lines': len(o.get_lines()), 'words': len(o.get_words()), 'text_regions': len(o.text_regions)}
        for k, v in want.items():
            if st.get(k) != v:
                bad.append(f'{type(o).__name__} {o.id!r}: stats[{k!r}] = {st.get(k)!r}, a fresh count gives {v}')
    return bad


# ---------------------------------------------------------------------------------------
# real document / Python value -> wire form understood by the model driver
# ---------------------------------------------------------------------------------------

def _pv(v):
    """Python value -> wire value: null | bool | int | {'f': repr} | str | [..] | {'d': [[k, v]..]} | {'o': cls}"""
    if v is None or isinstance(v, (bool, str)):
        return v
    if isinstance(v, int):
        return v
    if isinstance(v, float):
        return {'f': repr(v)}
    if isinstance(v, (list, tuple)):
        return [_pv(x) for x in v]
    if isinstance(v, dict):
        out = []
        for k, x in v.items():
            if isinstance(k, bool) or not isinstance(k, (str, int)):
                return {'o': 'dict-with-' + type(k).__name__ + '-key'}
            out.append([k, _pv(x)])
        return {'d': out}
    return {'o': type(v).__name__}


def _canon_wire(v):
    """dicts compared without order"""
    if isinstance(v, list):
        return [_canon_wire(x) for x in v]
    if isinstance(v, dict):
        if 'd' in v:
            return {'d': sorted(([k, _canon_wire(x)] for k, x in v['d']), key=lambda kv: (str(type(kv[0])), str(kv[0])))}
        return v
    return v


def _hdr(doc):
    t = doc.type
    return {'id': _pv(doc.id), 'types': [t] if isinstance(t, str) else list(t), 'md': _pv(doc.metadata),
            'coords': [list(p) for p in doc.coords.points] if doc.coords is not None else None}


def _ro_abs(doc):
    ro = doc.reading_order
    return [[int(i), _pv(r)] for i, r in ro.items()] if ro else []


def _pts(c):
    return [list(p) for p in c.points] if c is not None else None


def abstract(doc) -> Dict[str, Any]:
    """the attributes of a real document, read directly (never through `.json`).
    Attributes that the library only ever tests for truthiness (orientation, xheight, cornerpoints)
    are abstracted up to that: a falsy value is None (the model's documents are canonical in this
    sense, see `canon` in Model/C06WF.lean)."""
    return _null_falsy_guarded(_abstract(doc))


def _abstract(doc) -> Dict[str, Any]:
    n = type(doc).__name__
    if n == 'PageXMLWord':
        return {'cls': 'word', 'h': _hdr(doc), 'text': doc.text, 'conf': _pv(doc.conf)}
    if n == 'PageXMLTextLine':
        return {'cls': 'line', 'h': _hdr(doc), 'baseline': _pts(doc.baseline), 'text': doc.text, 'conf': _pv(doc.conf),
                'xheight': _pv(doc.xheight), 'ro': _ro_abs(doc), 'roa': _pv(doc.reading_order_attributes),
                'words': [_abstract(w) for w in doc.words]}
    if n == 'PageXMLTableCell':
        return {'cls': 'table_cell', 'h': _hdr(doc), 'row': _pv(doc.row), 'col': doc.col, 'cell_span': _pv(doc.cell_span),
                'row_span': _pv(doc.row_span), 'header': _pv(doc.header), 'cornerpoints': _pv(doc.cornerpoints),
                'orientation': _pv(doc.orientation), 'lines': [_abstract(l) for l in doc.lines]}
    if n == 'PageXMLTableRow':
        return {'cls': 'table_row', 'h': _hdr(doc), 'num_cols': len(doc.column_cells), 'orientation': _pv(doc.orientation),
                'cells': [_abstract(c) for c in doc.cells]}
    if n == 'PageXMLTableRegion':
        return {'cls': 'table_region', 'h': _hdr(doc), 'orientation': _pv(doc.orientation),
                'rows': [_abstract(r) for r in doc.rows]}
    base = {'h': _hdr(doc), 'orientation': _pv(doc.orientation), 'ro': _ro_abs(doc),
            'roa': _pv(doc.reading_order_attributes)}

    def regions(rs):
        out = []
        for r in rs:
            if type(r).__name__ != 'PageXMLTextRegion':
                raise ValueError('model scope: text_regions / extra hold PageXMLTextRegion objects only')
            out.append(_abstract(r))
        return out
    if n == 'PageXMLTextRegion':
        return dict(base, cls='text_region', text=doc.text, lines=[_abstract(l) for l in doc.lines],
                    regions=regions(doc.text_regions), tables=[_abstract(t) for t in doc.table_regions])
    if n == 'PageXMLColumn':
        return dict(base, cls='column', lines=[_abstract(l) for l in doc.lines],
                    regions=regions(doc.text_regions), tables=[_abstract(t) for t in doc.table_regions])
    if n == 'PageXMLPage':
        if doc.lines:
            raise ValueError('model scope: a page has no direct lines')
        return dict(base, cls='page', columns=[_abstract(c) for c in doc.columns], regions=regions(doc.text_regions),
                    tables=[_abstract(t) for t in doc.table_regions], extra=regions(doc.extra))
    if n == 'PageXMLScan':
        return dict(base, cls='scan', pages=[_abstract(p) for p in doc.pages], columns=[_abstract(c) for c in doc.columns],
                    regions=regions(doc.text_regions), tables=[_abstract(t) for t in doc.table_regions],
                    lines=[_abstract(l) for l in doc.lines])
    raise ValueError('unknown class ' + n)


def _canon_abs(a):
    """abstract document with metadata / carried dicts compared without order"""
    if isinstance(a, list):
        return [_canon_abs(x) for x in a]
    if isinstance(a, dict):
        if 'd' in a and len(a) == 1:
            return _canon_wire(a)
        return {k: _canon_abs(v) for k, v in a.items()}
    return a


def _falsy(w) -> bool:
    """Python truthiness of a wire value"""
    if w is None or w is False or w == 0 or w == '' or w == []:
        return True
    if isinstance(w, dict):
        if 'f' in w:
            return float(w['f']) == 0.0
        if 'd' in w:
            return len(w['d']) == 0
    return False


TRUTHINESS_GUARDED = ('orientation', 'xheight', 'cornerpoints')


def _null_falsy_guarded(a):
    if isinstance(a, list):
        return [_null_falsy_guarded(x) for x in a]
    if isinstance(a, dict):
        if 'cls' not in a:
            return a
        return {k: (None if (k in TRUTHINESS_GUARDED and _falsy(v)) else _null_falsy_guarded(v)) for k, v in a.items()}
    return a


def _observed(a):
    """the abstract document as the property statement observes it: attributes that the code
    only ever tests for truthiness (orientation, xheight, cornerpoints) are compared up to
    falsy ≡ None"""
    if isinstance(a, list):
        return [_observed(x) for x in a]
    if isinstance(a, dict):
        if 'd' in a and len(a) == 1:
            return _canon_wire(a)
        out = {}
        for k, v in a.items():
            if k in TRUTHINESS_GUARDED and 'cls' in a:
                out[k] = None if _falsy(v) else _canon_wire(v)
            else:
                out[k] = _observed(v)
        return out
    return a


def _first_diff(a, b, path=''):
    """path of the first difference between two JSON values (None if equal)"""
    if type(a) != type(b):
        return path or '/'
    if isinstance(a, dict):
        for k in sorted(set(a) | set(b), key=str):
            if k not in a or k not in b:
                return f'{path}/{k}'
            d = _first_diff(a[k], b[k], f'{path}/{k}')
            if d:
                return d
        return None
    if isinstance(a, list):
        if len(a) != len(b):
            return path + '/len'
        for i, (x, y) in enumerate(zip(a, b)):
            d = _first_diff(x, y, f'{path}[{i}]')
            if d:
                return d
        return None
    return None if a == b else (path or '/')


def _diff_key(path: str) -> str:
    """the class of a difference: its last attribute name"""
    import re
    names = re.findall(r'/([A-Za-z_]+)', path or '')
    return names[-1] if names else 'root'


# ---------------------------------------------------------------------------------------
# spec generators
# ---------------------------------------------------------------------------------------

class Gen:
    def __init__(self, rng: random.Random, xml: bool):
        self.rng = rng
        self.xml = xml
        self.n = 0

    def nid(self, p):
        self.n += 1
        return f'{p}{self.n}'

    def pts(self, n=None):
        r = self.rng
        n = n or r.choice([2, 3, 4, 4, 6])
        x0, y0 = r.randint(0, 300), r.randint(0, 300)
        return [[x0 + r.randint(0, 200), y0 + r.randint(0, 80)] for _ in range(n)]

    def text(self, allow_none=True, allow_empty=False):
        r = self.rng
        x = r.random()
        if allow_none and x < 0.15:
            return None
        if allow_empty and x < 0.25:
            return ''
        alphabet = ['a', 'b', 'de', 'xyz', 'é', '&', '<', '"', "'", 'ß', '1', '-', 'q r', 'w  w'] if not self.xml \
            else ['a', 'b', 'de', 'xyz', 'é', '&', '<', '"', "'", 'ß', '1', '-']
        return ' '.join(r.choice(alphabet) for _ in range(r.randint(1, 4)))

    def conf(self):
        r = self.rng
        x = r.random()
        if x < 0.35:
            return None
        if x < 0.5:
            return {'f': '0.0'}
        if x < 0.9:
            return {'f': repr(r.choice([0.5, 0.25, 0.987, 1.0, 0.1, 0.3333]))}
        return {'f': repr(r.random())} if self.xml else r.choice(['0.7', 1, 0])

    def custom(self):
        r = self.rng
        if r.random() < 0.5:
            return None
        out = []
        if r.random() < 0.5:
            out.append({'tag_name': 'readingOrder', 'index': r.randint(0, 30)})
        if r.random() < 0.5:
            out.append({'tag_name': 'structure', 'type': r.choice(['paragraph', 'header', 'marginalia', 'line'])})
        # repeated tag names (several spans of one kind on a line) and zero-valued integers
        for _ in range(r.choice([0, 0, 1, 1, 2, 3])):
            out.append({'tag_name': 'textStyle', 'offset': r.randint(0, 5), 'length': r.randint(0, 5), 'bold': 'true'})
        for _ in range(r.choice([0, 0, 0, 1, 2])):
            out.append({'tag_name': r.choice(['unclear', 'abbrev']), 'offset': r.randint(0, 9), 'length': r.randint(1, 4)})
        return out or None

    def meta(self):
        """metadata for the API route (a wire dict) or None"""
        r = self.rng
        if self.xml or r.random() < 0.6:
            return None
        kvs = []
        for _ in range(r.randint(0, 3)):
            kvs.append([r.choice(['k', 'note', 'n', 'tags', 'info', 'type', 'parent_id', 'scan_id']),
                        r.choice(['v', 3, {'f': '1.5'}, None, True, [1, 'a'], {'t': [1, 2]}, {'d': [['x', [1, {'d': [['y', None]]}]]]}])])
        seen, out = set(), []
        for k, v in kvs:
            if k not in seen:
                seen.add(k)
                out.append([k, v])
        return {'d': out}

    def types(self):
        r = self.rng
        if self.xml or r.random() < 0.7:
            return None
        # (never the class tag of another document class: the builder dispatches on those)
        return r.choice(['header', ['main', 'para'], ['pagexml_doc', 'x'], [], 'marginalia', ['structure_doc', 'foo'], ''])

    def common(self, prefix, need_id=False, need_coords=False, id_none_p=0.15, coords_none_p=0.2):
        r = self.rng
        s: Dict[str, Any] = {}
        s['id'] = self.nid(prefix) if (need_id or r.random() > id_none_p) else None
        s['coords'] = self.pts() if (need_coords or r.random() > coords_none_p) else None
        if self.xml:
            c = self.custom()
            if c:
                s['custom'] = c
        else:
            m, t = self.meta(), self.types()
            if m is not None:
                s['meta'] = m
            if t is not None:
                s['types'] = t
        return s

    def word(self):
        s = self.common('w', need_coords=self.xml, coords_none_p=0.4)
        s['cls'] = 'word'
        s['text'] = self.text()
        s['conf'] = self.conf()
        if self.xml and s['text'] is None and s['conf'] is not None:
            s['conf'] = None
        return s

    def line(self, need_text=False, depth=0):
        r = self.rng
        s = self.common('l', need_coords=self.xml)
        s['cls'] = 'line'
        s['text'] = self.text(allow_none=not need_text)
        s['conf'] = self.conf()
        if self.xml and s['text'] is None:
            s['conf'] = None
        s['baseline'] = self.pts(r.choice([2, 3, 5])) if r.random() < 0.6 else None
        x = r.random()
        s['xheight'] = None if x < 0.6 else (0 if x < 0.7 else r.randint(1, 40))
        s['words'] = [self.word() for _ in range(r.choice([0, 0, 0, 1, 2, 3]))]
        if not self.xml and r.random() < 0.15:
            s['ro'] = [[r.randint(0, 20), 'x']]
            s['roa'] = {'d': [['caption', 'c']]}
        return s

    def orientation(self):
        x = self.rng.random()
        return None if x < 0.6 else ({'f': '0.0'} if x < 0.75 else {'f': repr(self.rng.choice([90.0, 180.0, 0.5, -90.0]))})

    def reading_order(self, ids):
        """[[index, id]] over the given ids: complete / partial / with dangling refs / non-contiguous"""
        r = self.rng
        ids = [i for i in ids if i is not None]
        if not ids or r.random() < 0.4:
            return None
        mode = r.choice(['full', 'full', 'full', 'partial', 'dangling'])
        use = list(ids)
        r.shuffle(use)
        if mode == 'partial' and len(use) > 1:
            use = use[:-1]
        if mode == 'dangling':
            use.append('missing_region')
        idxs = r.sample(range(0, 40), len(use)) if r.random() < 0.7 else list(range(len(use)))
        if r.random() < 0.5:
            idxs = [i + 9 for i in idxs]
        return [[i, u] for i, u in zip(idxs, use)]

    def region(self, depth=0, allow_tables=False):
        r = self.rng
        s = self.common('r', need_id=r.random() < 0.8, coords_none_p=0.25)
        s['cls'] = 'text_region'
        s['orientation'] = self.orientation()
        nl = r.choice([0, 1, 1, 2, 3]) if depth > 0 or r.random() < 0.8 else 0
        s['lines'] = [self.line() for _ in range(nl)]
        ns = r.choice([0, 0, 0, 1, 2]) if depth < 2 else 0
        s['regions'] = [self.region(depth + 1, allow_tables) for _ in range(ns)]
        if self.xml and s['coords'] is None and not s['lines'] and not s['regions']:
            s['coords'] = self.pts()
        x = r.random()
        if x < 0.2:
            s['text'] = self.text(allow_none=False, allow_empty=not self.xml)
        if allow_tables and not self.xml and r.random() < 0.2:
            s['tables'] = [self.table()]
        if not self.xml and s['regions'] and r.random() < 0.5:
            ro = self.reading_order([x['id'] for x in s['regions']])
            if ro:
                s['ro'] = ro
        return s

    def table(self):
        r = self.rng
        s = self.common('t', need_id=True)
        s['cls'] = 'table_region'
        s['custom'] = None
        s['orientation'] = self.orientation()
        cells = []
        nrows = r.randint(1, 3)
        for ri in range(nrows):
            ncells = r.randint(1, 3)
            col = 0
            for ci in range(ncells):
                col += r.choice([0, 0, 0, 1, 2]) if ci or r.random() < 0.2 else 0
                c = self.common('c', need_id=True, need_coords=True)
                c.update(row=ri if r.random() < 0.97 else None, col=col, row_span=r.choice([None, 1, 2]),
                         cell_span=r.choice([None, 1]), header=r.choice([None, None, 'true', 'false']),
                         cornerpoints=r.choice([None, {'t': [0, 1, 2, 3]}, '0 1 2 3', 'a b']),
                         orientation=self.orientation(),
                         lines=[self.line() for _ in range(r.choice([0, 1, 1, 2]))])
                cells.append(c)
                col += 1
        if r.random() < 0.3:
            r.shuffle(cells)
        s['cells'] = cells
        return s

    def column(self):
        r = self.rng
        s = self.common('col', need_id=True, need_coords=True)
        s['cls'] = 'column'
        s['orientation'] = self.orientation()
        s['regions'] = [self.region(1, True) for _ in range(r.choice([0, 1, 2, 3]))]
        s['lines'] = [self.line() for _ in range(r.choice([0, 0, 1]))]
        if r.random() < 0.25:
            s['tables'] = [self.table()]
        ro = self.reading_order([x['id'] for x in s['regions']])
        if ro and r.random() < 0.5:
            s['ro'] = ro
        return s

    def page(self):
        r = self.rng
        s = self.common('p', need_id=True, need_coords=True)
        s['cls'] = 'page'
        s['orientation'] = self.orientation()
        s['columns'] = [self.column() for _ in range(r.choice([0, 1, 2, 3]))]
        s['regions'] = [self.region(1, True) for _ in range(r.choice([0, 0, 1, 2]))]
        s['extra'] = [self.region(1, True) for _ in range(r.choice([0, 0, 1, 2]))]
        s['lines'] = []
        if r.random() < 0.3:
            s['tables'] = [self.table() for _ in range(r.choice([1, 2]))]
        ro = self.reading_order([x['id'] for x in s['regions']])
        if ro and r.random() < 0.5:
            s['ro'] = ro
            s['roa'] = {'d': [['id', 'og1']]}
        return s

    def scan(self):
        r = self.rng
        s = self.common('s', need_id=r.random() < 0.95, need_coords=r.random() < 0.8)
        s['cls'] = 'scan'
        s.pop('custom', None)
        s['orientation'] = None if self.xml else self.orientation()
        s['regions'] = [self.region(0, allow_tables=True) for _ in range(r.choice([0, 1, 2, 3, 4]))]
        s['tables'] = [self.table() for _ in range(r.choice([0, 0, 0, 1, 2]))]
        ro = self.reading_order([x['id'] for x in s['regions']])
        if ro:
            s['ro'] = ro
            if r.random() < 0.6:
                s['roa'] = {'d': [[k, r.choice(['og', 'c&d', 'x'])] for k in r.sample(['id', 'caption'], r.randint(0, 2))]}
        if self.xml:
            s['id'] = s['id'] or None
            s['size'] = [r.choice([0, 100, 2000, 3333]), r.choice([100, 2500, 0]) if r.random() < 0.9 else 0]
            if r.random() < 0.7:
                # (a Creator that is all digits — a build number, a year — is read as an int by parse_page_metadata)
                s['xml_metadata'] = {k: v for k, v in [('Creator', r.choice(['gen & co', 'gen & co', 'Transkribus', '123', '2024'])),
                                                       ('Created', '2020-01-02T03:04:05'),
                                                       ('LastChange', '1577934245000'), ('Comments', 'c')]
                                     if r.random() < 0.7}
        else:
            s['lines'] = [self.line() for _ in range(r.choice([0, 0, 0, 1]))]
            s['pages'] = [self.page() for _ in range(r.choice([0, 0, 1, 2]))]
            s['columns'] = [self.column() for _ in range(r.choice([0, 0, 0, 1]))]
        return s


def _prep_grown(s):
    """a spec for a construction history: every region / line located (add_child re-derives the coordinates of
    the container from its children), no reading order (a region attached later is not listed in it)"""
    s = dict(s)
    s.pop('ro', None)
    s.pop('roa', None)
    if s.get('cls') in ('text_region', 'line', 'column', 'page') and s.get('coords') is None:
        s['coords'] = _P(3, 4, 30, 20)
    for key in ('regions', 'lines', 'columns', 'pages', 'extra'):
        if s.get(key):
            s[key] = [_prep_grown(c) for c in s[key]]
    return s


def _container_paths(spec):
    """(path, class) of every container of a spec that `add_child` can grow"""
    out = [([], spec['cls'])]

    def walk(s, path):
        for key, attr in (('regions', 'text_regions'), ('columns', 'columns'), ('pages', 'pages'), ('extra', 'extra')):
            for i, c in enumerate(s.get(key, []) or []):
                p = path + [[attr, i]]
                out.append((p, c['cls']))
                walk(c, p)
    walk(spec, [])
    return out


def grown_input(rng: random.Random, spec):
    """a construction history on top of an API-built document: inspect, then 1-3 add_child calls at random depths"""
    spec = _prep_grown(copy.deepcopy(spec))
    conts = _container_paths(spec)
    g = Gen(rng, False)
    g.n = 1000
    steps = []
    for _ in range(rng.choice([1, 1, 2, 3])):
        # deeper containers first in line: the defect class needs an ancestor that was looked at
        path, cls = rng.choice(sorted(conts, key=lambda pc: -len(pc[0]))[:max(1, len(conts) * 2 // 3)] if rng.random() < 0.6
                               else conts)
        if cls == 'page':
            kind = 'region'
        else:
            kind = rng.choice(['line', 'line', 'region'])
        if kind == 'line':
            child = _prep_grown(dict(g.line(), id=g.nid('gl')))
            child['text'] = child['text'] or 'x y'
        else:
            child = _prep_grown(dict(g.region(2, False), id=g.nid('gr')))
            if not child['lines']:
                child['lines'] = [_prep_grown(dict(g.line(), id=g.nid('gl')))]
        child.pop('types', None)
        steps.append({'path': path, 'child': child, 'read_before': rng.random() < 0.85})
    return {'spec': spec, 'route': 'api', 'grow': steps, 'read_after': rng.random() < 0.3}


def sub_paths(spec, route) -> List[List[Any]]:
    """paths to sub-documents that can be JSON roots (regions, lines, words, columns, pages)"""
    out = []

    def walk(s, path):
        for key, attr in (('regions', 'text_regions'), ('lines', 'lines'), ('words', 'words'), ('columns', 'columns'),
                          ('pages', 'pages'), ('extra', 'extra')):
            for i, c in enumerate(s.get(key, []) or []):
                p = path + [[attr, i]]
                out.append(p)
                walk(c, p)
    walk(spec, [])
    return out


# ---------------------------------------------------------------------------------------
# corpus: past failures and hand-made corners (replayed first)
# ---------------------------------------------------------------------------------------

def _P(x=0, y=0, w=10, h=10):
    return [[x, y], [x + w, y], [x + w, y + h], [x, y + h]]


def corpus() -> List[Case]:
    L = lambda i, **k: dict({'cls': 'line', 'id': i, 'coords': _P(), 'text': 'a b'}, **k)
    W = lambda i, **k: dict({'cls': 'word', 'id': i, 'coords': _P(0, 0, 4, 4), 'text': 'a'}, **k)
    R = lambda i, **k: dict({'cls': 'text_region', 'id': i, 'coords': _P()}, **k)
    cell = lambda i, r, c, **k: dict({'id': i, 'coords': _P(), 'row': r, 'col': c, 'lines': [L(i + 'l', text='a b c')]}, **k)
    T = lambda i, cells: {'cls': 'table_region', 'id': i, 'coords': _P(), 'cells': cells}
    out = []

    def add(spec, key=None, route='api', path=None, tags=()):
        inp = {'spec': spec, 'route': route}
        if path:
            inp['path'] = path
        out.append(Case('roundtrip', inp, ['corpus'] + ([f'key:{key}'] if key else []) + list(tags)))
    # the defects repaired by fix: commits, kept as regression inputs under their keys
    add(R('r1', lines=[L('l1')], text=''), 'C06:region-empty-text')
    add({'cls': 'scan', 'id': 's1', 'coords': _P(0, 0, 100, 100), 'tables': [T('t1', [cell('c1', 0, 0, header='true')])]},
        'C06:cell-header')
    add(R('r1', tables=[T('t1', [cell('c1', 0, 0), cell('c2', 0, 1), cell('c3', 1, 0)])]), 'C06:region-table-regions')
    add({'cls': 'scan', 'id': 's', 'regions': [R('r1', tables=[T('t1', [cell('c1', 0, 0)])])]}, 'C06:region-table-regions')
    add({'cls': 'page', 'id': 'p1', 'coords': _P(), 'tables': [T('t3', [cell('c1', 0, 0)])],
         'regions': [R('x', tables=[T('t4', [cell('c2', 0, 0)])])]}, 'C06:page-table-regions')
    add(L('l1', baseline=None, text=None, coords=None), 'C06:missing-coords-baseline')
    add(R('r1', coords=None, lines=[L('l1', coords=None, text=None)]), 'C06:missing-coords-baseline')
    add(L('l1', xheight=7, conf={'f': '0.0'}, words=[W('w1', conf={'f': '0.0'}), W('w2', text=None, coords=None)]),
        'C06:dropped-fields')
    add(R('r1', text='hello world', lines=[L('l1')]), 'C06:dropped-fields')
    add({'cls': 'scan', 'id': 's', 'regions': [R('a'), R('b'), R('c')], 'ro': [[2, 'c'], [10, 'a'], [9, 'b']],
         'roa': {'d': [['caption', 'x']]}}, 'C06:reading-order-string-keys')
    add({'cls': 'scan', 'id': 's1', 'coords': _P(0, 0, 100, 100), 'tables': [T('t1', [cell('c1', 0, 0), cell('c2', 1, 0)])]},
        'C06:cell-line-parent', route='xml')
    # corners of the constructors
    add({'cls': 'scan', 'id': 's', 'regions': [R('a'), R('b'), R('c')], 'ro': [[2, 'c'], [10, 'a']]})          # partial
    add({'cls': 'scan', 'id': 's', 'regions': [R('a'), R('a'), R('c')], 'ro': [[0, 'a'], [1, 'c']]})          # dup ids
    add({'cls': 'scan', 'id': 's', 'regions': [R('a'), R('c')], 'ro': [[5, 'zz'], [0, 'c'], [3, 'a']]})       # dangling
    add({'cls': 'scan', 'id': None, 'regions': [R(None, lines=[L(None)])]})
    add({'cls': 'scan', 'id': 's', 'tables': [T('t', [cell('c1', 0, 3), cell('c2', 1, 0), cell('c3', 1, 1), cell('c4', 1, 2)])]})
    add(R('rz', orientation={'f': '0.0'}))
    add(L('lz', xheight=0))
    add(W('w', types=['foo', 'bar'], meta={'d': [['k', {'t': [1, 2]}]]}))
    add(L('l', types='header', ro=[[1, 'x']], roa={'d': [['a', 'b']]}))
    add(R('r', types=['a', 'text_region'], meta={'d': [['k', {'d': [['a', [1, 2]]]}]]}))
    add({'cls': 'scan', 'id': 's', 'regions': [R('r1', lines=[L('l1', words=[W('w1')])], regions=[R('r2', lines=[L('l2')])])]},
        path=[['text_regions', 0]])
    add({'cls': 'scan', 'id': 's', 'regions': [R('r1', lines=[L('l1', words=[W('w1')])])]},
        path=[['text_regions', 0], ['lines', 0]])
    add({'cls': 'scan', 'id': 's', 'regions': [R('r1', lines=[L('l1', words=[W('w1')])])]},
        path=[['text_regions', 0], ['lines', 0], ['words', 0]])
    # construction histories: a container is inspected (json / stats), then grown through add_child below it
    nested = {'cls': 'scan', 'id': 's', 'coords': _P(0, 0, 100, 100),
              'regions': [R('outer', regions=[R('inner', lines=[L('l1', text='first line')])])]}
    late = L('l2', text='second line of five words')
    out.append(Case('roundtrip', {'spec': nested, 'route': 'api',
                                  'grow': [{'path': [['text_regions', 0], ['text_regions', 0]], 'child': late, 'read_before': True}]},
                    ['corpus', 'grown']))
    out.append(Case('roundtrip', {'spec': nested, 'route': 'api', 'path': [['text_regions', 0]],
                                  'grow': [{'path': [['text_regions', 0], ['text_regions', 0]], 'child': late, 'read_before': True}]},
                    ['corpus', 'grown']))
    out.append(Case('roundtrip', {'spec': nested, 'route': 'api', 'read_after': True,
                                  'grow': [{'path': [], 'child': R('late', lines=[L('l3', text='late region')]), 'read_before': True},
                                           {'path': [['text_regions', 1]], 'child': L('l4'), 'read_before': False}]},
                    ['corpus', 'grown']))
    col = lambda i, x, **k: dict({'cls': 'column', 'id': i, 'coords': _P(x, 0, 10, 50)}, **k)
    out.append(Case('roundtrip', {'spec': {'cls': 'page', 'id': 'p', 'coords': _P(0, 0, 60, 60),
                                           'columns': [col('c1', 0, regions=[R('r5', lines=[L('l5')])])], 'regions': [R('r8')]},
                                  'route': 'api',
                                  'grow': [{'path': [['columns', 0], ['text_regions', 0]], 'child': L('l6'), 'read_before': True},
                                           {'path': [['columns', 0]], 'child': R('r9', lines=[L('l7')]), 'read_before': True}]},
                    ['corpus', 'grown']))
    add({'cls': 'page', 'id': 'p', 'coords': _P(0, 0, 60, 60),
         'columns': [col('c1', 0, regions=[R('r5', lines=[L('l5')])]), col('c2', 20, regions=[R('r6')], lines=[L('l7')])],
         'extra': [R('r7', lines=[L('l8')])], 'regions': [R('r8')]})
    add({'cls': 'scan', 'id': 's', 'coords': _P(0, 0, 100, 100),
         'pages': [{'cls': 'page', 'id': 'p', 'coords': _P(0, 0, 60, 60), 'columns': [col('c1', 0), col('c2', 20)],
                    'extra': [R('e1')]}], 'columns': [col('c3', 40)], 'lines': [L('sl')], 'regions': [R('a')]})
    return out


# ---------------------------------------------------------------------------------------
# malformed JSON stream (correspondence only: which exception class the builder raises)
# ---------------------------------------------------------------------------------------

MALFORM_OPS = ['del:id', 'del:type', 'del:metadata', 'del:text', 'del:coords', 'del:col', 'del:cell_span', 'del:row_span',
               'coords:empty', 'coords:short', 'coords:nonint', 'ro:badkey', 'ro:strkey', 'type:nopagexml', 'type:none',
               'del:stats', 'del:main_type', 'del:lines', 'del:row', 'type:str', 'type:strjoin', 'guard:falsy']


def _nodes(j, out=None):
    """all JSON objects of a JSON view that look like documents"""
    out = [] if out is None else out
    if isinstance(j, dict):
        if 'type' in j and 'metadata' in j:
            out.append(j)
        for v in j.values():
            _nodes(v, out)
    elif isinstance(j, list):
        for v in j:
            _nodes(v, out)
    return out


def malform(j, op: str, which: int):
    """apply one malformation to the `which`-th node (pre-order) of a JSON view; returns False if not applicable"""
    nodes = _nodes(j)
    n = nodes[which % len(nodes)]
    kind, _, arg = op.partition(':')
    if kind == 'del':
        if arg not in n:
            return False
        del n[arg]
    elif kind == 'coords':
        if 'coords' not in n:
            return False
        n['coords'] = {'empty': [], 'short': [[1]], 'nonint': [['a', 1]]}[arg]
    elif kind == 'ro':
        if arg == 'badkey':
            n['reading_order'] = {'x1': 'r'}
        else:
            n['reading_order'] = {' 12 ': 'r', '3': 'q', '03': 'z'}
    elif kind == 'type':
        if arg == 'nopagexml':
            n['type'] = [t for t in n['type'] if t != 'pagexml_doc']
        elif arg == 'str':
            # a string `type`: the dispatch tests substrings then ('pagexml_doc_word' holds 'word')
            n['type'] = 'pagexml_doc_' + (n['type'][2] if len(n['type']) > 2 else 'x')
        elif arg == 'strjoin':
            n['type'] = ' '.join(n['type'])
        else:
            n['type'] = ['pagexml_doc', 'unknown']
    elif kind == 'guard':
        # a falsy value other than None under a truthiness-guarded key (outside `guardsCanon`)
        n['orientation' if 'orientation' in n or 'xheight' not in n else 'xheight'] = 0
    return True


# ---------------------------------------------------------------------------------------
# the check
# ---------------------------------------------------------------------------------------

def _quiet(f):
    buf = io.StringIO()
    with contextlib.redirect_stdout(buf):
        return f()


def _norm(j):
    return json.loads(json.dumps(j))


_OTHER: List[Any] = []


def _other_json():
    """the JSON view of a small fixed scan (region, line with words, table): rebuilt between two rebuilds of a case"""
    if not _OTHER:
        pdm = _pdm()
        w = pdm.PageXMLWord(doc_id='w1', coords=_coords([[0, 0], [5, 0], [5, 5], [0, 5]]), text='other')
        l = pdm.PageXMLTextLine(doc_id='l1', coords=_coords([[0, 0], [9, 0], [9, 9], [0, 9]]), text='other words', words=[w])
        r = pdm.PageXMLTextRegion(doc_id='r1', coords=_coords([[0, 0], [20, 0], [20, 20], [0, 20]]), lines=[l])
        sc = pdm.PageXMLScan(doc_id='s1', coords=_coords([[0, 0], [50, 0], [50, 50], [0, 50]]), text_regions=[r])
        _OTHER.append(json.loads(json.dumps(_quiet(lambda: sc.json))))
    return copy.deepcopy(_OTHER[0])


def _rebuild(src) -> Dict[str, Any]:
    from pagexml.parser import parse_pagexml_from_json
    try:
        r = _quiet(lambda: parse_pagexml_from_json(src))
    except RecursionError:
        return {'err': 'RecursionError'}
    except Exception as e:  # noqa
        return {'err': err_name(e)}
    if r is None:
        return {'none': True}
    try:
        a = abstract(r)
    except ValueError as e:
        a = {'unabstractable': str(e)}
    try:
        j = _quiet(lambda: r.json)
        return {'cls': type(r).__name__, 'abs': a, 'json': _pv(j), 'njson': _norm(j), '_obj': r}
    except Exception as e:  # noqa  (e.g. a page whose columns lost their coordinates in a malformed JSON)
        return {'cls': type(r).__name__, 'abs': a, 'json_err': err_name(e), '_obj': None}


class C06(Check):
    pid = 'C06'
    props_module = 'PagexmlModel.Props.C06'
    anchors = {
        'pagexml/model/basic_document_model.py': ['StructureDoc.json', 'PhysicalStructureDoc.json', 'StructureDoc.add_type',
                                                  'StructureDoc.__init__', 'PhysicalStructureDoc.__init__',
                                                  'PhysicalStructureDoc.add_parent_id_to_metadata'],
        'pagexml/model/pagexml_document_model.py': [
            'PageXMLDoc.json', 'PageXMLWord.json', 'PageXMLTextLine.json', 'PageXMLTableRegion.json', 'PageXMLTableRow.json',
            'PageXMLTableCell.json', 'PageXMLTextRegion.json', 'PageXMLColumn.json', 'PageXMLPage.json', 'PageXMLScan.json',
            'PageXMLTextRegion.stats', 'PageXMLPage.stats', 'PageXMLScan.stats', 'PageXMLTextRegion.__init__',
            'PageXMLTextLine.__init__', 'PageXMLTableRow.__init__', 'PageXMLTableCell.__init__', 'PageXMLScan.__init__',
            'PageXMLPage.__init__', 'PageXMLTextRegion.set_text_regions_in_reader_order',
            'PageXMLTextRegion.get_text_regions_in_reading_order', 'set_scan_id'],
        'pagexml/parser.py': ['get_json_element', 'json_to_coords', 'json_to_region_metadata', 'json_to_pagexml_word',
                              'json_to_pagexml_line', 'json_to_pagexml_text_region', 'json_to_pagexml_table_cell',
                              'json_to_pagexml_table_row', 'json_to_pagexml_table_region', 'json_to_regions',
                              'json_to_pagexml_column', 'json_to_column_container', 'json_to_pagexml_page',
                              'json_to_pagexml_scan', 'json_to_pagexml_doc', 'parse_pagexml_from_json'],
        'pagexml/model/physical_document_model.py': ['set_parentage'],
    }
    level_note = (
        'proved (Lean, no bound on sizes / nesting / values) for every class (word, line, text region (nested), column, page, '
        'scan, with table regions/rows/cells below them): (1) for every well-formed document d (WF = Doc.ok, decidable) '
        'fromJson(toJson d) = d, for the dictionary entry point and for the string entry point (reading-order indexes as '
        'decimal strings), hence identical JSON view, same class, second trip a fixpoint; (2) C06_encodable / C06_norm / '
        'C06_str_view_stable / C06_text_trip: for every JSON-valued d (JV = Doc.jv, decidable: ids, metadata, confidences, ... '
        'hold no foreign object and no int-keyed dict) the view is encodable and norm(toJson_int d) = toJson_str d, where norm '
        'models json.loads(json.dumps(.)); (3) closure: C06_wf_closed - EVERY document parse_pagexml_from_json returns, for any '
        'JSON value it accepts whose truthiness-guarded entries (orientation, xheight, cornerpoints) are canonical, is WF; '
        'C06_jv_closed - and JV when the value is decoded JSON text; C06_constructed_wf_* - each constructor (word ... scan, with '
        're-parenting, reading-order sorting, row padding, set_scan_id) returns a WF document from WF children; C06_parsed_wf - '
        'the scan the XML parser assembles is WF.  WF and JV are additionally evaluated by the driver on every generated and '
        'every rebuilt document.  Not proved (sampled on every case): that the real json.dumps/json.loads is the model\'s `norm` '
        '(int keys -> str, tuples -> lists; compared with the real encoder), finiteness of float literals (opaque), and that the '
        'metadata the real parser computes from `custom` attributes is what the raw trees of C06_parsed_wf carry (C01/C11).  '
        'Histories (wave 4, oracle only; the model is pure): the source document is read again (JSON view and attributes) '
        'after it was exported and rebuilt, the dictionary handed to parse_pagexml_from_json is compared with its encoding '
        'taken before, another document is rebuilt in between, the same dictionary is rebuilt a second time and the first '
        'rebuilt document is read again afterwards.')
    assumptions = [
        'abstraction: attributes that the library only ever tests for truthiness (orientation, xheight, cornerpoints) are '
        'identified with None when falsy (0.0, 0, ""), reading_order None with {}; main_type/domain are class constants',
        'model scope: text_regions/extra hold PageXMLTextRegion objects, columns PageXMLColumn, pages PageXMLPage (the builder '
        'chooses the class by slot); a page has no direct lines (its JSON view raises); table rows come from cells; metadata '
        'dicts are not shared between documents; doc_type extras are not class tags of other classes',
        'CPython dict semantics (insertion order, overwrite keeps position), int()/str() on ASCII decimal strings, '
        'json.dumps/json.loads fidelity (int keys -> str, tuples -> lists, repr floats) mirrored by hand and sampled',
        'sorted(self.columns) inside PageXMLPage.stats needs coordinates on the columns: generated columns always have them',
    ]
    nontrivial_rule = 'distinct case inputs; non-trivial = the document under test has at least one child document'

    def __init__(self):
        self._abs: Dict[int, Any] = {}

    # ---------------------------------------------------------------- generation
    def cases(self, rng: random.Random, tier: str) -> Iterable[Case]:
        out = corpus()
        n = 200 if tier == 'quick' else 1600
        for i in range(n):
            xml = rng.random() < 0.4
            g = Gen(rng, xml)
            if xml:
                spec = g.scan()
                route = 'xml'
            else:
                x = rng.random()
                spec = (g.scan() if x < 0.45 else g.page() if x < 0.6 else g.column() if x < 0.7
                        else g.region(0, True) if x < 0.85 else g.line() if x < 0.95 else g.word())
                route = 'api'
            out.append(Case('roundtrip', {'spec': spec, 'route': route}, [route, spec['cls']]))
            paths = sub_paths(spec, route)
            if paths and rng.random() < 0.6:
                p = rng.choice(paths)
                out.append(Case('roundtrip', {'spec': spec, 'route': route, 'path': p}, [route, 'sub:' + p[-1][0]]))
            if route == 'api' and spec['cls'] in ('scan', 'page', 'column', 'text_region') and rng.random() < (0.35 if tier == 'quick' else 0.5):
                gi = grown_input(rng, spec)
                if gi is not None:
                    out.append(Case('roundtrip', gi, ['api', 'grown', spec['cls']]))
                    if gi['grow'] and rng.random() < 0.4:
                        ps = sub_paths(gi['spec'], 'api')
                        ps = [p for p in ps if p[-1][0] in ('text_regions', 'columns', 'pages', 'extra')]
                        if ps:
                            out.append(Case('roundtrip', dict(gi, path=rng.choice(ps)), ['api', 'grown', 'sub']))
            if rng.random() < 0.5:
                out.append(Case('malformed', {'spec': spec, 'route': route, 'op': rng.choice(MALFORM_OPS),
                                              'which': rng.randint(0, 30), 'as_string': rng.random() < 0.5},
                                # a JSON view with a key removed or a value damaged is the JSON view of no document:
                                # "rebuilding a document from it [its JSON view]" does not speak about it — mirrored by
                                # the model, a difference is recorded only (probe 2, C06-unsupported-json-type-error-bp)
                                [route, 'malformed', OUTSIDE]))
        return out

    # ---------------------------------------------------------------- implementation
    def impl(self, case: Case) -> Any:
        try:
            doc = _quiet(lambda: build(case.input))
        except Exception as e:  # noqa  (a spec the constructors reject: not a document)
            self._abs[id(case)] = None
            return {'unbuildable': err_name(e)}
        try:
            a0 = abstract(doc)
        except ValueError as e:
            self._abs[id(case)] = None
            return {'out_of_scope': str(e)}
        out: Dict[str, Any] = {'cls': type(doc).__name__, 'abs': a0}
        try:
            j0 = _quiet(lambda: doc.json)
        except Exception as e:  # noqa
            out['json_err'] = err_name(e)
            self._abs[id(case)] = (a0, None, None)
            return out
        out['json'] = _pv(j0)
        try:
            s = json.dumps(j0)
            out['dumps_ok'] = True
        except Exception as e:  # noqa
            out['dumps_ok'] = False
            out['dumps_err'] = err_name(e)
            self._abs[id(case)] = (a0, None, None)
            return out
        out['njson'] = json.loads(s)
        try:
            out['stats_bad'] = _quiet(lambda: stale_stats(doc))
        except Exception as e:  # noqa
            out['stats_bad'] = [f'recount raises {err_name(e)}']
        if case.kind == 'malformed':
            j = json.loads(s) if case.input['as_string'] else copy.deepcopy(j0)
            applicable = malform(j, case.input['op'], case.input['which'])
            out['applicable'] = applicable
            out['mal_json'] = _pv(j)
            r = _rebuild(json.dumps(j) if case.input['as_string'] else j)
            r.pop('_obj', None)
            r.pop('json', None)
            r.pop('njson', None)
            out['rebuilt'] = r
            self._abs[id(case)] = (a0, out['mal_json'], None)
            return out
        # the dictionary entry point gets the JSON view itself (as a user would pass it);
        # the string is taken first, so that both entry points see the same view
        rs = _rebuild(s)
        rd = _rebuild(j0)
        out['str_in'] = _pv(json.loads(s))
        obj_d = None
        for name, r in (('dict', rd), ('str', rs)):
            obj = r.pop('_obj', None)
            if name == 'dict':
                obj_d = obj
            out[name] = r
            if obj is not None and name == 'str':
                try:
                    r2 = _rebuild(json.dumps(obj.json))
                    r2.pop('_obj', None)
                    r2.pop('json', None)
                    out['second'] = r2
                except Exception as e:  # noqa
                    out['second'] = {'err': err_name(e)}
        # histories (the model is pure: every later look has the answer of the first): the SOURCE document read again
        # after it was exported and rebuilt twice; the dictionary handed to the rebuilder looked at again; another
        # document rebuilt in this process; the same dictionary rebuilt a second time; the first rebuilt document
        # read again after all that.  Only what differs is recorded (`hist`: [key, description]).
        hist: List[List[str]] = []
        try:
            d = _first_diff(out['njson'], _norm(_quiet(lambda: doc.json)))
            if d is not None:
                hist.append(['source-changed', f'doc.json read again after the round trips differs at {d}'])
            try:
                a1 = abstract(doc)
            except ValueError:
                a1 = a0
            d = _first_diff(_observed(a0), _observed(a1))
            if d is not None:
                hist.append(['source-changed', f'an attribute of the source document changed by exporting / rebuilding, at {d}'])
            if json.dumps(j0) != s:
                hist.append(['input-dict-changed', 'the dictionary handed to parse_pagexml_from_json was changed by rebuilding'])
            _rebuild(_other_json())
            rd2 = _rebuild(j0)
            obj2 = rd2.pop('_obj', None)
            if ('njson' in rd) != ('njson' in rd2) or rd.get('err') != rd2.get('err') or rd.get('none') != rd2.get('none'):
                hist.append(['not-repeatable', f'rebuilding the same dictionary a second time: '
                                               f'{ {k: rd2.get(k) for k in ("err", "none", "json_err", "cls")} }, the first time '
                                               f'{ {k: rd.get(k) for k in ("err", "none", "json_err", "cls")} }'])
            elif 'njson' in rd:
                d = _first_diff(rd['njson'], rd2['njson'])
                if d is not None:
                    hist.append(['not-repeatable', f'rebuilding the same dictionary a second time (after another document '
                                                   f'was rebuilt) gives a document whose JSON view differs at {d}'])
                if obj_d is not None:
                    d = _first_diff(rd['njson'], _norm(_quiet(lambda: obj_d.json)))
                    if d is not None:
                        hist.append(['rebuilt-changed', f'the JSON view of the rebuilt document, read again later, differs at {d}'])
        except Exception as e:  # noqa — an exception of the real code on a used object is an outcome, not a crash
            hist.append(['raises-later', f'reading / rebuilding again raised {err_name(e)}'])
        if hist:
            out['hist'] = hist
        self._abs[id(case)] = (a0, out['json'], out['str_in'])
        return out

    # ---------------------------------------------------------------- model
    def requests(self, case: Case):
        st = self._abs.get(id(case))
        if not st:
            return []
        a0, jd, js = st
        reqs = [{'p': 'C06', 'op': 'to_json', 'args': {'doc': a0}}]
        if jd is not None:
            reqs.append({'p': 'C06', 'op': 'from_json', 'args': {'json': jd}})
        if js is not None:
            reqs.append({'p': 'C06', 'op': 'from_json', 'args': {'json': js}})
        return reqs

    @staticmethod
    def _cmp_rebuilt(r: Dict[str, Any], m: Dict[str, Any], need_wf: bool = False) -> Optional[str]:
        if 'err' in r:
            return None if m == {'err': r['err']} else f'impl raises {r["err"]}, model {str(m)[:300]}'
        if r.get('none'):
            return None if m == {'ok': None} else f'impl returns None, model {str(m)[:300]}'
        if 'unabstractable' in r['abs']:
            # outside the model's scope (a page given direct lines: the model answers AttributeError, which is what
            # the page's JSON view raises; the builder itself accepts them)
            return None if (m == {'err': 'AttributeError'} or m.get('ok')) else f'impl builds {r["cls"]}, model {str(m)[:300]}'
        if 'ok' not in m or m['ok'] is None:
            return f'impl builds {r["cls"]}, model {str(m)[:300]}'
        d = _first_diff(_canon_abs(r['abs']), _canon_abs(_null_falsy_guarded(m['ok'])))
        if d is not None:
            return f'rebuilt document differs at {d}'
        if need_wf and not m.get('wf'):
            return 'the rebuilt document is not well-formed (Doc.ok): a second trip is not covered by the theorem'
        # C06_wf_closed / C06_jv_closed, re-evaluated by the driver (would fail only if the driver's model and the
        # proved model diverged)
        if m.get('in_gc') and not m.get('wf'):
            return 'driver: canonical JSON value rebuilt to a document that is not well-formed (contradicts C06_wf_closed)'
        if m.get('in_stable') and not m.get('jv'):
            return 'driver: JSON-stable value rebuilt to a document that is not JSON-valued (contradicts C06_jv_closed)'
        return None

    def compare(self, case, out, model_out):
        if not model_out:
            return None
        if 'json' not in out:
            return None
        tj = model_out[0]
        if 'ok' not in tj:
            return f'model to_json failed: {tj}'
        d = _first_diff(_canon_wire(out['json']), _canon_wire(tj['ok']['dict']))
        if d is not None:
            return f'JSON view (dictionary form) differs at {d}'
        if out.get('dumps_ok'):
            want = _canon_wire(out.get('str_in') or _pv(out['njson']))
            for form in ('str', 'norm'):
                d = _first_diff(want, _canon_wire(tj['ok'][form]))
                if d is not None:
                    return f'JSON view after dumps/loads ({form}) differs at {d}'
        if tj['ok']['encodable'] != bool(out.get('dumps_ok')):
            return f'encodable: model {tj["ok"]["encodable"]}, json.dumps ok {out.get("dumps_ok")}'
        # JV (every carried value survives JSON text): C06_encodable / C06_norm are theorems about JV
        # documents.  A parsed document must be JV; a JV document must encode; a non-JV one is user data.
        jv = bool(tj['ok'].get('jv'))
        case.tags.append('JV' if jv else 'not-JV')
        if jv and not out.get('dumps_ok'):
            return 'a JSON-valued document (Doc.jv) is rejected by json.dumps: C06_encodable does not describe the encoder'
        if not jv and case.input.get('route') == 'xml':
            return 'a parsed document is not JSON-valued (Doc.jv): C06_encodable / C06_norm do not cover it'
        if not tj['ok'].get('gc') and case.input.get('route') == 'xml':
            return 'the JSON view of a parsed document is outside guardsCanon: C06_wf_closed does not cover its rebuild'
        if case.kind == 'malformed':
            return self._cmp_rebuilt(out['rebuilt'], model_out[1]) if len(model_out) > 1 else None
        # is the document covered by the round-trip theorem?  Parsed documents always must be.
        wf = bool(tj['ok']['wf'])
        case.tags.append('WF' if wf else 'not-WF')
        if not wf and case.input.get('route') == 'xml':
            return 'a parsed document is not well-formed (Doc.ok): the round-trip theorem does not cover it'
        if len(model_out) > 1:
            d = self._cmp_rebuilt(out['dict'], model_out[1], need_wf=True)
            if d:
                return 'dict entry: ' + d
        if len(model_out) > 2:
            d = self._cmp_rebuilt(out['str'], model_out[2], need_wf=True)
            if d:
                return 'string entry: ' + d
        return None

    # ---------------------------------------------------------------- oracle
    def oracle(self, case: Case, out: Any) -> List[Finding]:
        fs: List[Finding] = []
        if case.kind != 'roundtrip' or 'unbuildable' in out or 'out_of_scope' in out:
            return fs
        forced = [t[4:] for t in case.tags if t.startswith('key:')]

        def bad(key, what):
            fs.append(Finding(forced[0] if forced else f'C06:{key}', what, case, _strip(out)))
        if 'json_err' in out:
            bad('json-raises:' + out['json_err'], f'the JSON view of a {out["cls"]} raises {out["json_err"]}')
            return fs
        if not out.get('dumps_ok'):
            # only values the library itself put there count: user metadata that is not encodable is the user's
            bad('not-encodable', f'json.dumps(doc.json) raises {out.get("dumps_err")}')
            return fs
        for b in out.get('stats_bad') or []:
            bad('stale-stats', f'the statistics in doc.json are not a count of the document: {b}')
        want = out['njson']
        for name in ('dict', 'str'):
            r = out[name]
            if 'err' in r:
                bad(f'rebuild-raises:{r["err"]}', f'parse_pagexml_from_json ({name} form) raises {r["err"]}')
                continue
            if r.get('none'):
                bad('rebuild-none', f'parse_pagexml_from_json ({name} form) returns None')
                continue
            if r['cls'] != out['cls']:
                bad('class', f'{name} form: rebuilt a {r["cls"]} from the JSON view of a {out["cls"]}')
            if 'json_err' in r:
                bad('rebuilt-json-raises:' + r['json_err'], f'{name} form: the JSON view of the rebuilt document raises {r["json_err"]}')
                continue
            d = _first_diff(want, r['njson'])
            if d is not None:
                bad('diff:' + _diff_key(d), f'{name} form: rebuilt.json differs from doc.json at {d}')
            if 'unabstractable' not in r['abs']:
                d = _first_diff(_observed(out['abs']), _observed(r['abs']))
                if d is not None:
                    bad('attr:' + _diff_key(d), f'{name} form: attribute of the rebuilt document differs at {d}')
        for key, what in out.get('hist') or []:
            bad(key, what)
        sec = out.get('second')
        if sec is not None:
            if 'err' in sec or sec.get('none') or 'json_err' in sec:
                bad('second-trip', f'second round trip fails: {sec}')
            else:
                d = _first_diff(want, sec['njson'])
                if d is not None:
                    bad('second-trip', f'second round trip changes the JSON view at {d}')
        return fs

    def nontrivial(self, case: Case) -> bool:
        s = case.input['spec']
        return any(s.get(k) for k in ('regions', 'lines', 'words', 'tables', 'pages', 'columns', 'extra'))

    def shrink_candidates(self, case: Case):
        inp = case.input
        spec = inp['spec']
        if inp.get('grow'):
            steps = inp['grow']
            for i in range(len(steps)):
                if len(steps) > 1:
                    yield Case(case.kind, dict(inp, grow=steps[:i] + steps[i + 1:]), case.tags)
            if inp.get('read_after'):
                yield Case(case.kind, dict(inp, read_after=False), case.tags)
            return
        if inp.get('path'):
            return

        def variants(s):
            for key in ('regions', 'lines', 'words', 'tables', 'pages', 'columns', 'extra', 'cells'):
                kids = s.get(key) or []
                for i in range(len(kids)):
                    yield dict(s, **{key: kids[:i] + kids[i + 1:]})
                for i, k in enumerate(kids):
                    for v in variants(k):
                        yield dict(s, **{key: kids[:i] + [v] + kids[i + 1:]})
            for key in ('meta', 'types', 'custom', 'ro', 'roa', 'orientation', 'xheight', 'baseline', 'conf', 'xml_metadata',
                        'header', 'cornerpoints', 'row_span', 'cell_span'):
                if s.get(key) is not None:
                    yield dict(s, **{key: None})
        for v in variants(spec):
            yield Case(case.kind, dict(inp, spec=v), case.tags)


def _strip(out):
    """the implementation outcome without the bulky wire forms (for replay files)"""
    if not isinstance(out, dict):
        return out
    keep = {}
    for k, v in out.items():
        if k in ('json', 'str_in', 'mal_json'):
            continue
        if isinstance(v, dict):
            v = {kk: vv for kk, vv in v.items() if kk not in ('json',)}
        keep[k] = v
    return keep


CHECK = C06()
