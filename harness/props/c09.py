"""C09 — Derived coordinates are the children's convex hull; area follows the points."""
from __future__ import annotations

import itertools
import random
from typing import Any, Dict, Iterable, List, Optional

from harness.core import OUTSIDE, Case, Check, Finding, call, canon, short
from harness.core import jdump as jd

Pts = List[List[int]]


# ---------------------------------------------------------------------------------------
# independent exact geometry for the oracle (integers only; no model, no scipy)
# ---------------------------------------------------------------------------------------

def cross(o, a, b) -> int:
    return (a[0] - o[0]) * (b[1] - o[1]) - (a[1] - o[1]) * (b[0] - o[0])


def mono_hull(points) -> List[tuple]:
    """strict convex hull (no collinear boundary points), counter-clockwise, Andrew's chain"""
    ps = sorted(set((p[0], p[1]) for p in points))
    if len(ps) <= 2:
        return ps
    lower: List[tuple] = []
    for p in ps:
        while len(lower) >= 2 and cross(lower[-2], lower[-1], p) <= 0:
            lower.pop()
        lower.append(p)
    upper: List[tuple] = []
    for p in reversed(ps):
        while len(upper) >= 2 and cross(upper[-2], upper[-1], p) <= 0:
            upper.pop()
        upper.append(p)
    return lower[:-1] + upper[:-1]


def shoelace2(vs) -> int:
    n = len(vs)
    return abs(sum(vs[i][0] * vs[(i + 1) % n][1] - vs[(i + 1) % n][0] * vs[i][1] for i in range(n)))


def degenerate(points) -> bool:
    """all points on one straight line (or equal)"""
    return len(mono_hull(points)) <= 2


def outside_collinear(points) -> bool:
    """three or more DISTINCT points that all lie on one straight line.  QUANTIFIER: "all non-empty collections of
    coordinate objects whose points do not all lie on one straight line (plus the 1- and 2-point cases), with
    duplicates and interior points": a derivation from such a collection is outside the property (one or two distinct
    points, however often repeated, are the 1- and 2-point cases "with duplicates": inside).  Neither the oracle
    (`_judge_hull`) nor the correspondence (`compare`) holds the code to anything on such a derivation: whether it
    answers with the two ends of the segment, with every point along it, or not at all is stated nowhere."""
    return points is not None and len(set(tuple(p) for p in points)) > 2 and degenerate(points)


def is_cyclic_variant(a: List[tuple], b: List[tuple]) -> bool:
    """a is a rotation of b or of reversed b"""
    if len(a) != len(b):
        return False
    if not a:
        return True
    for cand in (b, b[::-1]):
        if a[0] in cand:
            i = cand.index(a[0])
            if cand[i:] + cand[:i] == a:
                return True
    return False


# ---------------------------------------------------------------------------------------
# the level at which model and implementation are compared (WAVE 3; DESIGN §10 weak spot (2))
#
# The statement fixes of a derived outline: "its vertices are input points listed in boundary order, its bounding
# box is the union of the inputs' boxes, and no input point lies outside it" — neither a start vertex nor a
# direction.  A derived vertex list is therefore compared UP TO ROTATION AND REFLECTION; the one- and two-vertex
# results (the "1- and 2-point cases" of the quantifier and the segment of points on one line) AS SETS; the box
# exactly.  Nowhere does the statement name an exception class: outcomes are compared rejected-vs-accepted.
# ---------------------------------------------------------------------------------------

def same_outline(a, b) -> bool:
    """two vertex lists describe the same outline: equal up to rotation / reflection (>= 3 vertices each),
    equal as sets of points otherwise"""
    if a is None or b is None:
        return a is None and b is None
    ta, tb = [tuple(p) for p in a], [tuple(p) for p in b]
    if len(ta) <= 2 or len(tb) <= 2:
        return set(ta) == set(tb)
    return is_cyclic_variant(ta, tb)


def norm_err(r: Any) -> Any:
    """{'err': <class>} -> {'err': 'rejected'} (the statement names no exception class)"""
    if isinstance(r, dict) and 'err' in r:
        return {'err': 'rejected'}
    return r


def same_coords_outcome(a: Any, b: Any) -> bool:
    """two outcomes {'ok': {'points','x','y','w','h'} | None} / {'err': ..}: both rejected, or the same box
    (exactly) and the same outline (up to rotation / reflection)"""
    a, b = norm_err(a), norm_err(b)
    if 'err' in a or 'err' in b:
        return a == b
    ca, cb = a['ok'], b['ok']
    if ca is None or cb is None:
        return ca is None and cb is None
    return all(ca[k] == cb[k] for k in ('x', 'y', 'w', 'h')) and same_outline(ca['points'], cb['points'])


def same_points_outcome(a: Any, b: Any) -> bool:
    """two outcomes {'ok': points | None} / {'err': ..}"""
    a, b = norm_err(a), norm_err(b)
    if 'err' in a or 'err' in b:
        return a == b
    return same_outline(a['ok'], b['ok'])


def hull_judgement(vs, pts) -> Optional[str]:
    """the statement's hull clauses for a vertex list `vs` derived from the input points `pts`
    (>= 3 points, not all on one line): None if they hold, else which clause fails"""
    vs = [tuple(v) for v in vs]
    pset = set(tuple(p) for p in pts)
    if any(v not in pset for v in vs):
        return 'vertex-not-an-input-point'
    if len(set(vs)) != len(vs):
        return 'vertex-repeated'
    xs, ys = [p[0] for p in pts], [p[1] for p in pts]
    vx, vy = [v[0] for v in vs], [v[1] for v in vs]
    if not vs or (min(vx), min(vy), max(vx), max(vy)) != (min(xs), min(ys), max(xs), max(ys)):
        return 'bounding-box'
    # boundary order: dropping vertices that lie strictly between their neighbours on a straight
    # boundary stretch must leave the strict hull, in cyclic order (either direction)
    red = list(vs)
    changed = True
    while changed and len(red) > 3:
        changed = False
        for i in range(len(red)):
            a, v, b = red[i - 1], red[i], red[(i + 1) % len(red)]
            if cross(a, v, b) == 0 and (a[0] - v[0]) * (b[0] - v[0]) + (a[1] - v[1]) * (b[1] - v[1]) < 0:
                del red[i]
                changed = True
                break
    if not is_cyclic_variant(red, mono_hull(pts)):
        return 'boundary-order'
    n = len(vs)
    sgn = sum(vs[i][0] * vs[(i + 1) % n][1] - vs[(i + 1) % n][0] * vs[i][1] for i in range(n))
    s = 1 if sgn > 0 else -1
    for p in pset:
        for i in range(n):
            if s * cross(vs[i], vs[(i + 1) % n], p) < 0:
                return 'input-point-outside'
    return None


# ---------------------------------------------------------------------------------------
# adapters to the real code
# ---------------------------------------------------------------------------------------

def _real():
    import pagexml.model.coords as co
    import pagexml.model.pagexml_document_model as pdm
    import pagexml.model.basic_document_model as bdm
    return co, pdm, bdm


def tup(pts) -> List[tuple]:
    return [(p[0], p[1]) for p in pts]


def two(a) -> Any:
    """2 * area as an exact integer (floats never compared raw)"""
    t = a * 2
    if isinstance(t, int):
        return t
    if t == int(t) and abs(t) < 2 ** 53:
        return int(t)
    return {'float': repr(t)}


def dump_coords(c) -> Any:
    if c is None:
        return None
    return canon({'points': [list(p) for p in c.points], 'x': c.x, 'y': c.y, 'w': c.w, 'h': c.h})


def dump_edges(e) -> Any:
    """dict of dicts in insertion order -> [[key, [neighbours...]], ...]"""
    return [[list(k), [list(n) for n in e[k]]] for k in e]


def hull_table(point_lists: Iterable[Pts]) -> List[Dict[str, Any]]:
    """the library's answers the model may ask for: real `points_to_hull_edges` on each list"""
    co, _, _ = _real()
    rows, seen = [], set()
    for pts in point_lists:
        key = tuple(map(tuple, pts))
        if len(pts) <= 2 or key in seen:
            continue
        seen.add(key)
        r = call(lambda: dump_edges(co.points_to_hull_edges(tup(pts))))
        rows.append({'points': [list(p) for p in pts], 'edges': r})
    return rows


def simplices(pts: Pts) -> Optional[List[List[List[int]]]]:
    """scipy's answer itself (the model's Qhull parameter): hull simplices as pairs of points"""
    if len(pts) <= 2 or degenerate(pts):
        return None
    import numpy as np
    from scipy.spatial import ConvexHull
    arr = np.array(tup(pts))
    try:
        hull = ConvexHull(arr)
    except Exception:  # noqa
        return None
    return [[[int(arr[i][0]), int(arr[i][1])], [int(arr[j][0]), int(arr[j][1])]] for i, j in hull.simplices]


def canon_edges(e) -> Any:
    return sorted([k, sorted(ns)] for k, ns in e)


def real_hull(pts: Pts) -> Optional[Pts]:
    co, _, _ = _real()
    if len(pts) <= 2:
        return None
    r = call(lambda: co.edges_to_hull_points(co.points_to_hull_edges(tup(pts))))
    return [list(p) for p in r['ok']] if 'ok' in r else None


def model_hull(pts: Pts) -> Optional[Pts]:
    """the outline the MODEL will list for these points: the library's edge dict walked from the smallest node,
    first unvisited neighbour first (Model/C09.lean `edgesToHullPoints`).  Only used to put the library's answer
    for THAT vertex list into the table the model may consult (the area of a derived outline is the hull of the
    outline's own points): when the implementation starts its outline elsewhere, the model's second hull request
    is about its own listing, not the implementation's.  A wrong guess here can only make the model miss a table
    row (KeyError -> reported disagreement), never hide one."""
    co, _, _ = _real()
    if len(pts) <= 2:
        return None
    r = call(lambda: co.points_to_hull_edges(tup(pts)))
    if 'ok' not in r or not r['ok']:
        return None
    e = r['ok']
    nodes = list(e)
    cur = min(nodes)
    seen = [cur]
    for _ in range(len(nodes)):
        if len(seen) >= len(nodes):
            break
        nxt = next((q for q in e[cur] if q not in seen), None)
        if nxt is None:
            continue
        seen.append(nxt)
        cur = nxt
    return [list(p) for p in seen]


def hulls(pts: Pts) -> List[Pts]:
    """the outline as the implementation lists it and as the model lists it (equal on the pinned tree)"""
    return [h for h in (real_hull(pts), model_hull(pts)) if h]


def mk_line(pdm, co, pts, **kw):
    return pdm.PageXMLTextLine(coords=co.Coords(tup(pts)) if pts is not None else None, **kw)


# ---------------------------------------------------------------------------------------
# WAVE 4 — used objects.  "its vertices are INPUT POINTS", "the union of the INPUTS' boxes": the inputs of a derivation
# are the coordinate objects as they were handed in, and they are the same objects the caller goes on using (the
# children of the region, the cells of the row, the lines that were merged).  Every adapter therefore takes a deep
# snapshot of every input Coords before the library call and reads it again afterwards: points, point_string and box
# must be what they were (C03: a coordinates object "keeps the points in input order", its string "parses back to the
# same points and box").  A derivation that is right but leaves an input changed is reported as C09:inputs-mutated.
# ---------------------------------------------------------------------------------------

def snap(c) -> Any:
    """deep snapshot, by value, of everything a Coords object reports"""
    if c is None:
        return None
    return canon({'points': [list(p) for p in c.points], 'point_string': c.point_string, 'box': dict(c.box),
                  'xywh': [c.x, c.y, c.w, c.h], 'ltrb': [c.left, c.top, c.right, c.bottom]})


def snaps(docs) -> List[Any]:
    return [snap(getattr(d, 'coords', None)) if d is not None else None for d in docs]


def mutated(before: List[Any], docs) -> List[Dict[str, Any]]:
    """the inputs that no longer read as they did: [{'input': index, 'before': …, 'after': …}]"""
    out = []
    for i, (b, d) in enumerate(zip(before, docs)):
        r = call(lambda: snap(getattr(d, 'coords', None)) if d is not None else None)
        a = r['ok'] if 'ok' in r else r
        if a != b:
            out.append({'input': i, 'before': b, 'after': a})
    return out


def mk_coords(co, pts, form: str = 'tuples'):
    """a coordinates object from the same points in each of its input forms"""
    if pts is None:
        return None
    if form == 'string':
        return co.Coords(' '.join(f'{p[0]},{p[1]}' for p in pts))
    if form == 'lists':
        return co.Coords([[p[0], p[1]] for p in pts])
    return co.Coords(tup(pts))


FORMS = ('tuples', 'tuples', 'string', 'lists')


REGION_SLOTS = 2   # text_regions, lines
PAGE_SLOTS = 4     # extra, columns, text_regions, lines


def mk_child(pdm, co, elem: str, slot: int, pts):
    coords = co.Coords(tup(pts)) if pts is not None else None
    if elem == 'region':
        if slot == 0:
            return pdm.PageXMLTextRegion(coords=coords), {}
        if slot == 1:
            return pdm.PageXMLTextLine(coords=coords), {}
    else:
        if slot == 0:
            return pdm.PageXMLTextRegion(coords=coords), {'as_extra': True}
        if slot == 1:
            return pdm.PageXMLColumn(coords=coords), {}
        if slot == 2:
            return pdm.PageXMLTextRegion(coords=coords), {}
        if slot == 3:
            return pdm.PageXMLTextLine(coords=coords), {}
    return pdm.PageXMLWord(coords=coords), {}      # not a valid child: TypeError


def ordered_points(nslots: int, kids) -> Optional[Pts]:
    """flattened points of the children in the order the element concatenates its lists"""
    out: Pts = []
    for s in range(nslots):
        for slot, pts in kids:
            if slot == s:
                if pts is None:
                    return None
                out.extend(pts)
    if any(pts is None for slot, pts in kids if slot < nslots):
        return None
    return out


def flat(docs) -> Pts:
    return [p for d in docs if d is not None for p in d]


def regroup(points: Pts, sizes: List[int]) -> List[Pts]:
    out, i = [], 0
    for s in sizes:
        out.append(points[i:i + s])
        i += s
    return [g for g in out if g]


# ---------------------------------------------------------------------------------------

class C09(Check):
    pid = 'C09'
    props_module = 'PagexmlModel.Props.C09'
    anchors = {
        'pagexml/model/coords.py': ['parse_derived_coords', 'coords_list_to_hull_coords', 'collinear_extremes',
                                    'points_to_hull_edges', 'edges_to_hull_points'],
        'pagexml/model/basic_document_model.py': ['poly_area', 'PhysicalStructureDoc.area',
                                                  'PhysicalStructureDoc.coords', 'PhysicalStructureDoc.__init__'],
        'pagexml/model/pagexml_document_model.py': ['PageXMLTextRegion.add_child', 'PageXMLPage.add_child'],
        'pagexml/parser.py': ['parse_textregion', 'make_rows_from_cells'],
        'pagexml/helper/pagexml_helper.py': ['merge_lines', 'merge_textregions'],
        'pagexml/column_parser.py': ['make_derived_column', 'make_column_range_columns'],
    }
    level_note = (
        'proof (partial). PROVED for all inputs (unbounded sizes and magnitudes): (a) the walk over a single-cycle '
        'edge dict terminates within #nodes iterations and lists the cycle from the smallest node in the direction '
        'of its first neighbour, whatever the insertion order (and never terminates when an iteration finds no new '
        'neighbour); (b) soundness of the certificate checker HullCert (vertices are input points, no repetition, '
        'strictly convex boundary order, no input point outside, bounding box = box of the inputs, supporting-line '
        'form, no three vertices collinear) and UNIQUENESS of a certified vertex list (same vertices, same edges '
        'up to a global reversal), hence reorder-invariance and hull-of-hull invariance of the area; (c) <= 2 '
        'points are returned as given with area 0, empty input / missing coords are rejected, and the collinear '
        'branch of fix fc690f6 returns the segment between the extremes (input points, same box, all inputs on '
        'the line, area 0) exactly when the points satisfy one line equation; (d) area2 = |shoelace| is invariant '
        'under translation, rotation and reversal of the vertex list; (e) after any history of coords assignments '
        '/ add_child (successful or failing) / reads the area read is computed from the CURRENT coordinates; '
        'end-to-end theorem C09_derived_is_hull conditional on the two library answers passing the checker. '
        'SAMPLED, not proved: that the answers of scipy.spatial.ConvexHull pass HullCert / cycleDict (evaluated by '
        'the Lean driver on every sampled call, both for the hull of the points and for the hull of the hull '
        'vertices; exhaustively for all subsets of a 4x4 lattice in the thorough tier), and that shapely '
        'Polygon.area = |shoelace|/2. CORRESPONDENCE LEVEL: a derived vertex list is compared with the model\'s up '
        'to rotation and reflection (the statement fixes boundary order, not the start vertex or the direction), '
        'one-/two-vertex results (<= 2 points, points on one line) as sets, boxes and areas exactly, assigned '
        'coordinates point by point, outcomes as rejected-vs-accepted (no exception class is part of the '
        'statement); empty collections, documents / children without coordinates, non-child arguments of '
        'add_child and regions with own Coords are outside the quantifier (tagged, differences only recorded). '
        'Wave 5: a DERIVATION from three or more distinct points on one straight line is outside the quantifier too '
        '("whose points do not all lie on one straight line (plus the 1- and 2-point cases)"): its outcome, and the '
        'coordinates / area an element carries until its next assignment or derivation, are neither judged nor '
        'compared (per derivation: the other derivations and reads of the same case are); the area of collinear '
        'POINTS (poly_area) is still compared and judged (0). '
        'USED OBJECTS (wave 4): every derivation is made on objects that are used again — inputs built in each input '
        'form (tuples, lists, points string), derived from twice and in reversed order, callers called twice on the '
        'same objects, attached children also added to a second container; the model being a pure function of the '
        'points, its one answer is compared with each of these; every input Coords is snapshotted before and re-read '
        'after (points, point_string, box): C09:inputs-mutated; table rows are built through make_rows_from_cells, '
        'parse_tableregion and parse_pagexml_file with rowSpan / cellSpan / header present or absent per cell.')
    assumptions = [
        'scipy.spatial.ConvexHull is a deterministic function of the point array; its simplices form the boundary '
        'cycle of the strict convex hull (checked per sampled call by HullCert / cycleDict in the Lean driver)',
        'shapely Polygon(vs).area == |shoelace(vs)| / 2 exactly for integer coordinates below 2^26',
        'Python dict / defaultdict insertion order, tuple comparison and list membership mirrored by hand',
        'children are not mutated after they were attached (the model records a child\'s coords at add time; the '
        'harness re-reads every child after every operation and reports a change as C09:inputs-mutated)',
    ]
    nontrivial_rule = ('distinct inputs; non-trivial = at least three points not all on one line (derive / area / '
                       'caller), a history with at least one add_child and one area read, or a cycle dict')

    # ------------------------------------------------------------------------ constants regenerated from the source
    def translate(self):
        """the two size limits below which the hull / area code does not call Qhull: `len(points) <= N` in
        coords_list_to_hull_coords and in poly_area, read from the working tree with `ast` on every run"""
        from harness import translate as tr
        co = 'pagexml/model/coords.py'
        bd = 'pagexml/model/basic_document_model.py'
        hull_n = tr.as_int(tr.literal_in(co, 'coords_list_to_hull_coords', 'len(points) <= _N0'))
        area_n = tr.as_int(tr.literal_in(bd, 'poly_area', 'len(points) <= _N0'))
        if hull_n < 0 or area_n < 0:
            raise tr.TranslateError(f'negative size limit: {hull_n}, {area_n}')
        body = tr.HEADER.format(src=f'{co}: coords_list_to_hull_coords `len(points) <= N`; {bd}: poly_area `len(points) <= N`') + (
            'namespace Pagexml.Generated.C09\n\n'
            '/-- coords_list_to_hull_coords: up to this many points are returned as given (no hull computed) -/\n'
            f'def hullAsGivenMax : Nat := {hull_n}\n\n'
            '/-- poly_area: up to this many points have area 0 (no hull computed) -/\n'
            f'def areaZeroMax : Nat := {area_n}\n\n'
            'end Pagexml.Generated.C09\n')
        return {'PagexmlModel/Generated/C09.lean': body}

    # ------------------------------------------------------------------------ generation
    def _rand_points(self, rng: random.Random, n: int, style: str, mag: int) -> Pts:
        if style == 'lattice':
            k = rng.choice([2, 3, 4, 5])
            return [[rng.randrange(k), rng.randrange(k)] for _ in range(n)]
        if style == 'box':       # many points on the boundary of a rectangle + interior points
            w, h = rng.randint(1, mag), rng.randint(1, mag)
            x0, y0 = rng.randint(-mag, mag), rng.randint(-mag, mag)
            out = []
            for _ in range(n):
                r = rng.random()
                if r < 0.6:
                    t = rng.randint(0, w)
                    u = rng.randint(0, h)
                    out.append(rng.choice([[x0 + t, y0], [x0 + t, y0 + h], [x0, y0 + u], [x0 + w, y0 + u]]))
                else:
                    out.append([x0 + rng.randint(0, w), y0 + rng.randint(0, h)])
            return out
        if style == 'line':      # near-collinear / collinear
            dx, dy = rng.randint(0, max(1, mag // 10)), rng.randint(-mag // 10, mag // 10)
            x0, y0 = rng.randint(0, mag), rng.randint(0, mag)
            j = rng.choice([0, 1])
            out = []
            for _ in range(n):
                k = rng.randint(0, 8)
                out.append([x0 + k * dx + j * rng.choice([0, 0, 1, -1]), y0 + k * dy + j * rng.choice([0, 0, 1, -1])])
            return out
        pts = [[rng.randint(-mag, mag), rng.randint(-mag, mag)] for _ in range(n)]
        if style == 'dups' and n > 1:
            for _ in range(rng.randint(1, n)):
                pts[rng.randrange(n)] = list(pts[rng.randrange(n)])
        return pts

    def _split(self, rng: random.Random, pts: Pts) -> List[Pts]:
        if not pts:
            return []
        k = rng.randint(1, min(4, len(pts)))
        cuts = sorted(rng.sample(range(1, len(pts)), k - 1)) if k > 1 else []
        out, prev = [], 0
        for c in cuts + [len(pts)]:
            out.append(pts[prev:c])
            prev = c
        return out

    def _derive_case(self, rng, pts: Pts, tags, docs=None) -> Case:
        docs = docs if docs is not None else self._split(rng, pts)
        mag = max([abs(v) for p in pts for v in p] + [1])
        return Case('derive', {'docs': docs, 'shift': [rng.randint(-3 * mag, 3 * mag), rng.randint(-3 * mag, 3 * mag)],
                               'shuffle_seed': rng.randrange(10 ** 6)}, tags)

    def _history_case(self, rng: random.Random, tags, share: bool = False) -> Case:
        elem = rng.choice(['region', 'region', 'page'])
        nslots = REGION_SLOTS if elem == 'region' else PAGE_SLOTS
        mag = rng.choice([4, 10, 100, 10 ** 6])
        style = rng.choice(['lattice', 'box', 'rand', 'dups'])

        def pts(nmin=1):
            return self._rand_points(rng, rng.randint(nmin, 5), style, mag)
        init = pts() if rng.random() < 0.6 else None
        kids = [[rng.randrange(nslots), pts()] for _ in range(rng.choice([0, 0, 1, 2]))]
        ops: List[Any] = []
        for _ in range(rng.randint(1, 10)):
            if share and rng.random() < 0.15:
                ops.append(['share', rng.randrange(8)])     # an attached child is also added to a second container
                continue
            r = rng.random()
            if r < 0.40:
                slot = rng.randrange(nslots)
                c = pts()
                if rng.random() < 0.04:
                    c = None                      # child without coords: AttributeError
                if rng.random() < 0.03:
                    slot = nslots                 # not a valid child: TypeError
                ops.append(['add', slot, c])
            elif r < 0.75:
                ops.append(['area'])
            elif r < 0.90:
                ops.append(['coords'])
            else:
                ops.append(['set', pts() if rng.random() < 0.8 else None])
        return Case('history', {'elem': elem, 'init': init, 'kids': kids, 'ops': ops},
                    list(tags) + self._history_outside(nslots, ops))

    @staticmethod
    def _history_outside(nslots: int, ops) -> List[str]:
        """The quantifier is "all sequences of add-child calls" over "collections of coordinate objects": a history
        that tries to attach a child WITHOUT coordinates, or something that is no child of the element at all, lies
        outside it.  The model still mirrors what the code does then (the call fails, the child stays attached /
        nothing is attached), but a difference there is an observation, not a broken obligation."""
        bad = any(op[0] == 'add' and (op[2] is None or op[1] >= nslots) for op in ops)
        return [OUTSIDE, 'invalid-add'] if bad else []

    def _walk_case(self, rng: random.Random, tags) -> Case:
        n = rng.randint(3, 12)
        nodes = set()
        while len(nodes) < n:
            nodes.add((rng.randint(-6, 6), rng.randint(-6, 6)))
        cyc = list(nodes)
        rng.shuffle(cyc)
        edges = []
        order = list(range(n))
        rng.shuffle(order)
        for i in order:
            nb = [cyc[i - 1], cyc[(i + 1) % n]]
            if rng.random() < 0.5:
                nb.reverse()
            edges.append([list(cyc[i]), [list(q) for q in nb]])
        return Case('walk', {'edges': edges}, tags)

    def _region_case(self, rng: random.Random, tags) -> Case:
        """parse_textregion on a region element without Coords that holds lines and / or nested regions"""
        mag = rng.choice([5, 50, 5000])
        style = rng.choice(['lattice', 'box', 'rand', 'dups'])

        def grp():
            # a child without coordinates (None) is left out of the derivation (fix 1db1ff8)
            return [None if rng.random() < 0.12 else self._rand_points(rng, rng.randint(1, 5), style, mag)
                    for _ in range(rng.randint(1, 3))]
        r = rng.random()
        lines = grp() if r < 0.85 else []
        regions = grp() if r > 0.25 else []
        own = self._rand_points(rng, rng.randint(1, 4), style, mag) if rng.random() < 0.15 else None
        # the statement is about "regions WITHOUT own Coords": a region that has its own keeps them (C01's subject);
        # mirrored by the model, outside this property's quantifier
        return Case('region', {'lines': lines, 'regions': regions, 'lines_first': rng.random() < 0.5, 'own': own},
                    list(tags) + ([OUTSIDE, 'own-coords'] if own is not None else []))

    def _caller_case(self, rng: random.Random, tags) -> Case:
        which = rng.choice(['merge_lines', 'make_derived_column', 'make_rows_from_cells', 'merge_textregions',
                            'parse_textregion'])
        mag = rng.choice([5, 50, 5000])
        style = rng.choice(['lattice', 'box', 'rand', 'dups'])
        groups = [self._rand_points(rng, rng.randint(1, 5), style, mag) for _ in range(rng.randint(1, 5))]
        inp: Dict[str, Any] = {'which': which, 'groups': groups}
        if which == 'make_rows_from_cells':
            inp['rows'] = [rng.randrange(3) for _ in groups]
        if which == 'merge_textregions':
            inp['region_of'] = [rng.randrange(2) for _ in groups]
        return Case('caller', inp, tags)

    def _table_case(self, rng: random.Random, tags) -> Case:
        """table rows with the optional cell attributes crossed with the geometry: rowSpan / cellSpan / header present
        or absent per cell, spanning cells that reach beyond the other cells of their row, missing cells, row and
        column numbers that are not contiguous, the cells listed in any order; through each of the three entries"""
        entry = rng.choice(['cells', 'dict', 'xml'])
        cells: List[Dict[str, Any]] = []
        if rng.random() < 0.6:
            # a grid: cell (r, c) is a w x h rectangle; a cell spanning k rows / columns is k times as high / wide and
            # the places it covers hold no cell of their own
            nr, nc = rng.randint(1, 4), rng.randint(1, 5)
            w, h = rng.randint(1, 60), rng.randint(1, 30)
            x0, y0 = rng.randint(-50, 500), rng.randint(-50, 500)
            step, off = rng.choice([1, 1, 2, 5]), rng.choice([0, 0, 1, 7])
            covered = set()
            for r in range(nr):
                for c in range(nc):
                    if (r, c) in covered or rng.random() < 0.12:
                        continue
                    rs = rng.choice([None, None, 1, 1, 2, 2, 3])
                    cs = rng.choice([None, None, None, 1, 2])
                    kr, kc = min(rs or 1, nr - r), min(cs or 1, nc - c)
                    for i in range(kr):
                        for j in range(kc):
                            covered.add((r + i, c + j))
                    x, y = x0 + c * w, y0 + r * h
                    pts = [[x, y], [x + kc * w, y], [x + kc * w, y + kr * h], [x, y + kr * h]]
                    if rng.random() < 0.25:
                        pts.insert(rng.randrange(4), [x + rng.randint(0, kc * w), y + rng.randint(0, kr * h)])
                    if rng.random() < 0.15:
                        rng.shuffle(pts)
                    cells.append({'pts': pts, 'row': r * step + off, 'col': c * step + off, 'row_span': rs,
                                  'cell_span': cs, 'header': rng.choice([None, None, 'true', 'false'])})
        if not cells:
            mag = rng.choice([5, 50, 5000])
            style = rng.choice(['lattice', 'box', 'rand', 'dups'])
            for i in range(rng.randint(1, 7)):
                cells.append({'pts': self._rand_points(rng, rng.randint(1, 5), style, mag), 'row': rng.choice([0, 1, 2, 7, 10, 11]),
                              'col': rng.choice([i, i, 2 * i + 1]), 'row_span': rng.choice([None, 1, 2, 3]),
                              'cell_span': rng.choice([None, None, 1, 2]), 'header': rng.choice([None, 'true', 'false'])})
        if rng.random() < 0.3:
            rng.shuffle(cells)
        return Case('caller', {'which': 'table', 'entry': entry, 'cells': cells}, tags)

    def cases(self, rng: random.Random, tier: str) -> Iterable[Case]:
        out: List[Case] = []
        sq = [[0, 0], [4, 0], [4, 4], [0, 4]]
        # corpus: regression inputs (the stale-area history of fix a0dbff7 first)
        out.append(Case('history', {'elem': 'region', 'init': [[0, 0], [10, 0], [10, 10], [0, 10]], 'kids': [],
                                    'ops': [['area'], ['add', 1, [[0, 0], [20, 0], [20, 20], [0, 20]]], ['area'],
                                            ['coords']]}, ['corpus']))
        out.append(Case('history', {'elem': 'page', 'init': None, 'kids': [[1, sq]],
                                    'ops': [['area'], ['add', 3, [[9, 9], [9, 1]]], ['area'], ['add', 0, [[-3, 2]]],
                                            ['area'], ['set', None], ['area'], ['add', 4, [[0, 0]]], ['area'],
                                            ['add', 2, None], ['area'], ['coords']]},
                        ['corpus', OUTSIDE, 'invalid-add']))       # (a Word / a child without coords is added)
        out.append(Case('history', {'elem': 'page', 'init': None, 'kids': [[1, sq]],
                                    'ops': [['area'], ['add', 3, [[9, 9], [9, 1]]], ['area'], ['add', 0, [[-3, 2]]],
                                            ['area'], ['set', None], ['area'], ['add', 2, [[0, 0]]], ['area'],
                                            ['add', 1, [[7, -2], [8, 8]]], ['area'], ['coords']]}, ['corpus']))
        out.append(Case('history', {'elem': 'region', 'init': None, 'kids': [],
                                    'ops': [['area'], ['add', 1, [[1, 1]]], ['area'], ['add', 1, [[2, 2]]], ['area'],
                                            ['add', 1, [[3, 3]]], ['area'], ['add', 0, [[3, 0]]], ['area']]},
                        ['corpus', 'degenerate']))
        for pts in ([[0, 0]], [[0, 0], [3, 4]], [[1, 1], [1, 1]], sq, sq + [[2, 2], [2, 0], [0, 0]],
                    [[0, 0], [1, 1], [2, 2]], [[5, 5], [5, 5], [5, 5]], [[0, 0], [1, 0], [2, 0], [1, 1]],
                    [[0, 0], [10 ** 6, 1], [2 * 10 ** 6, 3], [7, 10 ** 6]],
                    [[3, 0], [0, 0], [1, 0], [2, 0], [3, 3], [3, 1], [3, 2], [0, 3], [2, 3], [1, 3], [0, 1], [0, 2]]):
            out.append(self._derive_case(rng, pts, ['corpus'], docs=[pts]))
            out.append(self._derive_case(rng, pts, ['corpus']))
            for via in ('list', 'coords', 'doc'):
                out.append(Case('area', {'points': pts, 'via': via}, ['corpus']))
        # "all NON-EMPTY collections of COORDINATE OBJECTS": an empty collection and a document without coordinates
        # are outside the quantifier (mirrored by the model, not judged by the oracle, differences only recorded)
        out.append(Case('derive', {'docs': [], 'shift': [0, 0], 'shuffle_seed': 0}, ['corpus', 'malformed', OUTSIDE]))
        out.append(Case('derive', {'docs': [sq, None], 'shift': [1, 1], 'shuffle_seed': 0},
                        ['corpus', 'malformed', OUTSIDE]))
        out.append(Case('region', {'lines': [[[0, 0], [10, 0], [10, 10], [0, 10]]],
                                   'regions': [[[100, 100], [200, 100], [200, 200]]], 'lines_first': True,
                                   'own': None}, ['corpus', 'regression-75c00fd']))
        out.append(Case('region', {'lines': [[[0, 10]], None], 'regions': [[[200, 200]], None], 'lines_first': False,
                                   'own': None}, ['corpus', 'regression-75c00fd']))
        out.append(Case('area', {'points': None, 'via': 'doc'}, ['corpus']))
        out.append(Case('area', {'points': None, 'via': 'list'}, ['corpus']))
        # exhaustive: subsets of a k x k lattice, >= 1 point (collinear ones raise QhullError on both sides)
        k, sizes = (3, range(1, 10)) if tier == 'quick' else (4, range(1, 17))
        lattice = [[x, y] for x in range(k) for y in range(k)]
        for n in sizes:
            for combo in itertools.combinations(lattice, n):
                pts = [list(p) for p in combo]
                rng.shuffle(pts)
                out.append(self._derive_case(rng, pts, ['lattice']))
        # random structured inputs
        n_rand = 500 if tier == 'quick' else 8000
        for _ in range(n_rand):
            n = rng.choice([1, 2, 3, 3, 4, 5, 6, 8, 12, 30, 80]) if rng.random() < 0.5 else rng.randint(3, 9)
            style = rng.choice(['lattice', 'box', 'line', 'rand', 'dups', 'rand'])
            mag = rng.choice([3, 10, 1000, 10 ** 6])
            pts = self._rand_points(rng, n, style, mag)
            out.append(self._derive_case(rng, pts, ['random', style]))
            if rng.random() < 0.3:
                out.append(Case('area', {'points': pts, 'via': rng.choice(['list', 'coords', 'doc'])},
                                ['random', style]))
            if rng.random() < 0.3:
                out.append(Case('extremes', {'points': pts}, ['random', style]))
        for _ in range(n_rand):
            out.append(self._history_case(rng, ['random']))
        for _ in range(n_rand // 2):
            out.append(self._walk_case(rng, ['random']))
        for _ in range(n_rand // 2):
            out.append(self._caller_case(rng, ['random']))
        for _ in range(n_rand // 5):
            out.append(self._region_case(rng, ['random']))
        # malformed stream: empty collections, documents without coords
        for _ in range(n_rand // 20):
            docs: List[Any] = [self._rand_points(rng, rng.randint(1, 4), 'rand', 20) for _ in range(rng.randint(0, 3))]
            if docs and rng.random() < 0.8:
                docs[rng.randrange(len(docs))] = None
            elif rng.random() < 0.5:
                docs = []
            # (the `elif` above leaves a few of these well-formed: only the empty / coords-less ones are outside)
            out.append(Case('derive', {'docs': docs, 'shift': [1, 2], 'shuffle_seed': 1},
                            ['random', 'malformed'] + ([OUTSIDE] if not docs or any(d is None for d in docs) else [])))
        # ---- WAVE 4 (generated last: the streams above are what they were)
        # regression inputs: a row in which a cell spanning two rows stands next to ordinary cells, by every entry
        grid = [{'pts': [[100 * c, 40 * r], [100 * c + 100, 40 * r], [100 * c + 100, 40 * r + 40 * (sp or 1)], [100 * c, 40 * r + 40 * (sp or 1)]],
                 'row': r, 'col': c, 'row_span': sp, 'cell_span': 1 if sp else None, 'header': 'true' if (r, c) == (0, 0) else None}
                for r, c, sp in ((0, 0, None), (0, 1, 1), (0, 2, 2), (1, 0, None), (1, 1, 1))]
        for entry in ('cells', 'dict', 'xml'):
            out.append(Case('caller', {'which': 'table', 'entry': entry, 'cells': grid}, ['corpus', 'table']))
        # table rows: optional attributes x geometry x entry point
        for _ in range(n_rand // 2 if tier == 'quick' else n_rand // 4):
            out.append(self._table_case(rng, ['random', 'table']))
        # histories in which attached children are also added to a second container
        for _ in range(n_rand // 4 if tier == 'quick' else n_rand // 8):
            out.append(self._history_case(rng, ['random', 'shared-child'], share=True))
        return out

    # ------------------------------------------------------------------------ implementation
    def _derive(self, docs_pts) -> Dict[str, Any]:
        co, pdm, _ = _real()
        docs = [mk_line(pdm, co, d) for d in docs_pts]
        return call(lambda: dump_coords(co.parse_derived_coords(docs)))

    def _derive_used(self, docs_pts, seed: int) -> Dict[str, Any]:
        """the derivation on objects that are then USED AGAIN: each input built in one of the accepted input forms,
        derived from twice (same objects, second time in reversed order), every input re-read afterwards"""
        co, pdm, _ = _real()
        frng = random.Random(seed + 1)
        built = call(lambda: [pdm.PageXMLTextLine(coords=mk_coords(co, d, frng.choice(FORMS))) for d in docs_pts])
        if 'err' in built:      # (an input that is no coordinates object at all: nothing to derive from)
            return {'coords': built, 'again': built, 'reversed': built, 'mutated': []}
        docs = built['ok']
        before = snaps(docs)
        first = call(lambda: dump_coords(co.parse_derived_coords(docs)))
        changed = mutated(before, docs)
        again = call(lambda: dump_coords(co.parse_derived_coords(docs)))
        rev = call(lambda: dump_coords(co.parse_derived_coords(docs[::-1])))
        changed = changed or mutated(before, docs)
        return {'coords': first, 'again': again, 'reversed': rev, 'mutated': changed}

    def impl(self, case: Case) -> Any:
        co, pdm, bdm = _real()
        inp = case.input
        if case.kind == 'derive':
            docs = inp['docs']
            allp = flat(docs)
            out: Dict[str, Any] = self._derive_used(docs, inp.get('shuffle_seed', 0))
            out['area2_all'] = call(lambda: two(bdm.poly_area(tup(allp))))
            if 'ok' in out['coords']:
                hp = out['coords']['ok']['points']
                out['area2_hull'] = call(lambda: two(mk_line(pdm, co, hp).area))
            else:
                out['area2_hull'] = {'err': out['coords']['err']}
            out['edges'] = call(lambda: dump_edges(co.points_to_hull_edges(tup(allp)))) if len(allp) > 2 else None
            if all(d is not None for d in docs) and docs:
                dx, dy = inp['shift']
                sdocs = [[[p[0] + dx, p[1] + dy] for p in d] for d in docs]
                out['shifted'] = self._derive(sdocs)
                out['shifted_area2'] = call(lambda: two(bdm.poly_area(tup(flat(sdocs)))))
                perm = list(allp)
                random.Random(inp['shuffle_seed']).shuffle(perm)
                pdocs = regroup(perm, [len(d) for d in docs][::-1])
                out['shuffled'] = self._derive(pdocs)
                out['shuffled_area2'] = call(lambda: two(bdm.poly_area(tup(perm))))
            return out
        if case.kind == 'area':
            pts, via = inp['points'], inp['via']
            if pts is None:
                if via == 'doc':
                    return call(lambda: two(pdm.PageXMLTextLine().area))
                return call(lambda: two(bdm.poly_area(None)))
            if via == 'list':
                return call(lambda: two(bdm.poly_area(tup(pts))))
            if via == 'coords':
                return call(lambda: two(bdm.poly_area(co.Coords(tup(pts)))))
            return call(lambda: two(mk_line(pdm, co, pts).area))
        if case.kind == 'extremes':
            return call(lambda: (lambda r: None if r is None else [list(p) for p in r])(
                co.collinear_extremes(tup(inp['points']))))
        if case.kind == 'walk':
            e: Dict[tuple, Dict[tuple, int]] = {}
            for k, ns in inp['edges']:
                e[tuple(k)] = {tuple(n): 1 for n in ns}
            return call(lambda: [list(p) for p in co.edges_to_hull_points(e)])
        if case.kind == 'history':
            return self._impl_history(inp)
        if case.kind == 'caller':
            return self._impl_caller(inp)
        if case.kind == 'region':
            import pagexml.parser as pa

            def pstr(g):
                return ' '.join(f'{p[0]},{p[1]}' for p in g) if g is not None else ''
            d: Dict[str, Any] = {'@id': 'r'}
            if inp['own'] is not None:
                d['Coords'] = {'@points': pstr(inp['own'])}
            tl = [{'@id': f'l{i}', 'Coords': {'@points': pstr(g)}} for i, g in enumerate(inp['lines'])]
            # a nested region without coordinates: no Coords element, and its only line has none either
            tr = [dict({'@id': f'r{i}', 'TextLine': {'@id': f'r{i}l', 'Coords': {'@points': pstr(g)}}},
                       **({'Coords': {'@points': pstr(g)}} if g is not None else {}))
                  for i, g in enumerate(inp['regions'])]
            for key in (('TextLine', 'TextRegion') if inp['lines_first'] else ('TextRegion', 'TextLine')):
                val = tl if key == 'TextLine' else tr
                if val:
                    d[key] = val[0] if len(val) == 1 else val     # xmltodict collapses a single child
            first = call(lambda: dump_coords(pa.parse_textregion(d).coords))
            # the same element dict, now a used object, parsed a second time
            first['again'] = call(lambda: dump_coords(pa.parse_textregion(d).coords))
            return first
        raise ValueError(case.kind)

    def _impl_history(self, inp) -> Any:
        co, pdm, _ = _real()
        elem = inp['elem']
        coords = co.Coords(tup(inp['init'])) if inp['init'] is not None else None
        init_children = [(slot, mk_child(pdm, co, elem, slot, pts)[0]) for slot, pts in inp['kids']]

        def build():
            if elem == 'region':
                return pdm.PageXMLTextRegion(coords=coords,
                                             text_regions=[c for s, c in init_children if s == 0],
                                             lines=[c for s, c in init_children if s == 1])
            return pdm.PageXMLPage(coords=coords, extra=[c for s, c in init_children if s == 0],
                                   columns=[c for s, c in init_children if s == 1],
                                   text_regions=[c for s, c in init_children if s == 2],
                                   lines=[c for s, c in init_children if s == 3])
        kids_before = snaps([c for _s, c in init_children])
        r = call(build)
        if 'err' in r:
            return r
        el = r['ok']
        # every child object ever handed to the element, with what its coordinates were when it was handed in
        watched = [c for _s, c in init_children]
        before = list(kids_before)
        outs = []
        for op in inp['ops']:
            if op[0] == 'add':
                child, kw = mk_child(pdm, co, elem, op[1], op[2])
                watched.append(child)
                before.append(snap(child.coords))
                o = call(lambda: el.add_child(child, **kw))
                o = {'unit': None} if 'ok' in o else o
            elif op[0] == 'share':
                # a child that is already attached here is ALSO added to a second, fresh container
                attached = [c for c in watched if c.coords is not None and c.__class__.__name__ != 'PageXMLWord']
                if not attached:
                    o = {'shared': None}
                else:
                    child = attached[op[1] % len(attached)]
                    pts_now = [list(p) for p in child.coords.points]
                    second = pdm.PageXMLPage() if isinstance(child, pdm.PageXMLColumn) else pdm.PageXMLTextRegion()
                    r2 = call(lambda: second.add_child(child))
                    o = {'shared': dump_coords(second.coords) if 'ok' in r2 else r2, 'child': pts_now,
                         'area2': call(lambda: two(second.area))}
            elif op[0] == 'area':
                o = call(lambda: two(el.area))
                o = {'area2': o['ok']} if 'ok' in o else o
            elif op[0] == 'coords':
                o = call(lambda: el.coords)
                o = {'coords': [list(p) for p in o['ok'].points] if o['ok'] is not None else None} if 'ok' in o else o
            elif op[0] == 'set':
                o = call(lambda: setattr(el, 'coords', co.Coords(tup(op[1])) if op[1] is not None else None))
                o = {'unit': None} if 'ok' in o else o
            else:
                raise ValueError(op)
            cur = el.coords
            outs.append({'out': o, 'cur': [list(p) for p in cur.points] if cur is not None else None,
                         'mutated': mutated(before, watched)})
        cur = el.coords
        return {'ok': {'outs': outs, 'coords': [list(p) for p in cur.points] if cur is not None else None}}

    def _impl_caller(self, inp) -> Any:
        """{'ok': [{'docs': children's points, 'coords': derived}, …]} | {'err': …}, plus (WAVE 4) 'again': the same
        call made a second time on the SAME objects, and 'mutated': the input objects that read differently afterwards"""
        which = inp['which']
        built = call(lambda: self._caller_setup(inp))
        if 'err' in built:
            return built
        watched, run = built['ok']
        before = snaps(watched)
        first = call(run)
        changed = mutated(before, watched)
        again = call(run)
        changed = changed or mutated(before, watched)
        out = dict(first)
        out['again'] = again
        out['mutated'] = changed
        return out

    def _caller_setup(self, inp):
        """(the coordinate-bearing input objects, the call to make on them)"""
        co, pdm, _ = _real()
        which = inp['which']
        groups = inp.get('groups')
        if which == 'merge_lines':
            import pagexml.helper.pagexml_helper as ph
            lines = [mk_line(pdm, co, g, text='ab', metadata={'parent_id': 'p'}) for g in groups]
            return lines, lambda: [{'docs': groups, 'coords': dump_coords(ph.merge_lines(lines).coords)}]
        if which == 'make_derived_column':
            import pagexml.column_parser as cp
            lines = [mk_line(pdm, co, g) for g in groups]
            return lines, lambda: [{'docs': groups,
                                    'coords': dump_coords(cp.make_derived_column(lines, {}, 'page').coords)}]
        if which == 'make_rows_from_cells':
            import pagexml.parser as pa
            cells = [pdm.PageXMLTableCell(coords=co.Coords(tup(g)), row=r, col=i)
                     for i, (g, r) in enumerate(zip(groups, inp['rows']))]

            def f():
                rows = pa.make_rows_from_cells(cells)
                return [{'docs': [[list(p) for p in c.coords.points] for c in row.cells],
                         'coords': dump_coords(row.coords)} for row in rows]
            return cells, f
        if which == 'table':
            return self._table_setup(inp)
        if which == 'merge_textregions':
            import pagexml.helper.pagexml_helper as ph
            regs = [pdm.PageXMLTextRegion(doc_id='r0', lines=[]), pdm.PageXMLTextRegion(doc_id='r1', lines=[])]
            lines = []
            for i, (g, ri) in enumerate(zip(groups, inp['region_of'])):
                line = mk_line(pdm, co, g, baseline=co.Baseline([(0, 10 * i), (5, 10 * i)]))
                regs[ri].lines.append(line)
                lines.append(line)

            def f():
                m = ph.merge_textregions(regs, doc_id='m')
                return [{'docs': [[list(p) for p in ln.coords.points] for ln in m.lines],
                         'coords': dump_coords(m.coords)}]
            return lines, f
        if which == 'parse_textregion':
            import pagexml.parser as pa
            d = {'@id': 'r', 'TextLine': [{'@id': f'l{i}', 'Coords': {'@points': ' '.join(f'{p[0]},{p[1]}' for p in g)}}
                                         for i, g in enumerate(groups)]}
            if len(groups) == 1:
                d['TextLine'] = d['TextLine'][0]      # xmltodict collapses a single child
            return [], lambda: [{'docs': groups, 'coords': dump_coords(pa.parse_textregion(d).coords)}]
        raise ValueError(which)

    # -- table rows (WAVE 4): every way a table row comes about, with the optional cell attributes present
    def _table_setup(self, inp):
        """inp['cells'] = [{'pts', 'row', 'col', 'row_span', 'cell_span', 'header'}, …] (row / spans / header may be None),
        inp['entry'] = 'cells'  make_rows_from_cells on PageXMLTableCell objects
                     | 'dict'   parse_tableregion on the xmltodict form of a TableRegion element
                     | 'xml'    parse_pagexml_file on a document holding that TableRegion"""
        co, pdm, _ = _real()
        import pagexml.parser as pa
        cells, entry = inp['cells'], inp['entry']

        def report(rows):
            return [{'docs': [[list(p) for p in c.coords.points] for c in row.cells], 'coords': dump_coords(row.coords),
                     'row': row.id} for row in rows]
        if entry == 'cells':
            objs = [pdm.PageXMLTableCell(doc_id=f'c{i}', coords=co.Coords(tup(c['pts'])), row=c['row'], col=c['col'],
                                         row_span=c['row_span'], cell_span=c['cell_span'], header=c['header'])
                    for i, c in enumerate(cells)]
            return objs, lambda: report(pa.make_rows_from_cells(objs))

        def pstr(g):
            return ' '.join(f'{p[0]},{p[1]}' for p in g)
        attr = (('row', '@row'), ('col', '@col'), ('row_span', '@rowSpan'), ('cell_span', '@cellSpan'), ('header', '@header'))
        if entry == 'dict':
            def f():
                # (built anew for every call: the dict form is what xmltodict hands over, single child collapsed)
                ds = [dict({'@id': f'c{i}', 'Coords': {'@points': pstr(c['pts'])}},
                           **{k: str(c[a]) for a, k in attr if c[a] is not None}) for i, c in enumerate(cells)]
                d = {'@id': 't', 'TableCell': ds[0] if len(ds) == 1 else ds}
                return report(pa.parse_tableregion(d).rows)
            return [], f
        names = {'row': 'row', 'col': 'col', 'row_span': 'rowSpan', 'cell_span': 'cellSpan', 'header': 'header'}
        body = ''.join('<TableCell id="c%d"%s><Coords points="%s"/></TableCell>' % (
            i, ''.join(f' {names[a]}="{c[a]}"' for a, _k in attr if c[a] is not None), pstr(c['pts']))
            for i, c in enumerate(cells))
        xml = ('<?xml version="1.0" encoding="UTF-8"?><PcGts xmlns="http://schema.primaresearch.org/PAGE/gts/pagecontent/'
               '2013-07-15"><Page imageFilename="t.jpg" imageWidth="100" imageHeight="100"><TableRegion id="t">'
               + body + '</TableRegion></Page></PcGts>')
        return [], lambda: report(pa.parse_pagexml_file('t.xml', pagexml_data=xml).table_regions[0].rows)

    # ------------------------------------------------------------------------ model
    def requests(self, case: Case):
        inp = case.input
        if case.kind == 'derive':
            allp = flat(inp['docs'])
            table = hull_table([allp] + hulls(allp))
            reqs = [{'p': 'C09', 'op': 'derive', 'args': {'docs': inp['docs'], 'table': table}}]
            sim = simplices(allp)
            if sim is not None:
                reqs.append({'p': 'C09', 'op': 'edges', 'args': {'simplices': sim}})
            return reqs
        if case.kind == 'area':
            pts = inp['points']
            return [{'p': 'C09', 'op': 'area', 'args': {'points': pts, 'table': hull_table([pts] if pts else [])}}]
        if case.kind == 'walk':
            return [{'p': 'C09', 'op': 'walk', 'args': {'edges': inp['edges']}}]
        if case.kind == 'extremes':
            return [{'p': 'C09', 'op': 'extremes', 'args': {'points': inp['points']}}]
        if case.kind == 'history':
            nslots = REGION_SLOTS if inp['elem'] == 'region' else PAGE_SLOTS
            cands: List[Pts] = []
            if inp['init'] is not None:
                cands.append(inp['init'])
            kids = [list(k) for k in inp['kids']]
            for op in inp['ops']:
                if op[0] == 'set' and op[1] is not None:
                    cands.append(op[1])
                if op[0] == 'add' and op[1] < nslots:
                    kids.append([op[1], op[2]])
                    p = ordered_points(nslots, kids)
                    if p is not None:
                        cands.append(p)
                        cands.extend(hulls(p))
            # ('share' adds an attached child to a SECOND container: it is no operation on this element — the model's
            #  store does not see it, and the element must read afterwards as it read before)
            return [{'p': 'C09', 'op': 'history',
                     'args': {'nslots': nslots, 'init': inp['init'], 'kids': inp['kids'],
                              'ops': [op for op in inp['ops'] if op[0] != 'share'], 'table': hull_table(cands)}}]
        if case.kind == 'region':
            # text_regions + lines, the order the repaired code (75c00fd) and add_child use
            docs = [d for d in inp['regions'] + inp['lines'] if d is not None]
            allp = flat(docs)
            table = hull_table([allp] + hulls(allp))
            reqs = [{'p': 'C09', 'op': 'region', 'args': {'own': inp['own'], 'regions': inp['regions'],
                                                           'lines': inp['lines'], 'table': table}}]
            if inp['own'] is None and docs:
                reqs.append({'p': 'C09', 'op': 'derive', 'args': {'docs': docs, 'table': table}})
            return reqs
        if case.kind == 'caller':
            # one derive request per derived element, on the children lists the real call reported
            out = self.impl(case)
            reqs = []
            if inp['which'] == 'table':
                # the row model itself (Model/C09Rows.lean, theorem C09_table_rows_all_cells) on the cells as given:
                # which rows there are, which cells each holds, and the coordinates derived from ALL of them
                groups: Dict[Any, Pts] = {}
                for c in inp['cells']:
                    groups.setdefault(c['row'], []).extend(c['pts'])
                cands: List[Pts] = []
                for g in groups.values():
                    cands.append(g)
                    cands.extend(hulls(g))
                reqs.append({'p': 'C09', 'op': 'rows', 'args': {'cells': inp['cells'], 'table': hull_table(cands)}})
            if 'ok' in out and isinstance(out['ok'], list):
                for item in out['ok']:
                    allp = flat(item['docs'])
                    reqs.append({'p': 'C09', 'op': 'derive',
                                 'args': {'docs': item['docs'], 'table': hull_table([allp] + hulls(allp))}})
            return reqs
        return []

    def compare(self, case, impl_out, model_out):
        # Level of comparison (see the comment block above `same_outline`): a DERIVED vertex list up to rotation
        # and reflection ("listed in boundary order": no start vertex, no direction is fixed), one-/two-vertex
        # results as sets, boxes and areas exactly, outcomes rejected-vs-accepted (no exception class is named).
        # A derivation whose input is three or more distinct points on one line is outside the quantifier (see
        # `outside_collinear`): its outcome, and whatever is computed FROM that outcome, is not compared.  Every other
        # derivation of the same case is compared as before.
        if case.kind == 'derive':
            m = model_out[0]['ok']
            if outside_collinear(flat(case.input['docs'])):
                # (the area of the input points themselves is poly_area's business, not a derivation: still compared)
                return None if norm_err(impl_out['area2_all']) == norm_err(m['area2_all']) else \
                    f'area2_all: impl={short(impl_out["area2_all"])} model={short(m["area2_all"])}'
            if not same_coords_outcome(impl_out['coords'], m['coords']):
                return f'coords: impl={short(impl_out["coords"])} model={short(m["coords"])}'
            for k in ('area2_all', 'area2_hull'):
                if norm_err(impl_out[k]) != norm_err(m[k]):
                    return f'{k}: impl={short(impl_out[k])} model={short(m[k])}'
            # the model is a pure function of the points: its answer is also the answer for the second derivation from
            # the same (used) objects and for the derivation from them in reversed order
            for k in ('again', 'reversed'):
                if k in impl_out and not same_coords_outcome(impl_out[k], m['coords']):
                    return f'{k} (used objects): impl={short(impl_out[k])} model={short(m["coords"])}'
            if 'ok' in impl_out['coords'] and m['planar']:
                if m['cert'] is not True:
                    return (f'HullCert rejects the hull the library produced: pts={short(flat(case.input["docs"]))} '
                            f'vs={short(impl_out["coords"]["ok"]["points"])}')
                if m['cycle'] is not True:
                    return 'the edge dict is not a single cycle through the returned vertices'
                if len(model_out) > 1 and impl_out.get('edges') and 'ok' in impl_out['edges'] and \
                        canon_edges(model_out[1]['ok']) != canon_edges(impl_out['edges']['ok']):
                    return (f'points_to_hull_edges: dict built from the simplices differs: '
                            f'impl={short(impl_out["edges"]["ok"])} model={short(model_out[1]["ok"])}')
                if m['cert2'] is not True:
                    return ('HullCert rejects the library hull of the hull vertices '
                            + short(impl_out["coords"]["ok"]["points"]) + ' (second call, made by poly_area)')
            return None
        if case.kind == 'area':
            return None if norm_err(impl_out) == norm_err(model_out[0]) else \
                f'impl={short(impl_out)} model={short(model_out[0])}'
        if case.kind == 'walk':
            # the walk lists the cycle "in boundary order": any start node, either direction
            return None if same_points_outcome(impl_out, model_out[0]) else \
                f'impl={short(impl_out)} model={short(model_out[0])}'
        if case.kind == 'extremes':
            # the two ends of the segment, as a set (the oracle does not fix their order either); None = not on a line
            if outside_collinear(case.input['points']):
                return None      # what the helper of the derivation says about an excluded collection is not fixed
            return None if same_points_outcome(impl_out, model_out[0]) else \
                f'impl={short(impl_out)} model={short(model_out[0])}'
        if case.kind == 'history':
            if 'err' in impl_out:
                return f'constructor failed: {impl_out}'
            m = model_out[0]['ok']
            ops_m = [op for op in case.input['ops'] if op[0] != 'share']
            io = [o['out'] for op, o in zip(case.input['ops'], impl_out['ok']['outs']) if op[0] != 'share']
            if len(io) != len(m['outs']):
                return f'{len(io)} outputs, model {len(m["outs"])}'
            # coordinates that were ASSIGNED (constructor, `set`) are kept point by point: compared exactly;
            # coordinates DERIVED by a successful add_child: up to rotation / reflection
            # STATEMENT: "whenever an element's coordinates are derived from other elements (… adding a child), the
            # result is the convex hull of all THEIR points": every add_child is a derivation of its own, from the
            # children attached at that moment (the element's previous coordinates are no input of it).  One whose
            # children's points are three or more distinct points on one line is outside the quantifier: its outcome
            # is not compared, and the element's coordinates / area are `free` (not compared) until they are set, or
            # derived again from a collection inside the quantifier.  A history whose later states are inside is
            # compared on those states as before.
            nslots = REGION_SLOTS if case.input['elem'] == 'region' else PAGE_SLOTS
            kids = [list(k) for k in case.input['kids']]
            derived = free = False
            for i, (op, a, b) in enumerate(zip(ops_m, io, m['outs'])):
                if op[0] == 'set':
                    derived = free = False
                if op[0] == 'add' and op[1] < nslots:
                    kids.append([op[1], op[2]])
                    if outside_collinear(ordered_points(nslots, kids)):
                        free = True
                        continue
                if free and op[0] in ('coords', 'area'):
                    continue
                if 'coords' in a and 'coords' in b:
                    same = same_outline(a['coords'], b['coords']) if derived else a['coords'] == b['coords']
                else:
                    same = norm_err(a) == norm_err(b)
                if not same:
                    return f'op {i} {op}: impl={short(a)} model={short(b)}'
                if op[0] == 'add' and 'unit' in a:
                    derived, free = True, False
            fi, fm = impl_out['ok']['coords'], m['coords']
            if not free and not (same_outline(fi, fm) if derived else fi == fm):
                return f'final coords: impl={fi} model={fm}'
            return None
        if case.kind == 'region':
            m = model_out[0]
            i = {'ok': impl_out['ok']['points'] if impl_out['ok'] is not None else None} if 'ok' in impl_out \
                else impl_out
            own = case.input['own'] is not None      # own Coords are kept as given: exact
            if not own and outside_collinear(flat(case.input['regions']) + flat(case.input['lines'])):
                return None
            if not ((norm_err(i) == norm_err(m)) if own else same_points_outcome(i, m)):
                return f'impl={short(i)} model={short(m)}'
            if len(model_out) > 1:
                d = model_out[1]['ok']
                if not same_coords_outcome(d['coords'], impl_out):
                    return f'impl={short(impl_out)} derive-model={short(d["coords"])}'
                if 'ok' in impl_out and d['planar'] and (d['cert'] is not True or d['cert2'] is not True):
                    return f'HullCert rejects the hull of the children: {short(impl_out)}'
            if 'again' in impl_out and not same_coords_outcome(impl_out['again'], impl_out):
                return f'second parse of the same element dict: {short(impl_out["again"])} after {short(impl_out)}'
            return None
        if case.kind == 'caller':
            if case.input['which'] == 'table':
                rows_m, model_out = model_out[0], model_out[1:]
                if 'ok' not in impl_out or 'ok' not in rows_m:
                    if ('ok' in impl_out) != ('ok' in rows_m):
                        return f'rows: impl={short(impl_out)} model={short(rows_m)}'
                else:
                    # rows by row index (their order is C08's subject), the cells of a row as the multiset of their
                    # point lists, the derived coordinates up to rotation / reflection
                    def cells_key(docs):
                        return sorted(jd(d) for d in docs)
                    ri = {r['row']: r for r in impl_out['ok']}
                    rm = {r['row']: r for r in rows_m['ok']}
                    if sorted(map(str, ri)) != sorted(map(str, rm)) or len(ri) != len(impl_out['ok']):
                        return f'rows: impl has rows {[r["row"] for r in impl_out["ok"]]}, model {[r["row"] for r in rows_m["ok"]]}'
                    for k in ri:
                        if cells_key(ri[k]['docs']) != cells_key(rm[k]['docs']):
                            return f'row {k}: cells impl={short(ri[k]["docs"])} model={short(rm[k]["docs"])}'
                        if outside_collinear(flat(ri[k]['docs'])):
                            continue
                        if not same_coords_outcome({'ok': ri[k]['coords']}, {'ok': rm[k]['coords']}):
                            return f'row {k}: coords impl={short(ri[k]["coords"])} model={short(rm[k]["coords"])}'
            if 'err' in impl_out:
                return None if not model_out else f'impl={impl_out} model={short(model_out)}'
            for item, m in zip(impl_out['ok'], model_out):
                if outside_collinear(flat(item['docs'])):
                    continue
                if not same_coords_outcome({'ok': item['coords']}, m['ok']['coords']):
                    return f'impl={short(item["coords"])} model={short(m["ok"]["coords"])}'
                if m['ok']['planar'] and m['ok']['cert'] is not True:
                    return f'HullCert rejects {short(item)}'
            # the second call on the same (used) objects: the model's answers are pure, so they are its answers again
            again = impl_out.get('again')
            if again is not None:
                if 'ok' not in again or len(again['ok']) != len(impl_out['ok']):
                    return f'second call on the same objects: {short(again)} after {short(impl_out["ok"])}'
                for item, m in zip(again['ok'], model_out):
                    if outside_collinear(flat(item['docs'])):
                        continue
                    if not same_coords_outcome({'ok': item['coords']}, m['ok']['coords']):
                        return f'second call on the same objects: impl={short(item["coords"])} model={short(m["ok"]["coords"])}'
            return None
        return None

    # ------------------------------------------------------------------------ oracle
    def _judge_hull(self, bad, what: str, pts: Pts, res: Any, prefix: str = ''):
        """`res` = call-outcome of a derivation from the input points `pts`"""
        if not pts:
            return
        if len(pts) <= 2:
            # one or two points: the "hull" is the points themselves (any order; the statement does not fix one)
            if 'ok' not in res:
                bad(prefix + 'small-rejected', f'{what}: {len(pts)} point(s) rejected with {res}')
                return
            c = res['ok']
            xs, ys = [p[0] for p in pts], [p[1] for p in pts]
            if set(map(tuple, c['points'])) != set(map(tuple, pts)):
                bad(prefix + 'small-points', f'{what}: {len(pts)} point(s) {pts} gave {c["points"]}')
            elif (c['x'], c['y'], c['w'], c['h']) != (min(xs), min(ys), max(xs) - min(xs), max(ys) - min(ys)):
                bad(prefix + 'small-box', f'{what}: box of {c["points"]} is not the box of {pts}')
            return
        if degenerate(pts):
            # three or more DISTINCT points on one straight line are outside the quantifier ("collections ... whose
            # points do not all lie on one straight line (plus the 1- and 2-point cases), with duplicates"): whether
            # the answer lists the two ends only or every point along the segment is not stated, so it is not judged
            # (false alarm of probe 2, behaviour_preserving/C09-collinear-keeps-points-bp; DESIGN §12.9).  The
            # correspondence does not compare such a derivation either (`outside_collinear`, `compare`).
            if len(set(tuple(p) for p in pts)) > 2:
                return
            # at most two distinct points, repeated (a zero-height line box; fix fc690f6): the hull is the segment
            # between them: vertices are input points, same box, every input point on the segment
            if 'ok' not in res:
                bad(prefix + 'collinear-rejected', f'{what}: points on one line rejected with {res}')
                return
            c = res['ok']
            vs = [tuple(v) for v in c['points']]
            pset = set(tuple(p) for p in pts)
            xs, ys = [p[0] for p in pts], [p[1] for p in pts]
            if any(v not in pset for v in vs) or len(set(vs)) != len(vs) or not 1 <= len(vs) <= 2:
                bad(prefix + 'collinear-vertices', f'{what}: points on one line {short(pts, 200)} gave {vs}')
            elif (c['x'], c['y'], c['w'], c['h']) != (min(xs), min(ys), max(xs) - min(xs), max(ys) - min(ys)):
                bad(prefix + 'collinear-box', f'{what}: box of {vs} is not the box of {short(pts, 200)}')
            elif any(cross(vs[0], vs[-1], p) != 0 for p in pset):
                bad(prefix + 'collinear-outside', f'{what}: an input point is off the segment {vs}')
            return
        if 'ok' not in res:
            bad(prefix + 'rejected', f'{what}: non-collinear input rejected with {res}')
            return
        c = res['ok']
        why = hull_judgement(c['points'], pts)
        if why:
            bad(prefix + why, f'{what}: {why}: input {short(pts, 200)} gave vertices {short(c["points"], 200)}')
        xs, ys = [p[0] for p in pts], [p[1] for p in pts]
        if (c['x'], c['y'], c['w'], c['h']) != (min(xs), min(ys), max(xs) - min(xs), max(ys) - min(ys)):
            bad(prefix + 'box', f'{what}: box {(c["x"], c["y"], c["w"], c["h"])} is not the union of the inputs\' boxes')

    @staticmethod
    def _judge_used(bad, what: str, out: Any):
        """the inputs of a derivation are still what they were (see the WAVE 4 comment above `snap`)"""
        for m in (out.get('mutated') or [])[:1]:
            b, a = m['before'], m['after']
            diff = [k for k in (b or {}) if not isinstance(a, dict) or a.get(k) != b[k]] if isinstance(b, dict) else ['coords']
            bad('inputs-mutated', f'{what}: input {m["input"]} was changed by the call ({", ".join(diff)}): before '
                                  f'{short(b, 200)}, after {short(a, 200)}')

    @staticmethod
    def _expected_area2(pts: Optional[Pts]) -> Optional[int]:
        """2 * area of the convex hull of the points; None where the statement is silent"""
        if pts is None or len(pts) <= 2 or degenerate(pts):
            return 0
        return shoelace2(mono_hull(pts))

    def oracle(self, case: Case, out: Any) -> List[Finding]:
        fs: List[Finding] = []

        def bad(key, what):
            fs.append(Finding(f'C09:{key}', what, case, out))
        inp = case.input
        if OUTSIDE in case.tags:      # outside the quantifier: not judged
            return fs
        if case.kind == 'derive':
            docs = inp['docs']
            if not docs or any(d is None for d in docs):
                return fs
            allp = flat(docs)
            self._judge_hull(bad, 'parse_derived_coords', allp, out['coords'])
            self._judge_used(bad, 'parse_derived_coords', out)
            if 'again' in out and not fs:       # (a first answer that is wrong already is reported once)
                self._judge_hull(bad, 'parse_derived_coords (second call on the same objects)', allp, out['again'], 'again-')
                self._judge_hull(bad, 'parse_derived_coords (same objects, reversed order)', allp, out['reversed'],
                                 'again-')
            exp = self._expected_area2(allp)
            if exp is not None:
                for k in ('area2_all', 'area2_hull'):
                    if out[k] != {'ok': exp}:
                        bad('area', f'{k}: 2*area is {out[k]}, the hull of the points has {exp}')
                if out.get('shifted_area2') != {'ok': exp}:
                    bad('area-translation', f'2*area after translation by {inp["shift"]} is '
                                            f'{out.get("shifted_area2")}, before {exp}')
                if out.get('shuffled_area2') != {'ok': exp}:
                    bad('area-reorder', f'2*area after reordering the points is {out.get("shuffled_area2")}, '
                                        f'before {exp}')
                dx, dy = inp['shift']
                self._judge_hull(bad, 'parse_derived_coords (translated)', [[p[0] + dx, p[1] + dy] for p in allp],
                                 out['shifted'], 'translated-')
                perm = list(allp)
                random.Random(inp['shuffle_seed']).shuffle(perm)
                self._judge_hull(bad, 'parse_derived_coords (reordered)', perm, out['shuffled'], 'reordered-')
        elif case.kind == 'area':
            exp = self._expected_area2(inp['points'])
            if exp is not None and out != {'ok': exp}:
                bad('area', f'2*area ({inp["via"]}) is {out}, the hull of the points has {exp}')
        elif case.kind == 'extremes':
            pts = inp['points']
            if pts:
                exp = None
                if degenerate(pts) and len(set(map(tuple, pts))) > 2:
                    return fs       # outside the quantifier, see _judge_hull
                if degenerate(pts):
                    lo, hi = min(map(tuple, pts)), max(map(tuple, pts))
                    exp = [list(lo)] if lo == hi else [list(lo), list(hi)]
                got = out.get('ok') if isinstance(out, dict) else None
                same = (got is None and exp is None) or (got is not None and exp is not None and
                                                          sorted(map(tuple, got)) == sorted(map(tuple, exp)))
                if not same:     # (the order of the two extremes is not fixed by the statement)
                    bad('extremes', f'collinear_extremes({short(pts, 200)}) is {out}, expected {exp}')
        elif case.kind == 'walk':
            cyc = {tuple(k): [tuple(n) for n in ns] for k, ns in inp['edges']}
            if 'ok' not in out:
                bad('walk-rejected', f'cycle dict rejected: {out}')
            else:
                vs = [tuple(p) for p in out['ok']]
                n = len(vs)
                # the statement asks for boundary order; it does not fix the start vertex or the direction
                if sorted(vs) != sorted(cyc) or \
                        any(vs[(i + 1) % n] not in cyc[vs[i]] for i in range(n)):
                    bad('walk-order', f'walk over a cycle dict does not list the cycle in boundary order: {vs}')
        elif case.kind == 'history':
            if 'ok' not in out:
                return fs
            nslots = REGION_SLOTS if inp['elem'] == 'region' else PAGE_SLOTS
            kids = [list(k) for k in inp['kids']]
            prev_cur = None
            for i, (op, o) in enumerate(zip(inp['ops'], out['ok']['outs'])):
                res, cur = o['out'], o['cur']
                self._judge_used(bad, f'children after op {i} {op[0]}', o)
                if op[0] == 'share':
                    if res.get('shared') is not None:
                        # the second container holds this one child: its coordinates are the hull of the child's points
                        self._judge_hull(bad, f'second container after add_child of an attached child (op {i})',
                                         res['child'], res['shared'] if 'err' in res['shared'] else {'ok': res['shared']},
                                         'add-child-')
                        exp = self._expected_area2(res['child'])
                        if 'err' not in res['shared'] and res['area2'] != {'ok': exp}:
                            bad('history-area', f'area of the second container (op {i}) is {res["area2"]}, the hull of '
                                                f'its only child {short(res["child"], 200)} has 2*area {exp}')
                    if i > 0 and cur != prev_cur:
                        bad('coords-read', f'adding an attached child to a second container (op {i}) changed the '
                                           f'coordinates of the first: {prev_cur} -> {cur}')
                    prev_cur = cur
                    continue
                prev_cur = cur
                if op[0] == 'add' and op[1] < nslots:
                    kids.append([op[1], op[2]])
                    p = ordered_points(nslots, kids)
                    if p is not None and 'err' not in res:
                        self._judge_hull(bad, f'coords after add_child (op {i})', p,
                                         {'ok': {'points': cur, 'x': min(q[0] for q in cur), 'y': min(q[1] for q in cur),
                                                 'w': max(q[0] for q in cur) - min(q[0] for q in cur),
                                                 'h': max(q[1] for q in cur) - min(q[1] for q in cur)}}
                                         if cur else {'err': 'coords is None'}, 'add-child-')
                    elif p is not None and 'err' in res and len(p) > 0:
                        bad('add-child-rejected', f'add_child (op {i}) failed with {res} on children {short(p, 200)}')
                elif op[0] == 'area':
                    exp = self._expected_area2(cur)
                    if exp is not None and res != {'area2': exp}:
                        stale = any(q['out'] == res for q in out['ok']['outs'][:i])
                        bad('stale-area' if stale else 'history-area',
                            f'area read (op {i}) gives {res}; the hull of the current points {short(cur, 200)} has '
                            f'2*area {exp}')
                elif op[0] == 'coords':
                    if res != {'coords': cur}:
                        bad('coords-read', f'coords read (op {i}) is not pure: {res} vs {cur}')
        elif case.kind == 'region':
            if inp['own'] is None:
                allp = flat(inp['regions']) + flat(inp['lines'])
                mixed = bool(flat(inp['lines'])) and bool(flat(inp['regions']))
                sub: List[Finding] = []
                self._judge_hull(lambda k, w: sub.append(Finding(
                    'C09:parse_textregion-mixed-children' if mixed else f'C09:{k}', w, case, out)),
                    'parse_textregion (region without Coords)', allp,
                    out if ('err' in out or out['ok'] is not None) else {'err': 'coords is None'}, 'region-')
                again = out.get('again')
                if again is not None and not sub:
                    self._judge_hull(lambda k, w: sub.append(Finding(
                        'C09:parse_textregion-mixed-children' if mixed else f'C09:{k}', w, case, out)),
                        'parse_textregion (region without Coords, the same element dict parsed again)', allp,
                        again if ('err' in again or again['ok'] is not None) else {'err': 'coords is None'}, 'region-again-')
                fs.extend(sub)
        elif case.kind == 'caller':
            if 'ok' not in out:
                bad(f'caller-rejected:{inp["which"]}', f'{inp["which"]} failed with {out}')
                return fs
            name = 'make_rows_from_cells' if inp['which'] == 'table' else inp['which']
            what = name + (f' (via {inp["entry"]})' if inp['which'] == 'table' else '')
            for item in out['ok']:
                self._judge_hull(bad, what, flat(item['docs']), {'ok': item['coords']}
                                 if item['coords'] is not None else {'err': 'coords is None'},
                                 f'caller-{name}-')
            self._judge_used(bad, what, out)
            again = out.get('again')
            if again is not None and not fs:    # (a first answer that is wrong already is reported once)
                if 'ok' not in again:
                    bad(f'caller-rejected:{name}', f'{what}: the second call on the same objects failed with {again}')
                else:
                    for item in again['ok']:
                        self._judge_hull(bad, what + ' (second call on the same objects)', flat(item['docs']),
                                         {'ok': item['coords']} if item['coords'] is not None else {'err': 'coords is None'},
                                         f'caller-{name}-again-')
        return fs

    # ------------------------------------------------------------------------ bookkeeping
    def nontrivial(self, case: Case) -> bool:
        inp = case.input
        if case.kind == 'derive':
            p = flat(inp['docs'])
            return len(p) >= 3 and not degenerate(p)
        if case.kind == 'extremes':
            return len(inp['points']) >= 3
        if case.kind == 'area':
            return inp['points'] is not None and len(inp['points']) >= 3 and not degenerate(inp['points'])
        if case.kind == 'history':
            kinds = [op[0] for op in inp['ops']]
            return 'add' in kinds and 'area' in kinds
        if case.kind == 'caller':
            p = flat(inp['groups']) if 'groups' in inp else flat([c['pts'] for c in inp['cells']])
            return len(p) >= 3 and not degenerate(p)
        if case.kind == 'region':
            p = flat(inp['lines']) + flat(inp['regions'])
            return len(p) >= 3 and not degenerate(p)
        return True

    def shrink_candidates(self, case: Case):
        inp = case.input
        if case.kind == 'derive':
            docs = inp['docs']
            for i in range(len(docs)):
                if len(docs) > 1:
                    yield Case('derive', dict(inp, docs=docs[:i] + docs[i + 1:]), case.tags)
            for i, d in enumerate(docs):
                if d is None:
                    continue
                for j in range(len(d)):
                    if len(d) > 1:
                        yield Case('derive', dict(inp, docs=docs[:i] + [d[:j] + d[j + 1:]] + docs[i + 1:]), case.tags)
            if len(docs) > 1 and all(d is not None for d in docs):
                yield Case('derive', dict(inp, docs=[flat(docs)]), case.tags)
            for i, d in enumerate(docs):
                if d is None:
                    continue
                for j, p in enumerate(d):
                    for c in (0, 1):
                        if abs(p[c]) > 1:
                            q = list(p)
                            q[c] = int(p[c] / 2)
                            yield Case('derive', dict(inp, docs=docs[:i] + [d[:j] + [q] + d[j + 1:]] + docs[i + 1:]),
                                       case.tags)
            if inp['shift'] != [1, 1]:
                yield Case('derive', dict(inp, shift=[1, 1]), case.tags)
        elif case.kind in ('area', 'extremes'):
            pts = inp['points']
            if pts:
                for j in range(len(pts)):
                    if len(pts) > 1:
                        yield Case(case.kind, dict(inp, points=pts[:j] + pts[j + 1:]), case.tags)
                for j, p in enumerate(pts):
                    for c in (0, 1):
                        if abs(p[c]) > 1:
                            q = list(p)
                            q[c] = int(p[c] / 2)
                            yield Case(case.kind, dict(inp, points=pts[:j] + [q] + pts[j + 1:]), case.tags)
        elif case.kind == 'history':
            ops = inp['ops']
            for i in range(len(ops)):
                if len(ops) > 1:
                    yield Case('history', dict(inp, ops=ops[:i] + ops[i + 1:]), case.tags)
            for i in range(len(inp['kids'])):
                yield Case('history', dict(inp, kids=inp['kids'][:i] + inp['kids'][i + 1:]), case.tags)
            if inp['init'] is not None:
                yield Case('history', dict(inp, init=None), case.tags)
            for i, op in enumerate(ops):
                if op[0] in ('add', 'set') and op[-1] is not None and len(op[-1]) > 1:
                    for j in range(len(op[-1])):
                        yield Case('history', dict(inp, ops=ops[:i] + [op[:-1] + [op[-1][:j] + op[-1][j + 1:]]]
                                                   + ops[i + 1:]), case.tags)
        elif case.kind == 'walk':
            return
        elif case.kind == 'region':
            for k in ('lines', 'regions'):
                g = inp[k]
                for i in range(len(g)):
                    if len(g) > 1:
                        yield Case('region', dict(inp, **{k: g[:i] + g[i + 1:]}), case.tags)
                for i, grp in enumerate(g):
                    for j in range(len(grp) if grp is not None else 0):
                        if len(grp) > 1:
                            yield Case('region', dict(inp, **{k: g[:i] + [grp[:j] + grp[j + 1:]] + g[i + 1:]}),
                                       case.tags)
        elif case.kind == 'caller' and inp['which'] == 'table':
            cs = inp['cells']
            for i in range(len(cs)):
                if len(cs) > 1:
                    yield Case('caller', dict(inp, cells=cs[:i] + cs[i + 1:]), case.tags)
            if inp['entry'] != 'cells':
                yield Case('caller', dict(inp, entry='cells'), case.tags)
            for i, c in enumerate(cs):
                for k in ('header', 'cell_span', 'row_span'):
                    if c[k] is not None:
                        yield Case('caller', dict(inp, cells=cs[:i] + [dict(c, **{k: None})] + cs[i + 1:]), case.tags)
                for j in range(len(c['pts'])):
                    if len(c['pts']) > 1:
                        yield Case('caller', dict(inp, cells=cs[:i] + [dict(c, pts=c['pts'][:j] + c['pts'][j + 1:])] + cs[i + 1:]),
                                   case.tags)
        elif case.kind == 'caller':
            g = inp['groups']
            for i in range(len(g)):
                if len(g) > 1:
                    d = dict(inp, groups=g[:i] + g[i + 1:])
                    for k in ('rows', 'region_of'):
                        if k in inp:
                            d[k] = inp[k][:i] + inp[k][i + 1:]
                    yield Case('caller', d, case.tags)
            for i, grp in enumerate(g):
                for j in range(len(grp)):
                    if len(grp) > 1:
                        yield Case('caller', dict(inp, groups=g[:i] + [grp[:j] + grp[j + 1:]] + g[i + 1:]), case.tags)


CHECK = C09()
