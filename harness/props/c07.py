"""C07 — XML export is structurally valid PageXML and parses back to the same content.

Documents come from the C06 spec generator (restricted to the property's quantifier: text hierarchy,
XML-legal non-empty text without edge whitespace, coordinates on every element).  The real
`to_pagexml()` tree is walked with lxml into an abstract tree and compared with the model's export;
`to_pagexml(tostring=True)` is fed to `parse_pagexml_file` and the re-parsed scan is compared with
the exported document (oracle) and with what the model says the parser reads (correspondence).
Case kind `history` (wave 4): sequences of exports on ONE document, every product judged after the last one.
"""
from __future__ import annotations

import io
import contextlib
import random
from typing import Any, Dict, Iterable, List, Optional

from harness.core import Case, Check, Finding, OUTSIDE, REPO, err_name
from harness.props import c06 as G
from harness.props import c07_translate as T

# ---------------------------------------------------------------------------------------
# the oracle's own copy of the PAGE content model (pagecontent.xsd 2019-07-15: element -> allowed
# child elements), NOT taken from pagexml/model/xml.py
# ---------------------------------------------------------------------------------------
_REGIONS = ['TextRegion', 'ImageRegion', 'LineDrawingRegion', 'GraphicRegion', 'TableRegion', 'ChartRegion',
            'SeparatorRegion', 'MathsRegion', 'ChemRegion', 'MusicRegion', 'AdvertRegion', 'NoiseRegion',
            'UnknownRegion', 'CustomRegion', 'MapRegion']
_REGION_COMMON = ['AlternativeImage', 'Coords', 'UserDefined', 'Labels', 'Roles'] + _REGIONS
SCHEMA_CHILDREN = {
    'PcGts': ['Metadata', 'Page'],
    'Metadata': ['Creator', 'Created', 'LastChange', 'Comments', 'UserDefined', 'MetadataItem'],
    'Page': ['AlternativeImage', 'Border', 'PrintSpace', 'ReadingOrder', 'Layers', 'Relations', 'TextStyle',
             'UserDefined', 'Labels'] + _REGIONS,
    'ReadingOrder': ['OrderedGroup', 'UnorderedGroup'],
    'OrderedGroup': ['UserDefined', 'Labels', 'RegionRefIndexed', 'OrderedGroupIndexed', 'UnorderedGroupIndexed'],
    'TextRegion': _REGION_COMMON + ['TextLine', 'TextEquiv', 'TextStyle'],
    'TableRegion': _REGION_COMMON + ['Grid'],
    'TextLine': ['AlternativeImage', 'Coords', 'Baseline', 'Word', 'TextEquiv', 'TextStyle', 'UserDefined', 'Labels'],
    'Word': ['AlternativeImage', 'Coords', 'Glyph', 'TextEquiv', 'TextStyle', 'UserDefined', 'Labels'],
    'TextEquiv': ['PlainText', 'Unicode'],
    'Coords': [], 'Baseline': [], 'Unicode': [], 'PlainText': [], 'RegionRefIndexed': [], 'Creator': [], 'Created': [],
    'LastChange': [], 'Comments': [],
}
PAGE_NS_PREFIX = 'primaresearch.org/schema/PAGE/gts/pagecontent/'


def _quiet(f):
    buf = io.StringIO()
    with contextlib.redirect_stdout(buf):
        return f()


# ---------------------------------------------------------------------------------------
# lxml tree -> abstract tree
# ---------------------------------------------------------------------------------------

def walk(e) -> Dict[str, Any]:
    from lxml import etree
    q = etree.QName(e)
    return {'tag': q.localname, 'ns': q.namespace, 'attrs': [[k, v] for k, v in e.attrib.items()],
            'text': e.text if (e.text is not None and e.text.strip() != '') or len(e) == 0 and e.text else None,
            'children': [walk(c) for c in e if isinstance(c.tag, str)]}


def strip_ns(t):
    # an empty text and no text are the same XML (`<Unicode/>`)
    return {'tag': t['tag'], 'attrs': sorted(t['attrs']), 'text': t['text'] or None,
            'children': [strip_ns(c) for c in t['children']]}


def canon_tree(t):
    """strip_ns, and the children of every element grouped by tag (stable: children with the SAME tag keep their
    document order).  The statement asks for "a well-formed PcGts tree … in which every element appears only under
    parents the PAGE structure rules allow and carries its id" and for the content that parses back; it does not fix
    the position of, say, TextEquiv among the Word children of a TextLine, and the parser (xmltodict) reads children
    by name.  The order of regions / lines / words among themselves — which the statement does fix ("same region
    nesting", reading order) — is untouched."""
    kids = sorted((canon_tree(c) for c in t['children']), key=lambda c: c['tag'])
    return {'tag': t['tag'], 'attrs': sorted(t['attrs']), 'text': t['text'] or None, 'children': kids}


def canon_keys(v):
    """an xmltodict value in the wire form of _doc.real_todict ({'d': [[key, value], …]} for a dict): the keys of every
    dict sorted.  Their order only reflects which differently-named child came first (children with one name are
    collected in one list, in document order, whatever lies between them) — see canon_tree"""
    if isinstance(v, dict) and set(v) == {'d'}:
        return {'d': sorted(([k, canon_keys(x)] for k, x in v['d']), key=lambda kv: kv[0])}
    if isinstance(v, list):
        return [canon_keys(x) for x in v]
    return v


# ---------------------------------------------------------------------------------------
# extra rule-conforming children of Metadata
# ---------------------------------------------------------------------------------------
# The statement fixes of the exported tree: a well-formed PcGts in the PAGE namespace, "exactly one Metadata and one
# Page element, in which every element appears only under parents the PAGE structure rules allow and carries its id",
# and what the re-parse reproduces ("region nesting, ids, text, polygons, baselines, confidences, custom attributes,
# image size and reading order").  Nothing of that is produced from the CHILDREN of Metadata: which of the fields the
# structure rules allow there (Comments, UserDefined, MetadataItem …) an export writes is left free.  So the real tree
# is compared with the model's up to children of Metadata that the model does not write — but ONLY children the rule
# table of the code as it is NOW (regenerated by c07_translate on every run: the table the Lean theorems are checked
# against) allows under Metadata, and only there; the Metadata children the model writes stay compared exactly (count,
# order, text), and whether an extra child is allowed by the PAGE schema is still judged by the oracle on the real tree.
_META_ALLOWED: Dict[str, Any] = {}


def meta_allowed() -> List[str]:
    """the child tags is_valid_pagexml_sub_element allows under Metadata (regenerated from the working tree)"""
    if REPO not in _META_ALLOWED:
        try:
            _META_ALLOWED[REPO] = sorted(dict(T.extract(REPO)['childTable']).get('Metadata', []))
        except Exception:  # noqa  (source shape not understood: reported by the pipeline; nothing is left free then)
            _META_ALLOWED[REPO] = []
    return _META_ALLOWED[REPO]


def _meta_kids(t) -> List[Any]:
    if not isinstance(t, dict) or t.get('tag') != 'PcGts':
        return []
    return [k for c in t['children'] if c['tag'] == 'Metadata' for k in c['children']]


def extra_meta_tags(real_tree, model_tree) -> List[str]:
    """tags of the children of the real tree's Metadata that the model's Metadata has no child of and that the rule
    table allows under Metadata"""
    have = {k['tag'] for k in _meta_kids(model_tree)}
    ok = set(meta_allowed())
    return sorted({k['tag'] for k in _meta_kids(real_tree) if k['tag'] not in have and k['tag'] in ok})


def drop_meta_children(t, extra: List[str]):
    """the tree without the children of PcGts/Metadata whose tag is in `extra`"""
    if not extra or not isinstance(t, dict) or t.get('tag') != 'PcGts':
        return t
    return dict(t, children=[dict(c, children=[k for k in c['children'] if k['tag'] not in extra]) if c['tag'] == 'Metadata' else c
                             for c in t['children']])


def drop_meta_keys(v, extra: List[str]):
    """the same on an xmltodict value in wire form ({'d': [[key, value], …]}): the keys `extra` of PcGts/Metadata removed
    (a Metadata left without children reads as None, like <Metadata/>)"""
    if not extra:
        return v
    try:
        (k, root), = v['d']
        out = []
        for key, val in root['d']:
            if key == 'Metadata' and isinstance(val, dict) and set(val) == {'d'}:
                kept = [e for e in val['d'] if e[0] not in extra]
                val = {'d': kept} if kept else None
            out.append([key, val])
        return {'d': [[k, {'d': out}]]}
    except Exception:  # noqa
        return v


def all_elems(t, parent=None):
    yield parent, t
    for c in t['children']:
        yield from all_elems(c, t)


# ---------------------------------------------------------------------------------------
# content of a real document, as the property compares it
# ---------------------------------------------------------------------------------------

def _points(c):
    return [list(p) for p in c.points] if c is not None else None


def _conf(c):
    return None if c is None else float(c)


def _custom(doc):
    return G._pv(doc.metadata.get('custom_attributes') or [])


def c_word(w):
    # '' and None are the same text in XML (an empty Unicode element)
    return {'id': w.id, 'points': _points(w.coords), 'text': w.text or None, 'conf': _conf(w.conf), 'custom': _custom(w)}


def c_line(l):
    return {'id': l.id, 'points': _points(l.coords), 'baseline': _points(l.baseline), 'text': l.text or None, 'conf': _conf(l.conf),
            'custom': _custom(l), 'words': [c_word(w) for w in l.words]}


def c_region(r):
    return {'id': r.id, 'points': _points(r.coords), 'custom': _custom(r), 'lines': [c_line(l) for l in r.lines],
            'regions': [c_region(x) for x in r.text_regions]}


def _size(s):
    """the image size of a scan: the recorded one, else the extent of its coordinates"""
    w, h = s.metadata.get('scan_width'), s.metadata.get('scan_height')
    if s.coords is not None:
        xs, ys = [p[0] for p in s.coords.points], [p[1] for p in s.coords.points]
        w = w if w is not None else max(xs) - min(xs)
        h = h if h is not None else max(ys) - min(ys)
    return [w, h]


def c_scan(s):
    ro = s.reading_order or {}
    return {'id': s.id, 'size': _size(s), 'points': _points(s.coords),
            'reading_order': [[int(k), v] for k, v in ro.items()], 'regions': [c_region(r) for r in s.text_regions]}


def _parse_pts(s):
    return None if s is None else [[int(a) for a in p.split(',')] for p in s.split(' ')]


def node_to_content(n, kind):
    """the model's `Node` (strings, as read from the exported tree) converted the way the parser converts"""
    from pagexml.parser import parse_custom_attributes
    custom = G._pv(parse_custom_attributes(n['custom'])) if n['custom'] is not None else []
    base = {'id': n['id'], 'points': _parse_pts(n['points']), 'custom': custom}
    if kind == 'region':
        return dict(base, lines=[node_to_content(x, 'line') for x in n['lines']],
                    regions=[node_to_content(x, 'region') for x in n['regions']])
    conf = None if n['conf'] is None or n['conf'] == '' else float(n['conf'])
    if kind == 'line':
        return dict(base, baseline=_parse_pts(n['baseline']), text=n['text'] or None, conf=conf,
                    words=[node_to_content(x, 'word') for x in n['words']])
    return dict(base, text=n['text'] or None, conf=conf)


# ---------------------------------------------------------------------------------------
# generators: the C06 specs, restricted to the property's quantifier
# ---------------------------------------------------------------------------------------

class Gen7(G.Gen):
    def text(self, allow_none=True, allow_empty=False):
        r = self.rng
        if allow_none and r.random() < 0.2:
            return None
        alphabet = ['a', 'b', 'de', 'xyz', 'é', '&', '<', '>', '"', "'", 'ß', '1', '-', 'a&amp;b', ']]>', '中', '\U0001F600']
        return ' '.join(r.choice(alphabet) for _ in range(r.randint(1, 4)))

    def conf(self):
        r = self.rng
        x = r.random()
        if x < 0.35:
            return None
        if x < 0.5:
            return {'f': '0.0'}
        return {'f': repr(r.choice([0.5, 0.25, 0.987, 1.0, 0.1, 0.3333, r.random()]))}

    def meta(self):
        """API route: custom attributes typed the way the parser types them"""
        r = self.rng
        if self.xml or r.random() < 0.5:
            return None
        cs = []
        for c in (self.custom() or []):
            cs.append({'d': [[k, v] for k, v in list(c.items())[1:]] + [['tag_name', c['tag_name']]]})
        kvs = [['custom_attributes', cs]] if cs or r.random() < 0.3 else []
        if r.random() < 0.3:
            kvs.append(['note', 'v'])
        return {'d': kvs}

    def types(self):
        return None

    def orientation(self):
        x = self.rng.random()
        return None if x < 0.7 else ({'f': '0.0'} if x < 0.8 else {'f': repr(self.rng.choice([90.0, 180.0, 0.5, -90.0]))})

    def common(self, prefix, need_id=False, need_coords=False, id_none_p=0.15, coords_none_p=0.2):
        # every element has coordinates (mandatory in PAGE; the parser needs them on lines and words)
        return super().common(prefix, need_id=need_id, need_coords=True, id_none_p=id_none_p)

    def word(self):
        s = super().word()
        if s['text'] is None:
            s['conf'] = self.conf()       # a confidence without text is a document too
        return s

    def line(self, need_text=False, depth=0):
        s = super().line(need_text, depth)
        s.pop('ro', None)
        s.pop('roa', None)
        if s['text'] is None:
            s['conf'] = self.conf()
        return s

    def nid(self, p):
        # ids as real data has them: mostly letter-initial, but also UUIDs, numbers and date-like ids that begin with
        # a digit ("every element … carries its id", "the same … ids"): the statement does not restrict ids
        self.n += 1
        x = self.rng.random()
        if x < 0.8:
            return f'{p}{self.n}'
        return self.rng.choice([f'{self.n}', f'{self.n}{p}', f'8e6a7c1e-{self.n:04d}-4b', f'2024_{p}{self.n}'])

    def region(self, depth=0, allow_tables=False):
        s = super().region(depth, False)
        # a region's OWN text (its TextEquiv) is not among the things the statement says the re-parse reproduces for
        # regions ("lines with or without text"), and the export does not write it; it is kept on some regions so
        # that what the export does with such a region is exercised (nothing may appear that was not there), and is
        # not compared on the region itself
        if self.rng.random() >= 0.15:
            s.pop('text', None)
        s.pop('ro', None)
        return s

    def scan(self):
        s = super().scan()
        s['tables'] = []
        s['id'] = s['id'] or self.nid('s')
        if self.xml:
            s['size'] = [self.rng.choice([100, 2000, 3333]), self.rng.choice([100, 2500])]
        else:
            # the image: a box of positive width and height (an extent of 0 is written as size 0 = "unknown")
            w, h = self.rng.randint(1, 4000), self.rng.randint(1, 4000)
            s['coords'] = [[0, 0], [w, 0], [w, h], [0, h]] if self.rng.random() < 0.7 else \
                [[5, 7], [5 + w, 7 + h], [5, 7 + h]]
            s['orientation'] = None
            s['lines'], s['pages'], s['columns'] = [], [], []
        return s


# ---------------------------------------------------------------------------------------
# WAVE 4: export histories (used objects, repeated calls, all entry points of the export)
# ---------------------------------------------------------------------------------------

def _T(path):
    return {'path': path, 'string': False}


def _S(path):
    return {'path': path, 'string': True}


def export_paths(spec, route) -> List[List[Any]]:
    """the document itself ([]) and every region / line / word below it (each is an entry point of the export)"""
    return [[]] + [p for p in G.sub_paths(spec, route) if all(a in ('text_regions', 'lines', 'words') for a, _ in p)]


def _spec_at(spec, path):
    key = {'text_regions': 'regions', 'lines': 'lines', 'words': 'words'}
    for a, i in path:
        spec = spec[key[a]][i]
    return spec


def history_steps(rng: random.Random, paths: List[List[Any]]) -> List[Dict[str, Any]]:
    """one export history: the patterns a caller produces (keep the tree, export again as a string / export a part /
    export the part first / a part and a part of it …) and random sequences"""
    subs = paths[1:]
    root = paths[0]
    form = lambda p: _S(p) if rng.random() < 0.5 else _T(p)  # noqa
    pat = rng.choice(['tree-string', 'tree-tree', 'tree-sub', 'sub-tree', 'nested', 'string-tree-string', 'random', 'random'])
    if not subs and pat in ('tree-sub', 'sub-tree', 'nested'):
        pat = 'tree-string'
    if pat == 'tree-string':
        return [_T(root), _S(root)]
    if pat == 'tree-tree':
        return [_T(root), _T(root)]
    if pat == 'tree-sub':
        return [_T(root), form(rng.choice(subs))]
    if pat == 'sub-tree':
        return [_T(rng.choice(subs)), form(root)]
    if pat == 'nested':
        p = rng.choice(subs)
        inner = [q for q in subs if len(q) > len(p) and q[:len(p)] == p]
        q = rng.choice(inner) if inner else root
        pair = [_T(p), form(q)]
        if rng.random() < 0.5:
            pair = [_T(q), form(p)]
        return pair
    if pat == 'string-tree-string':
        return [_S(root), _T(root), _S(root)]
    steps = [form(rng.choice(paths if rng.random() < 0.6 else [root])) for _ in range(rng.randint(2, 5))]
    for _ in range(rng.choice([0, 1, 2])):
        # other read accesses of the library on the same objects between the exports
        p = rng.choice(paths)
        read = rng.choice(['json', 'stats', 'get_words', 'num_words'] + (['get_lines', 'get_inner_text_regions'] if not p or p[-1][0] == 'text_regions' else []))
        steps.insert(rng.randint(0, len(steps) - 1), {'path': p, 'string': False, 'read': read})
    return steps


def gen_shares(rng: random.Random, spec, route) -> List[Dict[str, Any]]:
    """objects shared between elements: one Baseline object on two lines, one Coords object on two elements, one line
    listed in two regions"""
    paths = export_paths(spec, route)
    lines = [p for p in paths if p and p[-1][0] == 'lines']
    regions = [p for p in paths if p and p[-1][0] == 'text_regions']
    based = [p for p in lines if _spec_at(spec, p).get('baseline')]
    out = []
    kinds = rng.sample(['baseline', 'coords', 'attach'], rng.choice([1, 1, 2]))
    for k in kinds:
        if k == 'baseline' and based and len(lines) >= 2:
            a = rng.choice(based)
            b = rng.choice([p for p in lines if p != a])
            out.append({'op': 'baseline', 'from': a, 'to': b})
        elif k == 'coords' and len(lines) >= 2:
            a, b = rng.sample(lines, 2)
            out.append({'op': 'coords', 'from': a, 'to': b})
        elif k == 'attach' and lines and len(regions) >= 2:
            l = rng.choice(lines)
            other = [r for r in regions if r != l[:-1] and r[:len(l)] != l]
            if other:
                out.append({'op': 'attach', 'line': l, 'to': rng.choice(other)})
    return out


def history_spec(xml: bool):
    """the fixed document of the exhaustive two-export histories: two regions, a nested region, lines with and without
    baseline, words"""
    L = lambda i, **k: dict({'cls': 'line', 'id': i, 'coords': G._P(0, 0, 90, 10), 'text': 'a b', 'conf': None, 'baseline': None,
                             'words': []}, **k)
    W = lambda i, **k: dict({'cls': 'word', 'id': i, 'coords': G._P(0, 0, 4, 4), 'text': 'a', 'conf': None}, **k)
    R = lambda i, **k: dict({'cls': 'text_region', 'id': i, 'coords': G._P(0, 0, 100, 50), 'lines': [], 'regions': []}, **k)
    spec = {'cls': 'scan', 'id': 'h1.jpg', 'coords': G._P(0, 0, 100, 200), 'size': [100, 200], 'tables': [],
            'regions': [R('r1', lines=[L('l1', baseline=[[0, 9], [40, 8], [90, 9]], words=[W('w1'), W('w2', text='b')]),
                                       L('l2', text=None)],
                          regions=[R('r3', lines=[L('l4', baseline=[[0, 45], [90, 46]])])]),
                        R('r2', lines=[L('l3', baseline=[[0, 30], [90, 30]], conf={'f': '0.5'})])]}
    if not xml:
        spec.update(lines=[], pages=[], columns=[], orientation=None)
    return spec


def corpus() -> List[Case]:
    L = lambda i, **k: dict({'cls': 'line', 'id': i, 'coords': G._P(), 'text': 'a b'}, **k)
    W = lambda i, **k: dict({'cls': 'word', 'id': i, 'coords': G._P(0, 0, 4, 4), 'text': 'a'}, **k)
    R = lambda i, **k: dict({'cls': 'text_region', 'id': i, 'coords': G._P()}, **k)
    out = []

    def add(spec, key=None, route='api', path=None, **extra):
        inp = dict({'spec': spec, 'route': route}, **extra)
        if path:
            inp['path'] = path
        out.append(Case('export', inp, ['corpus'] + ([f'key:{key}'] if key else [])))
    scan = lambda **k: dict({'cls': 'scan', 'id': 's1.jpg', 'coords': G._P(0, 0, 100, 200), 'size': [100, 200]}, **k)
    # fix 7f20f8d: text without confidence must not be written as conf="None"
    add(scan(regions=[R('r1', lines=[L('l1', conf=None, words=[W('w1', conf=None)])])]), 'C07:conf-none')
    add(scan(regions=[R('r1', lines=[L('l1', conf=None)])]), 'C07:conf-none', route='xml')
    # fix 49c5966: exporting a line / word on its own
    add(scan(regions=[R('r1', lines=[L('l1', words=[W('w1')])])]), None, route='xml', path=[['text_regions', 0], ['lines', 0]])
    add(scan(regions=[R('r1', lines=[L('l1', words=[W('w1')])])]), None, route='xml',
        path=[['text_regions', 0], ['lines', 0], ['words', 0]])
    add(scan(regions=[R('r1', lines=[L('l1')], regions=[R('r2', lines=[L('l2', baseline=[[0, 5], [10, 5]])])])]), None,
        route='xml', path=[['text_regions', 0]])
    add(scan(regions=[R('a'), R('b'), R('c')], ro=[[12, 'c'], [10, 'a'], [11, 'b']], roa={'d': [['id', 'og'], ['caption', 'c & d']]}),
        None, route='xml')
    add(scan(regions=[R('a', custom=[{'tag_name': 'structure', 'type': 'paragraph'}, {'tag_name': 'readingOrder', 'index': 3}],
                        lines=[L('l', custom=[{'tag_name': 'textStyle', 'offset': 0, 'length': 2, 'bold': 'true'}], conf={'f': '0.0'})])]),
        None, route='xml')
    add(scan(regions=[R('a', lines=[L('l', text='<&>"\' é 中 ]]>')])], xml_metadata={'Creator': 'x & y', 'Created': '2020-01-02T03:04:05'}),
        None, route='xml')
    add(scan(regions=[R('a', orientation={'f': '90.0'}, lines=[L(None, text=None, conf=None, baseline=None)])]), None, route='xml')
    # repaired by fix: commits 46e1b4d / b987ed0, kept as regression inputs
    add(scan(regions=[R('r1', lines=[L('l2', text=None, conf={'f': '0.7'})])]), 'C07:conf-without-text', route='xml')
    add(dict(scan(regions=[R('r1', lines=[L('l1')])]), size=[0, 200]), 'C07:image-size-missing', route='xml')
    return out


def _describe(doc) -> Dict[str, Any]:
    """what the oracle needs to know about an exported element, read BEFORE it is exported"""
    n = type(doc).__name__
    return {'cls': n,
            'content': (c_scan(doc) if n == 'PageXMLScan' else c_region(doc) if n == 'PageXMLTextRegion'
                        else c_line(doc) if n == 'PageXMLTextLine' else c_word(doc)),
            'ids': sorted(C07._ids(doc))}


def _read_back(out: Dict[str, Any], s: str) -> None:
    """the exported XML text read with xmltodict and with the real parser"""
    from harness.props import _doc as D
    out['xmltodict'] = D.real_todict(s)
    try:
        from pagexml.parser import parse_pagexml_file
        s2 = _quiet(lambda: parse_pagexml_file('reparsed.xml', pagexml_data=s))
        out['reparsed'] = c_scan(s2)
        out['reparsed_dump'] = D.dump_scan(s2)
    except Exception as e:  # noqa
        out['reparse_err'] = err_name(e)


def _follow(doc, path):
    for attr, idx in path:
        doc = getattr(doc, attr)[idx]
    return doc


def _share(root, sh) -> None:
    """objects shared between elements of one document (all reachable through the public API):
    baseline / coords: element `to` gets the very Baseline / Coords OBJECT of element `from`;
    attach: the line `line` is also listed in the region `to` (one line object in two containers)"""
    if sh['op'] in ('baseline', 'coords'):
        a, b = _follow(root, sh['from']), _follow(root, sh['to'])
        v = getattr(a, sh['op'])
        if v is None:
            raise ValueError('nothing to share')
        setattr(b, sh['op'], v)
    elif sh['op'] == 'attach':
        _follow(root, sh['to']).lines.append(_follow(root, sh['line']))
    else:
        raise ValueError(sh['op'])


class C07(Check):
    pid = 'C07'
    props_module = 'PagexmlModel.Props.C07'
    anchors = {
        'pagexml/model/xml.py': ['make_empty_pagexml', 'make_custom_string', 'make_pagexml_element', 'is_valid_element_name',
                                 'is_valid_pagexml_sub_element', 'is_pagexml_singleton_relation', 'add_pagexml_sub_element',
                                 'add_pagexml_coords', 'add_pagexml_baseline', 'add_pagexml_text', 'add_reading_order'],
        'pagexml/model/pagexml_document_model.py': [
            'PageXMLDoc.to_pagexml', 'PageXMLDoc.custom', 'get_doc_attributes', 'get_image_width', 'get_image_height',
            'PageXMLWord.add_to_pagexml', 'PageXMLWord._to_pagexml', 'PageXMLTextLine.add_to_pagexml',
            'PageXMLTextLine._to_pagexml', 'PageXMLTextRegion.add_to_pagexml', 'PageXMLTextRegion._to_pagexml',
            'PageXMLScan.add_to_pagexml', 'PageXMLTableRegion.add_to_pagexml'],
        'pagexml/parser.py': ['parse_pagexml_file', 'parse_pagexml_json', 'parse_textregion', 'parse_textregion_list',
                              'parse_textline', 'parse_textline_list', 'parse_line_words', 'parse_text_equiv', 'parse_conf',
                              'parse_coords', 'parse_baseline', 'parse_page_reading_order', 'parse_page_metadata',
                              'parse_page_image_size', 'parse_custom_metadata', 'parse_custom_attributes'],
    }
    level_note = (
        'proved (Lean; no bound on sizes, nesting depth or values; the structure rules validChild / singleton and the tag sets of '
        'Coords / Baseline / text are tables REGENERATED from pagexml/model/xml.py on every run, so the theorems are re-checked '
        'against the rules as they are now). FIRST HALF: C07_export_ok — for every scan / text region (nested) / line / word without '
        'table regions no structural guard of the export fires (export with all guards switched off is the same function); '
        'C07_wellformed — every exported tree is a PcGts root whose children are exactly one Metadata and one Page; C07_structure '
        '— in every exported tree (also with table regions) every parent/child pair satisfies is_valid_pagexml_sub_element, '
        'including the elements appended without a check (Coords, Baseline, TextEquiv, Unicode, PlainText, Metadata); '
        'C07_export_tree — the export of a text-hierarchy document in closed form: it succeeds exactly when expScan holds (ids None '
        'or str, custom attributes serialise, str() of confidences / truthy orientations modelled, metadata fields and reading-order '
        'references are strings) and then returns exactly the pure tree scanTree(asScan d) (a bare region / line / word is the scan '
        'holding just it, for a line inside the dummy region, for a word inside the dummy region and dummy line: C07_bare_wrappers); '
        'C07_content_carried / C07_ids_carried — for EVERY exported text-hierarchy document, reading the tree back (id, Coords and '
        'Baseline points, Unicode text, conf, custom string of every TextRegion / TextLine / Word at any depth, with the nesting) '
        'gives the document\'s regions / lines / words one for one in document order, in particular every element that corresponds '
        'to a document element with an id carries that id and no other element has one; the RegionRefIndexed entries are the '
        'reading order in order. SECOND HALF: C07_roundtrip — for every document of the property (rtDoc, a decidable predicate '
        'evaluated by the driver on every generated case: scan / nested regions / line / word, every region, line and word with '
        'coordinates, lines with or without text / baseline / confidence / words, ids strings or absent, confidences and truthy '
        'orientations float literals, serialisable custom attributes, reading order with string references, no tables) the export '
        'succeeds and the C01 parser model (parseScan = parse_pagexml_json + constructors) applied to the xmltodict value (toDict) '
        'of the exported tree returns, without raising, exactly contentScan: C07_same_content / C07_same_region / C07_same_line '
        'spell it out — scan id = imageFilename, image size, the regions with ids, polygons, lines (id, text as xmltodict strips it, '
        'polygon, baseline, confidence literal, words) nested as in the document and ordered by the re-parsed scan\'s constructor '
        '(orderRegions, C05), reading order entries and id/caption; C07_text_exact (text without edge whitespace comes back '
        'unchanged), C07_conf_exact, C07_roundtrip_no_order. Custom attributes: C07_custom_entry — the @custom entry of the dict '
        'the parser receives for every Word / TextLine / TextRegion is make_custom_string(custom); C07_custom_roundtrip — for '
        'custom attributes that are well-formed entries (C11.EntryOK: what every parse returns; dict shape pairs-then-tag_name) '
        'parse_custom_attributes (C11 model, any lawful character class) of that string gives the entries back — C07.customString '
        'and C11.makeCustomString are proved to be the same function there and the C11 round trip is reused (no hypothesis '
        'parameter). The C01 parser model does not carry custom attributes, so they are tied through these two theorems, not through '
        'parseScan. CONTRACT (not proved, compared on every case): lxml serialisation + expat re-read is the identity on the '
        'abstract tree up to the namespace declarations docX adds on the root and whitespace between elements — the harness compares '
        'the driver\'s tree with the real tree, toDict(docX tree) with xmltodict.parse(REAL string), parseScan of it with the REAL '
        'parse_pagexml_file(REAL string), the pure tree with the export, and parseScan with contentScan. The XML declaration and the '
        'namespace of every element are judged by the oracle on the real output. NOT proved: C07_export_tree / C07_content_carried '
        'for scans holding table regions (outside the property; the guard of add_pagexml_coords fires for a table with coordinates); '
        'that the generated API documents\' custom attributes satisfy C11.EntryOK (sampled: the real parse_custom_attributes on the '
        'exported string is compared with the document). Outside the quantifier (statement lists lines/words text): region-level '
        'text, xheight and a falsy orientation are not exported; table rows/cells are never exported. CORRESPONDENCE LEVEL: exported '
        'trees and xmltodict values are compared up to the order of sibling elements with DIFFERENT tags (same-tag siblings in '
        'order); an export / re-parse that raises is compared as raising-or-not; scans holding table regions are outside the '
        'quantifier (recorded only); extra scan.metadata keys of the re-parsed scan are ignored; children of the exported '
        'Metadata element that the model does not write are ignored when the REGENERATED rule table allows them under '
        'Metadata (the statement fixes one Metadata, one Page, parent/child validity and the re-parsed content, not which '
        'optional Metadata fields are written), together with the xmltodict keys / re-parsed metadata keys they produce; the '
        'Metadata children the model writes are compared exactly. WAVE 4 (case kind '
        '`history`): the model export is a pure function of the exported element, so ONE model answer per exported element must '
        'match EVERY export of it in a history; the harness keeps every product (lxml tree or string) of a sequence of '
        'to_pagexml() / to_pagexml(tostring=True) calls on the document and on its regions / lines / words (other read accesses — '
        'json, stats, traversals — in between), and judges all of them AFTER the last export (tree walked and serialised then, '
        'parsed back, compared with the content read before the first export), plus that the document itself is unchanged; '
        'families: every ordered pair of exports on a fixed document (7 entry points x tree/string, both routes), caller patterns '
        'and random sequences on generated documents, documents whose elements share one Baseline / Coords object or list one '
        'line in two regions, and lines without own text whose words have text crossed with the other optional features.')
    assumptions = [
        'generated documents: every element has coordinates (mandatory in PAGE; the parser needs them on lines and words); text '
        'is non-empty XML-legal without leading/trailing whitespace (xmltodict strips it: known finding C01:text-edge-whitespace); '
        'an empty text and no text are identified (both are <Unicode/>); scans have an id and an image of positive width and height; '
        'custom attributes are typed the way the parser types them; missing custom attributes ≡ []; confidences compared numerically',
        'abstract tree: local tag names (namespace checked separately on the real tree), attributes compared as a set, children '
        'with the same tag in document order, children with different tags in no particular order (canon_tree / canon_keys: the '
        'statement does not fix it and the parser reads children by name; the model keeps the order the code writes today); lxml '
        'keeps attribute / child insertion order; the serialised root carries xmlns, xmlns:xsi, '
        'xsi:schemaLocation in this order (docX; compared with xmltodict.parse of the real string on every case)',
        'str() of int/float/bool/None and of repr-literal floats mirrored by hand (pyStr)',
        'the parser is the C01 model (parseScan); its own tie to parser.py is C01\'s correspondence plus, here, the comparison of '
        'parseScan(toDict(docX tree)) with parse_pagexml_file on the real exported string on every case',
    ]
    nontrivial_rule = ('distinct case inputs; non-trivial = an export (or export history) of a document with at least one '
                       'line, or a tag pair')

    def __init__(self):
        self._abs: Dict[int, Any] = {}

    def translate(self):
        return {'PagexmlModel/Generated/C07.lean': T.generate(REPO)}

    # ---------------------------------------------------------------- generation
    def cases(self, rng: random.Random, tier: str) -> Iterable[Case]:
        out = corpus()
        # exhaustive: every pair of tags the export code knows, plus unknown tags
        try:
            valid = T.extract(REPO)['validTags']
        except Exception:      # source shape not understood: already reported as a broken translator by the pipeline;
            import pagexml.model.xml as _X     # the cases are still built (from the tags the module itself lists) so
            valid = sorted(_X.VALID_TAGS)      # that the failing-input search runs on the real code
        tags = list(valid) + ['Glyph', 'Foo', '']
        for p in tags:
            for c in tags:
                out.append(Case('rules', {'parent': p, 'child': c}, ['rules']))
        n = 300 if tier == 'quick' else 3000
        for i in range(n):
            xml = rng.random() < 0.5
            g = Gen7(rng, xml)
            if xml or rng.random() < 0.6:
                spec = g.scan()
            else:
                x = rng.random()
                spec = g.region(0) if x < 0.5 else g.line() if x < 0.8 else g.word()
            route = 'xml' if xml else 'api'
            out.append(Case('export', {'spec': spec, 'route': route}, [route, spec['cls']]))
            paths = [p for p in G.sub_paths(spec, route) if p[-1][0] in ('text_regions', 'lines', 'words')]
            if paths and rng.random() < 0.5:
                p = rng.choice(paths)
                out.append(Case('export', {'spec': spec, 'route': route, 'path': p}, [route, 'sub:' + p[-1][0]]))
            if not xml and rng.random() < 0.15:
                # a table region below a scan: outside the property, exported up to its own element (or TypeError)
                t = G.Gen(rng, False).table()
                if rng.random() < 0.5:
                    t['coords'] = None
                    for c in t['cells']:
                        c['lines'] = []
                s = Gen7(rng, False).scan()
                s['tables'] = [t]
                # ("all text-hierarchy documents …": a scan holding a table region is not one — mirrored, recorded only)
                out.append(Case('export-table', {'spec': s, 'route': 'api'}, ['api', 'table', OUTSIDE]))
        out.extend(self._history_cases(rng, tier))
        out.extend(self._metadata_cases(rng, tier))
        return out

    @staticmethod
    def _metadata_cases(rng: random.Random, tier: str) -> List[Case]:
        """API-built scans whose metadata holds PAGE Metadata fields (Creator / Created / LastChange / Comments) — the
        fields an export may write below Metadata.  Every fourth one holds a control character in one of these strings:
        such a string cannot be written into ANY XML document (lxml refuses it for Creator today, as it does for an id
        or a text), which is what the quantifier's "whose text consists of XML-legal characters" excludes — outside the
        quantifier, recorded only.  (Appended after all other cases: their random stream is untouched.)"""
        out: List[Case] = []
        legal = {'Creator': ['me', 'x & <y>', 'é 中 "q"'], 'Comments': ['c', 'a < b & c', 'two  words', 'é'],
                 'Created': ['2020-01-02T03:04:05'], 'LastChange': ['2021-03-04T05:06:07', '1577934245000']}
        for i in range(16 if tier == 'quick' else 160):
            spec = Gen7(rng, False).scan()
            fields = rng.sample(sorted(legal), rng.randint(1, 4))
            if i % 2 and 'Comments' not in fields:
                fields.append('Comments')
            kvs = [kv for kv in ((spec.get('meta') or {}).get('d') or [])] + [[f, rng.choice(legal[f])] for f in fields]
            tags = ['api', 'scan', 'page-metadata']
            if i % 4 == 3:
                f = rng.choice([x for x in fields if x in ('Creator', 'Comments')] or ['Comments'])
                kvs = [kv for kv in kvs if kv[0] != f] + [[f, rng.choice(['a\x00b', '\x0b', 'x\x1fy', '\x08 z'])]]
                tags += [OUTSIDE, 'xml-illegal-metadata']
            spec['meta'] = {'d': kvs}
            out.append(Case('export', {'spec': spec, 'route': 'api'}, tags))
        return out

    def _history_cases(self, rng: random.Random, tier: str) -> List[Case]:
        """WAVE 4.  pairs: on one fixed document EVERY ordered pair of exports (document / region / nested region / line /
        word x tree / string), both routes; history: generated documents with the caller patterns of history_steps and
        random sequences; shared: documents whose elements share a Baseline / Coords object or a line, exported once
        and in sequences; rare: lines WITHOUT own text whose words have text, crossed with the other optional features"""
        quick = tier == 'quick'
        out: List[Case] = []
        for xml in (True, False):
            spec, route = history_spec(xml), 'xml' if xml else 'api'
            targets = [[], [['text_regions', 0]], [['text_regions', 0], ['text_regions', 0]], [['text_regions', 0], ['lines', 0]],
                       [['text_regions', 0], ['lines', 0], ['words', 0]], [['text_regions', 1]],
                       [['text_regions', 0], ['text_regions', 0], ['lines', 0]]]
            forms = [_T(p) for p in targets] + [_S(p) for p in targets]
            for a in forms:
                for b in forms:
                    if quick and a['string'] and b['string'] and a['path'] != b['path']:
                        continue            # (two strings of different elements: kept for the thorough tier)
                    out.append(Case('history', {'spec': spec, 'route': route, 'steps': [a, b]}, ['history', 'pairs', route]))
            # the same lines sharing objects
            for share in ([{'op': 'baseline', 'from': [['text_regions', 0], ['lines', 0]], 'to': [['text_regions', 1], ['lines', 0]]}],
                          [{'op': 'baseline', 'from': [['text_regions', 0], ['lines', 0]], 'to': [['text_regions', 0], ['lines', 1]]}],
                          [{'op': 'coords', 'from': [['text_regions', 0], ['lines', 0]], 'to': [['text_regions', 1], ['lines', 0]]}],
                          [{'op': 'attach', 'line': [['text_regions', 0], ['lines', 0]], 'to': [['text_regions', 1]]}],
                          [{'op': 'attach', 'line': [['text_regions', 1], ['lines', 0]], 'to': [['text_regions', 0], ['text_regions', 0]]}]):
                for steps in ([_T([])], [_S([])], [_T([['text_regions', 0]]), _T([['text_regions', 1]])],
                              [_T([['text_regions', 1]]), _S([['text_regions', 0]])], [_T([]), _T([['text_regions', 1]]), _S([])],
                              [_T([['text_regions', 1], ['lines', 0]]), _T([['text_regions', 0], ['lines', 0]])]):
                    out.append(Case('history', {'spec': spec, 'route': route, 'steps': steps, 'share': share},
                                    ['history', 'shared', share[0]['op'], route]))
        n = 160 if quick else 1600
        for i in range(n):
            xml = rng.random() < 0.5
            g = Gen7(rng, xml)
            spec = g.scan()
            for _ in range(4):
                if any(l.get('baseline') for r in spec['regions'] for l in r['lines']):
                    break
                spec = g.scan()
            route = 'xml' if xml else 'api'
            if not xml and rng.random() < 0.2 and spec['regions']:
                spec = rng.choice(spec['regions'])          # an API-built region as the document
            paths = export_paths(spec, route)
            inp = {'spec': spec, 'route': route, 'steps': history_steps(rng, paths)}
            tags = ['history', route]
            if rng.random() < 0.3:
                sh = gen_shares(rng, spec, route)
                if sh:
                    inp['share'] = sh
                    tags += ['shared'] + [x['op'] for x in sh]
            out.append(Case('history', inp, tags))
        # rare shape: a line without text of its own whose words carry text (word-level recogniser output), crossed with
        # baseline / confidence / custom attributes of the line and words with / without text, single export and history
        for i in range(40 if quick else 400):
            xml = rng.random() < 0.5
            g = Gen7(rng, xml)
            spec = g.scan()
            if not spec['regions']:
                spec['regions'] = [g.region(0)]
            for r in spec['regions'][:2]:
                l = g.line()
                l['text'] = None
                l['conf'] = g.conf() if not xml or rng.random() < 0.5 else None
                l['words'] = [g.word() for _ in range(rng.choice([1, 2, 3]))]
                l['words'][0]['text'] = l['words'][0]['text'] or 'w'
                r['lines'] = r['lines'][:rng.choice([0, 1])] + [l] + r['lines'][1:]
            route = 'xml' if xml else 'api'
            out.append(Case('export', {'spec': spec, 'route': route}, [route, 'scan', 'wordonly-line']))
            if i % 2:
                out.append(Case('history', {'spec': spec, 'route': route, 'steps': history_steps(rng, export_paths(spec, route))},
                                ['history', route, 'wordonly-line']))
        return out

    # ---------------------------------------------------------------- implementation
    def impl(self, case: Case) -> Any:
        if case.kind == 'rules':
            import pagexml.model.xml as X
            p, c = X.PAGE + case.input['parent'], X.PAGE + case.input['child']

            def one(f):
                try:
                    return bool(f(p, c))
                except Exception as e:  # noqa
                    return err_name(e)
            return {'valid': one(X.is_valid_pagexml_sub_element), 'singleton': one(X.is_pagexml_singleton_relation)}
        if case.kind == 'history':
            return self._impl_history(case)
        try:
            doc = _quiet(lambda: G.build(case.input))
            a0 = G.abstract(doc)
        except Exception as e:  # noqa
            self._abs[id(case)] = None
            return {'unbuildable': err_name(e)}
        self._abs[id(case)] = a0
        out = _describe(doc)
        try:
            tree = _quiet(lambda: doc.to_pagexml())
        except Exception as e:  # noqa
            out['export_err'] = err_name(e)
            return out
        out['tree'] = walk(tree)
        try:
            s = _quiet(lambda: doc.to_pagexml(tostring=True))
            out['string_head'] = s[:40]
            from lxml import etree
            out['string_tree_same'] = strip_ns(walk(etree.fromstring(s.encode('utf-8')))) == strip_ns(out['tree'])
        except Exception as e:  # noqa
            out['string_err'] = err_name(e)
            return out
        _read_back(out, s)
        return out

    def _impl_history(self, case: Case) -> Any:
        """WAVE 4: an export HISTORY on one document.  The document is built once (optionally with objects shared
        between elements: one Baseline / Coords object on two lines, one line listed in two regions), every export of
        the sequence (of the document or of a sub-element; as a tree or as a string) is kept, and only AFTER the last
        export every product is looked at: walked, serialised if it is a tree, parsed back.  Each product must be the
        valid export of what was exported, whatever was exported after it."""
        from lxml import etree
        inp = case.input
        try:
            root = _quiet(lambda: G.build({'spec': inp['spec'], 'route': inp['route']}))
            for sh in inp.get('share', []):
                _share(root, sh)
            paths: List[Any] = []
            for st in inp['steps']:
                if st['path'] not in paths:
                    paths.append(st['path'])
            targets = [_follow(root, p) for p in paths]
            a0s = [G.abstract(t) for t in targets]
            bases = [_describe(t) for t in targets]
            before = G.abstract(root)
        except Exception as e:  # noqa
            self._abs[id(case)] = None
            return {'unbuildable': err_name(e)}
        self._abs[id(case)] = a0s
        products = []
        for st in inp['steps']:
            t = targets[paths.index(st['path'])]
            if st.get('read'):
                # another read access between the exports (JSON view, statistics, traversals): its answer is not the
                # subject here, only that the exports around it are still right
                try:
                    v = getattr(t, st['read'], None)
                    _quiet(lambda: v() if callable(v) else v)
                except Exception:  # noqa
                    pass
                products.append(('read', None))
                continue
            try:
                products.append(('ok', _quiet(lambda: t.to_pagexml(tostring=True) if st['string'] else t.to_pagexml())))
            except Exception as e:  # noqa
                products.append(('err', err_name(e)))
        try:
            after = G.abstract(root)
            changed = G._first_diff(G._canon_abs(before), G._canon_abs(after))
        except Exception as e:  # noqa
            changed = 'unreadable:' + err_name(e)
        steps = []
        for i, (st, (tag, prod)) in enumerate(zip(inp['steps'], products)):
            if tag == 'read':
                continue
            pi = paths.index(st['path'])
            o = dict(bases[pi], pi=pi, string=st['string'], i=i)
            if tag == 'err':
                o['export_err'] = prod
            elif st['string']:
                o['string_head'] = prod[:40]
                try:
                    o['tree'] = walk(etree.fromstring(prod.encode('utf-8')))
                    o['string_tree_same'] = True
                    _read_back(o, prod)
                except Exception as e:  # noqa
                    o['tree'] = None
                    o['string_err'] = 'not-xml:' + err_name(e)
            else:
                try:
                    o['tree'] = walk(prod)
                    s = etree.tostring(prod, pretty_print=True, encoding='UTF-8', xml_declaration=True).decode()
                    o['string_tree_same'] = strip_ns(walk(etree.fromstring(s.encode('utf-8')))) == strip_ns(o['tree'])
                    _read_back(o, s)
                except Exception as e:  # noqa
                    o.setdefault('tree', None)
                    o['string_err'] = 'tree-not-serialisable:' + err_name(e)
            steps.append(o)
        return {'steps': steps, 'changed': changed}

    @staticmethod
    def _ids(doc):
        n = type(doc).__name__
        tag = {'PageXMLTextRegion': 'TextRegion', 'PageXMLTextLine': 'TextLine', 'PageXMLWord': 'Word'}.get(n)
        if tag and isinstance(doc.id, str):
            yield [tag, doc.id]
        for attr in ('text_regions', 'lines', 'words'):
            if n == 'PageXMLScan' and attr == 'lines':
                continue
            for c in getattr(doc, attr, None) or []:
                yield from C07._ids(c)

    # ---------------------------------------------------------------- model
    def requests(self, case: Case):
        if case.kind == 'rules':
            return [{'p': 'C07', 'op': 'valid_child', 'args': case.input}]
        a0 = self._abs.get(id(case))
        if not a0:
            return []
        if case.kind == 'history':
            # the model's export is a pure function of the exported element: ONE answer per exported element, which
            # every export of that element in the history has to match, whatever was exported before or after it
            return [{'p': 'C07', 'op': 'export', 'args': {'doc': a}} for a in a0]
        return [{'p': 'C07', 'op': 'export', 'args': {'doc': a0}}]

    def compare(self, case, out, model_out):
        if not model_out:
            return None
        m = model_out[0]
        if case.kind == 'rules':
            # a rule function that rejects a pair (unknown element name) is compared as raising-or-not
            rz = lambda d: {k: ('raises' if isinstance(v, str) else v) for k, v in d.items()} if isinstance(d, dict) else d
            return None if rz(m.get('ok')) == rz(out) else f'impl={out} model={m}'
        if case.kind == 'history':
            if 'steps' not in out:
                return None
            for st in out['steps']:
                i = st['i']
                if st.get('tree') is None and 'export_err' not in st:
                    return f'export {i} of the history: the product is no XML tree ({st.get("string_err")}), the model exports'
                d = self._compare_export('export', st, model_out[st['pi']])
                if d is not None:
                    return f'export {i} of the history ({"string" if st["string"] else "tree"} of element {st["pi"]}): {d}'
            return None
        return self._compare_export(case.kind, out, m)

    def _compare_export(self, kind: str, out, m):
        if 'export_err' in out:
            # (no exception class is stated: an export that raises is compared as raising-or-not)
            return None if 'err' in m else f'impl raises {out["export_err"]}, model {str(m)[:300]}'
        if 'ok' not in m:
            return f'impl exports, model {m}'
        mo = m['ok']
        # (extra rule-conforming children of Metadata are left free by the statement: see extra_meta_tags)
        extra = extra_meta_tags(out['tree'], mo['tree'])
        d = G._first_diff(canon_tree(drop_meta_children(out['tree'], extra)), canon_tree(mo['tree']))
        if d is not None:
            return f'exported tree differs at {d}'
        if out['tree']['ns'] != mo['ns']:
            return f'namespace: impl {out["tree"]["ns"]} model {mo["ns"]}'
        # the tie of the second half: the driver's tree as the parser's XML reader sees it (docX), its xmltodict
        # value (toDict) and the C01 parser on it, against xmltodict.parse / parse_pagexml_file on the REAL string
        from harness.props import _doc as D
        if 'xmltodict' in out:
            real = out['xmltodict']
            if 'ok' not in real:
                return f'xmltodict.parse on the exported string: {real}'
            d = D.first_diff(canon_keys(_canon_root(drop_meta_keys(real['ok'], extra))), canon_keys(_canon_root(mo['dict'])))
            if d is not None:
                return f'xmltodict.parse(exported string) differs from toDict of the model tree at {d}'
        mp = mo['parsed']
        if 'hull' not in mp:
            if 'reparse_err' in out:
                if 'err' not in mp:
                    return f'parse_pagexml_file raises {out["reparse_err"]}, model parser on the model tree: {str(mp)[:200]}'
            elif 'reparsed_dump' in out:
                if 'ok' not in mp:
                    return f'parse_pagexml_file succeeds, model parser on the model tree: {mp}'
                # (as in the C01 correspondence: extra scan.metadata keys ignored, a falsy reading order is one value)
                # … and the metadata keys that the parser carries over from those extra Metadata children of the
                # exported file: the statement's list of what the re-parse reproduces does not contain them
                rd = out['reparsed_dump']
                if extra:
                    rd = dict(rd, metadata=[kv for kv in rd.get('metadata') or [] if kv[0] not in extra])
                d = D.scan_diff({'ok': rd}, {'ok': D.norm_scan(mp['ok'])})
                if d is not None:
                    return f'parse_pagexml_file(exported string) differs from parseScan(toDict(model tree)) at {d}'
        # instances of the theorems: C07_export_tree (the export is the pure tree) and C07_roundtrip
        if mo['exp'] and G._first_diff(mo['tree'], mo['pure_tree']) is not None:
            return f'model: export differs from scanTree at {G._first_diff(mo["tree"], mo["pure_tree"])}'
        if kind == 'export' and not mo['rt']:
            return 'model: a generated document of the property is outside rtDoc (the quantifier of C07_roundtrip)'
        if mo['rt']:
            if 'ok' not in mp:
                return f'model: document in the quantifier (rtDoc) but parseScan gives {mp}'
            d = D.first_diff(mp['ok'], mo['content'])
            if d is not None:
                return f'model: parseScan(toDict(export)) differs from contentScan at {d}'
        # the model's reading of its own export equals the content read from the document …
        if kind == 'export' and out['cls'] in ('PageXMLScan', 'PageXMLTextRegion'):
            d = G._first_diff(mo['doc_regions'], mo['read_regions'])
            if d is not None:
                return f'model: content read from the export differs from the document at {d}'
        # … and is what the real parser makes of the real export
        if 'reparsed' in out:
            want = [node_to_content(n, 'region') for n in mo['read_regions']]
            got = [dict(r) for r in out['reparsed']['regions']]
            d = G._first_diff(G._canon_abs(want), G._canon_abs(got))
            if d is not None:
                return f'what the parser reads (model) differs from the re-parsed scan at {d}'
            ro = [[int(i), r] for i, r in mo['read_order']]
            if ro != out['reparsed']['reading_order'] and out['reparsed']['reading_order']:
                return f'reading order read by the model {ro} vs parser {out["reparsed"]["reading_order"]}'
        return None

    # ---------------------------------------------------------------- oracle
    def oracle(self, case: Case, out: Any) -> List[Finding]:
        # (an output of the real code that cannot even be read by the judgement is an outcome to report, not a crash)
        try:
            return self._oracle(case, out)
        except Exception as e:  # noqa
            return [Finding('C07:answer-shape', f'the export products cannot be judged: {type(e).__name__}: {e}', case, _strip(out))]

    def _oracle(self, case: Case, out: Any) -> List[Finding]:
        fs: List[Finding] = []
        if case.kind not in ('export', 'history') or 'unbuildable' in out or OUTSIDE in case.tags:
            return fs
        forced = [t[4:] for t in case.tags if t.startswith('key:')]

        def bad(key, what):
            fs.append(Finding(forced[0] if forced else f'C07:{key}', what, case, _strip(out)))
        if case.kind == 'history':
            # every product of the history, looked at after the LAST export, is judged like a single export …
            for st in out['steps']:
                i = st['i']
                form = 'string' if st['string'] else 'tree'
                self._judge_export(st, lambda key, what, i=i, form=form, st=st: bad(
                    f'history:{form}:{key}', f'export {i} of the history {self._history_text(case)} (the {form} of the '
                                             f'{st["cls"]} at {case.input["steps"][i]["path"]}), judged after the last export: {what}'))
            # … and exporting is a read access: the document is what it was
            if out['changed'] is not None:
                bad('history:document-changed', f'after the exports {self._history_text(case)} the document differs at {out["changed"]}')
            return fs
        self._judge_export(out, bad)
        return fs

    @staticmethod
    def _history_text(case: Case) -> str:
        return '[' + ', '.join(((st['read'] + ' of ') if st.get('read') else 'str ' if st['string'] else 'tree ') +
                               ('/'.join(f'{a}[{i}]' for a, i in st['path']) or 'document') for st in case.input['steps']) + ']'

    @staticmethod
    def _judge_export(out: Any, bad) -> None:
        """the statement judged on ONE export product (tree as walked, string head, what the parser reads back)"""
        if 'export_err' in out:
            bad('export-raises:' + out['export_err'], f'to_pagexml() of a {out["cls"]} raises {out["export_err"]}')
            return
        t = out['tree']
        if t is None:
            bad('string-raises:' + out.get('string_err', '?'), f'the export product is not a well-formed XML document: {out.get("string_err")}')
            return
        # well-formed PcGts tree in the PAGE namespace, one Metadata, one Page
        if t['tag'] != 'PcGts' or not t['ns'] or PAGE_NS_PREFIX not in t['ns']:
            bad('root', f'root is {{{t["ns"]}}}{t["tag"]}')
        for parent, e in all_elems(t):
            if e['ns'] != t['ns']:
                bad('namespace', f'element {e["tag"]} is in namespace {e["ns"]}')
                break
        for tag in ('Metadata', 'Page'):
            n = sum(1 for c in t['children'] if c['tag'] == tag)
            if n != 1:
                bad('count:' + tag, f'{n} {tag} elements below PcGts')
        # every element only under parents the PAGE content model allows
        for parent, e in all_elems(t):
            if parent is None:
                continue
            allowed = SCHEMA_CHILDREN.get(parent['tag'])
            if allowed is None or e['tag'] not in allowed:
                bad(f'structure:{parent["tag"]}>{e["tag"]}', f'{e["tag"]} below {parent["tag"]} is not allowed by the PAGE schema')
        # ids carried
        have = {(e['tag'], dict(e['attrs']).get('id')) for _, e in all_elems(t)}
        for tag, i in out['ids']:
            if (tag, i) not in have:
                bad('id-missing', f'{tag} {i!r} of the document has no element with that id')
        # complete XML document
        if 'string_err' in out:
            bad('string-raises:' + out['string_err'], 'to_pagexml(tostring=True) raises')
            return
        if 'string_head' in out and not out['string_head'].startswith('<?xml'):
            bad('no-declaration', f'string form starts with {out["string_head"]!r}')
        if not out.get('string_tree_same'):
            bad('string-differs', 'the string form does not parse to the tree to_pagexml() returns')
        # parse back
        if 'reparse_err' in out:
            bad('reparse-raises:' + out['reparse_err'], f'parse_pagexml_file on the exported XML raises {out["reparse_err"]}')
            return
        got = out['reparsed']
        want = out['content']
        if out['cls'] == 'PageXMLScan':
            cmp = [('regions', want['regions'], got['regions']), ('reading_order', want['reading_order'], got['reading_order']),
                   ('image-size', want['size'], got['size']), ('id', want['id'], got['id'])]
        elif out['cls'] == 'PageXMLTextRegion':
            cmp = [('regions', [want], got['regions'])]
        elif out['cls'] == 'PageXMLTextLine':
            cmp = [('lines', [want], [l for r in got['regions'] for l in r['lines']])]
        else:
            cmp = [('words', [want], [w for r in got['regions'] for l in r['lines'] for w in l['words']])]
        for name, a, b in cmp:
            d = G._first_diff(G._canon_abs(a), G._canon_abs(b))
            if d is not None:
                bad(f'content:{G._diff_key(d) if G._diff_key(d) != "root" else name}',
                    f'{name}: the re-parsed scan differs from the exported document at {d}')

    def nontrivial(self, case: Case) -> bool:
        if case.kind == 'rules':
            return True
        s = case.input['spec']
        return bool(s.get('regions') or s.get('lines') or s.get('words'))

    def shrink_candidates(self, case: Case):
        if case.kind == 'rules':
            return []
        if case.kind == 'history':
            return self._shrink_history(case)
        return G.CHECK.shrink_candidates(case)

    @staticmethod
    def _shrink_history(case: Case):
        inp = case.input
        steps, share = inp['steps'], inp.get('share', [])
        for i in range(len(steps)):
            if len(steps) > 1:
                yield Case('history', dict(inp, steps=steps[:i] + steps[i + 1:]), case.tags)
        for i in range(len(share)):
            yield Case('history', dict(inp, share=share[:i] + share[i + 1:]), case.tags)
        # a smaller document: only parts that no step / share path runs through can go (a variant that cuts a path is
        # unbuildable and therefore rejected by the minimiser)
        used = [st['path'] for st in steps] + [p for sh in share for k, p in sh.items() if k != 'op']
        key = {'text_regions': 'regions', 'lines': 'lines', 'words': 'words'}

        def cuts(spec, prefix):
            for attr, k in key.items():
                kids = spec.get(k) or []
                for i in range(len(kids) - 1, -1, -1):
                    here = prefix + [[attr, i]]
                    # removable: no used path goes through this child or through a later sibling (indices would shift)
                    if not any(len(u) >= len(here) and u[:len(prefix)] == prefix and u[len(prefix)][0] == attr and u[len(prefix)][1] >= i
                               for u in used):
                        yield dict(spec, **{k: kids[:i] + kids[i + 1:]})
                for i, c in enumerate(kids):
                    for v in cuts(c, prefix + [[attr, i]]):
                        yield dict(spec, **{k: kids[:i] + [v] + kids[i + 1:]})
            for k in ('custom', 'meta', 'ro', 'roa', 'orientation', 'conf', 'xml_metadata'):
                if spec.get(k) is not None:
                    yield dict(spec, **{k: None})
        for v in cuts(inp['spec'], []):
            yield Case('history', dict(inp, spec=v), case.tags)


def _canon_root(v):
    """the namespace declarations / xsi attributes of the root are not read by the parser: compared as a set"""
    try:
        (k, root), = v['d']
        attrs = sorted([e for e in root['d'] if e[0].startswith('@')], key=lambda e: e[0])
        rest = [e for e in root['d'] if not e[0].startswith('@')]
        return {'d': [[k, {'d': attrs + rest}]]}
    except Exception:  # noqa
        return v


def _strip(out):
    if not isinstance(out, dict):
        return out
    if 'steps' in out:
        return dict(out, steps=[{k: v for k, v in st.items() if k not in ('tree', 'xmltodict', 'reparsed_dump')} for st in out['steps']])
    return {k: v for k, v in out.items() if k not in ('tree',)}


CHECK = C07()
