"""Shared by the C01 / C05 / C08 checks: typed source documents (the JSON form of the Lean
`SrcPage`), their rendering as element trees and XML text, generators, the adapter that runs
the real `parse_pagexml_file` and dumps the scan canonically, the hull table handed to the
model driver, and tree mutations for the malformed stream.

Nothing in here knows what the model answers: the correspondence is `DocCheck.compare`."""
from __future__ import annotations

import copy
import json
import random
from typing import Any, Dict, Iterable, List, Optional, Tuple

from harness.core import Case, Check, Finding, OUTSIDE, call, canon, short

NS13 = 'http://schema.primaresearch.org/PAGE/gts/pagecontent/2013-07-15'
NS19 = 'http://schema.primaresearch.org/PAGE/gts/pagecontent/2019-07-15'

# ---------------------------------------------------------------------------------------
# rendering: source JSON -> element tree (t, a, x, c) -> XML text
# `canonical=True` is, node for node, the Lean `renderDoc`; otherwise attribute order and
# the interleaving of children are shuffled in the ways the parser must not depend on
# ---------------------------------------------------------------------------------------


def E(t, a=None, x='', c=None):
    return {'t': t, 'a': [list(kv) for kv in (a or [])], 'x': x, 'c': list(c or [])}


def opt_attr(k, v):
    return [] if v is None else [(k, v)]


def points_str(ps):
    return ' '.join(f'{x},{y}' for x, y in ps)


def r_points(tag, ps):
    return E(tag, [('points', points_str(ps))])


def r_te(te):
    kids = []
    if te['plain'] is not None:
        kids.append(E('PlainText', x=te['plain']))
    kids.append(E('Unicode', x=te['unicode']))
    return E('TextEquiv', opt_attr('conf', te['conf']), c=kids)


def r_word(w):
    kids = [r_points('Coords', w['coords'])] + ([r_te(w['te'])] if w['te'] is not None else [])
    return E('Word', opt_attr('id', w['id']) + opt_attr('custom', w['custom']), c=kids)


def r_line(l):
    kids = [r_points('Coords', l['coords'])]
    if l['baseline'] is not None:
        kids.append(r_points('Baseline', l['baseline']))
    kids += [r_word(w) for w in l['words']]
    if l['te'] is not None:
        kids.append(r_te(l['te']))
    attrs = opt_attr('id', l['id']) + opt_attr('custom', l['custom']) + opt_attr(
        'xheight', None if l['xheight'] is None else str(l['xheight']))
    return E('TextLine', attrs, c=kids)


def r_region(r):
    kids = []
    if r['coords'] is not None:
        kids.append(r_points('Coords', r['coords']))
    ls = [r_line(l) for l in r['lines']]
    ss = [r_region(s) for s in r['subs']]
    kids += (ls + ss) if r['lines_first'] else (ss + ls)
    if r['te'] is not None:
        kids.append(r_te(r['te']))
    attrs = opt_attr('id', r['id']) + opt_attr('orientation', r['orientation']) + opt_attr('custom', r['custom'])
    return E('TextRegion', attrs, c=kids)


def r_cell(c):
    attrs = [('id', c['id']), ('row', str(c['row'])), ('col', str(c['col']))]
    attrs += opt_attr('rowSpan', None if c['row_span'] is None else str(c['row_span']))
    attrs += opt_attr('cellSpan', None if c['col_span'] is None else str(c['col_span']))
    attrs += opt_attr('header', c['header']) + opt_attr('orientation', c['orientation']) + opt_attr('custom', c['custom'])
    kids = [r_points('Coords', c['coords'])] + [r_line(l) for l in c['lines']]
    if c['corner'] is not None:
        kids.append(E('CornerPts', x=c['corner']))
    return E('TableCell', attrs, c=kids)


def r_table(t):
    kids = ([r_points('Coords', t['coords'])] if t['coords'] is not None else []) + [r_cell(c) for c in t['cells']]
    attrs = opt_attr('id', t['id']) + opt_attr('orientation', t['orientation']) + opt_attr('custom', t['custom'])
    return E('TableRegion', attrs, c=kids)


def r_meta(m):
    kids = []
    for tag, k in (('Creator', 'creator'), ('Created', 'created'), ('LastChange', 'last_change'), ('Comments', 'comments')):
        if m[k] is not None:
            kids.append(E(tag, x=m[k]))
    return E('Metadata', c=kids)


def r_ro(ro):
    if ro['kind'] == 'absent':
        return []
    if ro['kind'] == 'empty':
        return [E('ReadingOrder')]
    if ro['kind'] == 'ordered':
        refs = [E('RegionRefIndexed', [('index', str(i)), ('regionRef', r)]) for i, r in ro['refs']]
        return [E('ReadingOrder', c=[E('OrderedGroup', [('id', ro['id'])] + opt_attr('caption', ro.get('caption')), c=refs)])]
    refs = [E('RegionRef', [('regionRef', r)]) for r in ro['refs']]
    return [E('ReadingOrder', c=[E('UnorderedGroup', [('id', ro['id'])], c=refs)])]


def r_doc(p):
    attrs = opt_attr('imageFilename', p['image_filename']) + [('imageWidth', str(p['width'])), ('imageHeight', str(p['height']))]
    kids = (r_ro(p['ro']) if p['ro_first'] else []) + [r_region(r) for r in p['regions']] + \
        [r_table(t) for t in p['tables']] + ([] if p['ro_first'] else r_ro(p['ro']))
    page = E('Page', attrs, c=kids)
    return E('PcGts', [('xmlns', NS19 if p['ns2019'] else NS13)],
             c=([r_meta(p['meta'])] if p['meta'] is not None else []) + [page])


def shuffle_tree(tree, rng: random.Random):
    """a tree the parser must read identically: attribute order shuffled, children of different
    tags interleaved (the relative order within one tag, and which of TextLine / TextRegion
    comes first inside a region, are kept)"""
    t = copy.deepcopy(tree)

    def first_idx(kids, tag):
        for i, k in enumerate(kids):
            if k['t'] == tag:
                return i
        return None

    def go(n):
        rng.shuffle(n['a'])
        for k in n['c']:
            go(k)
        kids = n['c']
        if len(kids) > 1 and rng.random() < 0.6:
            groups: Dict[str, List] = {}
            for k in kids:
                groups.setdefault(k['t'], []).append(k)
            order = []
            pools = {t: list(v) for t, v in groups.items()}
            while pools:
                tag = rng.choice(sorted(pools))
                order.append(pools[tag].pop(0))
                if not pools[tag]:
                    del pools[tag]
            if n['t'] == 'TextRegion':
                a0, b0 = first_idx(kids, 'TextLine'), first_idx(kids, 'TextRegion')
                a1, b1 = first_idx(order, 'TextLine'), first_idx(order, 'TextRegion')
                if a0 is not None and b0 is not None and ((a0 < b0) != (a1 < b1)):
                    return
            n['c'] = order
    go(t)
    if rng.random() < 0.5:
        t['a'] += [['xmlns:xsi', 'http://www.w3.org/2001/XMLSchema-instance'],
                   ['xsi:schemaLocation', t['a'][0][1] + ' ' + t['a'][0][1] + '/pagecontent.xsd']]
        rng.shuffle(t['a'])
    return t


def esc_text(s: str) -> str:
    return s.replace('&', '&amp;').replace('<', '&lt;').replace('>', '&gt;').replace('\r', '&#13;')


def esc_attr(s: str) -> str:
    return (s.replace('&', '&amp;').replace('<', '&lt;').replace('>', '&gt;').replace('"', '&quot;')
            .replace('\t', '&#9;').replace('\n', '&#10;').replace('\r', '&#13;'))


def serialise(tree, pretty: Optional[random.Random] = None) -> str:
    """XML text of a tree; with `pretty`, random white space between the children of container
    elements (never inside an element that carries text)"""
    out = ['<?xml version="1.0" encoding="UTF-8"?>']

    def ws():
        return pretty.choice(['', '\n', '\n  ', ' ', '\t', '\n\n    ']) if pretty else ''

    def go(n):
        out.append('<' + n['t'] + ''.join(f' {k}="{esc_attr(v)}"' for k, v in n['a']))
        if not n['c'] and n['x'] == '':
            out.append('/>' if (pretty is None or pretty.random() < 0.7) else f'></{n["t"]}>')
            return
        out.append('>')
        out.append(esc_text(n['x']))
        for k in n['c']:
            if n['x'] == '':
                out.append(ws())
            go(k)
        if n['c'] and n['x'] == '':
            out.append(ws())
        out.append(f'</{n["t"]}>')
    go(tree)
    return ''.join(out)


# ---------------------------------------------------------------------------------------
# tree mutations (malformed stream)
# ---------------------------------------------------------------------------------------

MUT_VALUES = ['', 'abc', '12', '-3', '1.5', '0', ' 7 ', '1,2', '1,2 3,x', '1,2 3,4 5,6', '4,4 4,4', 'x,y', '1e3', '+.5', 'nan']
PROTECTED_TAGS = {'Created', 'LastChange'}


def node_at(tree, path):
    n = tree
    for i in path:
        n = n['c'][i]
    return n


def all_paths(tree):
    out = []

    def go(n, p):
        out.append(p)
        for i, k in enumerate(n['c']):
            go(k, p + [i])
    go(tree, [])
    return out


def random_mutation(tree, rng: random.Random) -> Optional[Dict[str, Any]]:
    paths = [p for p in all_paths(tree) if len(p) >= 1]
    for _ in range(20):
        p = rng.choice(paths)
        n = node_at(tree, p)
        ops = ['del_node', 'empty']
        attrs = [k for k, _ in n['a'] if k not in ('custom', 'xmlns')]
        if attrs:
            ops += ['del_attr', 'set_attr', 'set_attr']
        if n['x'] != '' and n['t'] not in PROTECTED_TAGS:
            ops += ['set_text']
        if n['t'] in ('TextLine', 'TextRegion', 'Word', 'TableCell', 'TextEquiv', 'Unicode', 'RegionRefIndexed'):
            ops += ['dup_node']
        op = rng.choice(ops)
        if op in ('del_attr', 'set_attr'):
            return {'op': op, 'path': p, 'name': rng.choice(attrs), 'value': rng.choice(MUT_VALUES)}
        if op == 'set_text':
            return {'op': op, 'path': p, 'value': rng.choice(MUT_VALUES + ['TextEquiv', 'Coords @id'])}
        if n['t'] in PROTECTED_TAGS:
            continue
        return {'op': op, 'path': p}
    return None


def apply_mutation(tree, m):
    t = copy.deepcopy(tree)
    path = m['path']
    parent = node_at(t, path[:-1])
    n = parent['c'][path[-1]]
    if m['op'] == 'del_node':
        del parent['c'][path[-1]]
    elif m['op'] == 'dup_node':
        parent['c'].insert(path[-1] + 1, copy.deepcopy(n))
    elif m['op'] == 'empty':
        n['a'], n['c'], n['x'] = [], [], ''
    elif m['op'] == 'del_attr':
        n['a'] = [kv for kv in n['a'] if kv[0] != m['name']]
    elif m['op'] == 'set_attr':
        n['a'] = [[k, (m['value'] if k == m['name'] else v)] for k, v in n['a']]
    elif m['op'] == 'set_text':
        n['x'] = m['value']
    return t


# ---------------------------------------------------------------------------------------
# is a (mutated) tree still a document of the quantifiers?  C01 speaks of "any conformant PageXML document … made of
# Page / ReadingOrder / TextRegion / TextLine / Word / TextEquiv / Coords / Baseline … with every optional attribute or
# child independently present or absent", C05 of "regions with distinct ids and … reading-order groups listing each
# region at most once", C08 of TableRegions whose cells have row and column indices.  A mutated tree that breaks one of
# the rules below is outside all three quantifiers: the model still mirrors the code on it, but nothing is claimed
# (tag core.OUTSIDE).  The list is deliberately SHORT: only what the PAGE schema makes mandatory / typed and the
# generators of conformant documents never violate (checked on every run: a generated 'doc' case that fails it would
# itself be tagged).  Anything not listed counts as conformant and stays compared exactly.
# ---------------------------------------------------------------------------------------

import re as _re

_POINTS_RE = _re.compile(r'-?[0-9]+,-?[0-9]+( -?[0-9]+,-?[0-9]+)*')
_MANDATORY_ATTRS = {'Page': ['imageWidth', 'imageHeight'], 'Coords': ['points'], 'Baseline': ['points'],
                    'RegionRefIndexed': ['index', 'regionRef'], 'RegionRef': ['regionRef'], 'OrderedGroup': ['id'],
                    'UnorderedGroup': ['id'], 'TableCell': ['row', 'col']}
_EXACTLY_ONE = {'PcGts': ['Page'], 'TextLine': ['Coords'], 'Word': ['Coords'], 'TableCell': ['Coords'], 'TextEquiv': ['Unicode']}
_AT_MOST_ONE = {'PcGts': ['Metadata'], 'Page': ['ReadingOrder'], 'TextRegion': ['Coords'], 'TableRegion': ['Coords'],
                'TextLine': ['Baseline'], 'TextEquiv': ['PlainText'], 'ReadingOrder': ['OrderedGroup', 'UnorderedGroup']}
_INT_ATTRS = {'imageWidth', 'imageHeight', 'xheight', 'index', 'row', 'col', 'rowSpan', 'cellSpan'}
_FLOAT_ATTRS = {'orientation', 'conf'}
_WITH_ID = ('TextRegion', 'TextLine', 'Word', 'TableRegion', 'TableCell')


def nonconformant(tree) -> Optional[str]:
    """None, or the first rule of the PAGE structure the tree breaks"""
    ids: List[str] = []

    def ok_num(v, conv):
        try:
            conv(v)
            return True
        except ValueError:
            return False

    def go(n) -> Optional[str]:
        t, attrs = n['t'], dict(map(tuple, n['a']))
        for k in _MANDATORY_ATTRS.get(t, []):
            if k not in attrs:
                return f'{t} without @{k}'
        for k, v in attrs.items():
            if k == 'points' and not _POINTS_RE.fullmatch(v):
                return f'{t}/@points {v!r} is not a list of integer pairs'
            if k in _INT_ATTRS and not ok_num(v, int):
                return f'{t}/@{k} {v!r} is not an integer'
            if k in _FLOAT_ATTRS and v != '' and not ok_num(v, float):
                return f'{t}/@{k} {v!r} is not a number'
        if t in _WITH_ID and 'id' in attrs:
            if attrs['id'] in ids:
                return f'id {attrs["id"]!r} occurs twice'
            ids.append(attrs['id'])
        kids = [k['t'] for k in n['c']]
        for k in _EXACTLY_ONE.get(t, []):
            if kids.count(k) != 1:
                return f'{t} with {kids.count(k)} {k} children'
        for k in _AT_MOST_ONE.get(t, []):
            if kids.count(k) > 1:
                return f'{t} with {kids.count(k)} {k} children'
        if t in ('OrderedGroup', 'UnorderedGroup'):
            refs = [dict(map(tuple, k['a'])).get('regionRef') for k in n['c']]
            if len(set(refs)) != len(refs):
                return f'{t} lists a region twice'
        for k in n['c']:
            r = go(k)
            if r:
                return r
        return None
    if tree['t'] != 'PcGts':
        return 'root is not PcGts'
    return go(tree)


def mark_nonconformant(cases: List[Case]) -> List[Case]:
    """tag the mutated documents that are no longer documents of the quantifier (see above)"""
    for c in cases:
        if c.kind == 'mut' and OUTSIDE not in c.tags:
            why = nonconformant(apply_mutation(r_doc(c.input['src']), c.input['mut']))
            if why:
                c.tags += [OUTSIDE, 'nonconformant']
    return cases


# ---------------------------------------------------------------------------------------
# hull table: the answers of the real hull routine (C09's contract) for the point sets the
# parser derives coordinates from, computed from the tree independently of the parse
# ---------------------------------------------------------------------------------------

def hull_real(pts: List[List[int]]) -> Dict[str, Any]:
    """the library's answer for more than two points (Qhull, or the extremes of collinear points)"""
    from types import SimpleNamespace
    from pagexml.model.coords import coords_list_to_hull_coords
    o = call(lambda: [[int(p[0]), int(p[1])] for p in
                      coords_list_to_hull_coords([SimpleNamespace(points=[tuple(p) for p in pts])]).points])
    if 'ok' in o:
        return o
    return {'err': o['err'] if o['err'] in ('QhullError', 'IndexError', 'ValueError') else 'QhullError'}


def _pts_of_attr(s: Optional[str]):
    """points of a Coords element as the parser would read them; None if absent/empty/unreadable"""
    if s is None or s == '':
        return None
    try:
        pts = [tok.split(',') for tok in s.split(' ')]
        pts = [[int(t[0]), int(t[1])] for t in pts if len(t) == 2]
        return pts or None
    except ValueError:
        return None


def _coords_child(n):
    for k in n['c']:
        if k['t'] == 'Coords':
            return _pts_of_attr(dict(map(tuple, k['a'])).get('points'))
    return None


def hull_table(tree) -> List[List[Any]]:
    table: List[List[Any]] = []
    seen = set()

    def need(pts):
        if len(pts) > 2:
            key = json.dumps(pts)
            if key not in seen:
                seen.add(key)
                table.append([pts, hull_real(pts)])
                return table[-1][1]
            return next(o for i, o in table if i == pts)
        return {'ok': pts}

    def region(n) -> Optional[List[List[int]]]:
        """coordinates the parser ends up with for this TextRegion element (None: none):
        its own Coords, else the hull of its sub-regions (first) and lines that have coordinates"""
        coords = _coords_child(n)
        subs = [region(x) for x in n['c'] if x['t'] == 'TextRegion']
        lines = [_coords_child(x) for x in n['c'] if x['t'] == 'TextLine']
        if coords is None:
            located = [c for c in subs + lines if c is not None]
            if located:
                r = need([p for c in located for p in c])
                coords = r.get('ok') or None
        return coords

    def _has_text(n):
        """does the parser find a region text (TextEquiv / Unicode, else PlainText)?"""
        for k in n['c']:
            if k['t'] == 'TextEquiv':
                for tag in ('Unicode', 'PlainText'):
                    us = [u for u in k['c'] if u['t'] == tag]
                    if us:
                        return len(us) > 1 or bool(us[0]['a']) or us[0]['x'].strip() != ''
                return (not k['c']) and (not k['a']) and k['x'].strip() != ''
        return False

    def table_region(n):
        rows: Dict[Any, List] = {}
        for k in n['c']:
            if k['t'] == 'TableCell':
                a = dict(map(tuple, k['a']))
                try:
                    row = int(a['row']) if 'row' in a else None
                except ValueError:
                    return
                rows.setdefault(row, []).append(_coords_child(k))
        for cs in rows.values():
            if all(c is not None for c in cs):
                need([p for c in cs for p in c])

    def walk(n):
        if n['t'] == 'TextRegion':
            region(n)
            return
        if n['t'] == 'TableRegion':
            table_region(n)
            return
        for k in n['c']:
            walk(k)
    walk(tree)
    return table


# ---------------------------------------------------------------------------------------
# the real code: parse and dump
# ---------------------------------------------------------------------------------------

def _coords(c):
    return None if c is None else [[int(p[0]), int(p[1])] for p in c.points]


def _txt(t):
    return t if (t is None or isinstance(t, str)) else {'other': True}


def _flt(v):
    return None if v is None else repr(float(v))


def dump_word(w):
    return {'id': w.id, 'text': w.text, 'coords': _coords(w.coords), 'conf': w.conf}


def dump_line(l):
    return {'id': l.id, 'text': _txt(l.text), 'coords': _coords(l.coords), 'baseline': _coords(l.baseline),
            'conf': _flt(l.conf), 'xheight': l.xheight, 'words': [dump_word(w) for w in l.words]}


def dump_region(r):
    return {'id': r.id, 'orientation': _flt(r.orientation), 'coords': _coords(r.coords), 'text': _txt(r.text),
            'lines': [dump_line(l) for l in r.lines], 'regions': [dump_region(s) for s in r.text_regions]}


def dump_cell(c):
    cp = c.cornerpoints
    return {'id': c.id, 'row': c.row, 'col': c.col, 'row_span': c.row_span, 'cell_span': c.cell_span,
            'header': c.header, 'orientation': _flt(c.orientation), 'coords': _coords(c.coords),
            'corner': (list(cp) if isinstance(cp, tuple) else cp), 'lines': [dump_line(l) for l in c.lines],
            'value': c.value}


def dump_item(c):
    return {'id': c.id, 'row': c.row, 'col': c.col, 'value': c.value, 'lines': [l.id for l in c.lines]}


def dump_table(t):
    shape = call(lambda: list(t.shape))
    r, c = shape['ok'] if 'ok' in shape else (0, 0)
    items = []
    for i in range(r):
        row = []
        for j in range(c):
            o = call(lambda: dump_item(t[i][j]))
            row.append(o['ok'] if 'ok' in o else o)
        items.append(row)
    stats = call(lambda: dict(t.stats))
    return {'id': t.id, 'orientation': _flt(t.orientation), 'coords': _coords(t.coords),
            'rows': [{'id': row.id, 'coords': _coords(row.coords), 'cells': [dump_cell(c) for c in row.cells],
                      'column_cells': [None if c is None else c.id for c in row.column_cells],
                      'row_idx': row.row_idx} for row in t.rows],
            'shape': shape['ok'] if 'ok' in shape else shape,
            'values': call(lambda: [list(v) for v in t.values]).get('ok', {'err': 'values'}),
            'stats': stats['ok'] if 'ok' in stats else stats, 'items': items}


def _meta_val(k, v):
    if k in ('Created', 'LastChange'):
        return {'date': True}
    if isinstance(v, bool) or not isinstance(v, (int, str)):
        return {'other': True}
    if isinstance(v, int):
        return {'int': v}
    return v


def dump_scan(scan) -> Dict[str, Any]:
    ro = scan.reading_order
    return {
        'id': scan.id, 'coords': _coords(scan.coords),
        'metadata': sorted([[k, _meta_val(k, v)] for k, v in scan.metadata.items()], key=lambda kv: kv[0]),
        'regions': [dump_region(r) for r in scan.text_regions],
        'tables': [dump_table(t) for t in scan.table_regions],
        'reading_order': None if ro is None else [[i, r] for i, r in ro.items()],
        'ro_attrs': [[k, v] for k, v in (scan.reading_order_attributes or {}).items()],
        'lines': [l.id for l in scan.get_lines()],
        'regions_in_ro': [r.id for r in scan.get_text_regions_in_reading_order()],
    }


def dump_extra(scan) -> Dict[str, Any]:
    """observations judged by the oracles only (not produced by the model)"""
    def ev(f):
        o = call(f)
        return o['ok'] if 'ok' in o else o
    out = {'created': scan.metadata.get('Created'), 'last_change': scan.metadata.get('LastChange'),
           'creator': scan.metadata.get('Creator'), 'comments': scan.metadata.get('Comments'),
           'scan_stats': ev(lambda: dict(scan.stats)),
           'word_ids': ev(lambda: [getattr(w, 'id', w) for w in scan.get_words()])}
    if scan.table_regions:
        def trip():
            from pagexml.parser import parse_pagexml_from_json
            back = parse_pagexml_from_json(json.dumps(scan.json))
            return [{'shape': list(t.shape), 'values': [list(v) for v in t.values]} for t in back.table_regions]
        out['json_trip_tables'] = ev(trip)
    return out


def real_parse(xml: str, fname: str) -> Dict[str, Any]:
    from pagexml.parser import parse_pagexml_file

    def f():
        scan = parse_pagexml_file(fname, pagexml_data=xml)
        return {'scan': dump_scan(scan), 'extra': dump_extra(scan)}
    return call(f)


def real_todict(xml: str) -> Any:
    import xmltodict

    def conv(v):
        if isinstance(v, dict):
            return {'d': [[k, conv(x)] for k, x in v.items()]}
        if isinstance(v, list):
            return [conv(x) for x in v]
        return v
    o = call(lambda: conv(xmltodict.parse(xml)))
    return o


# ---------------------------------------------------------------------------------------
# normalising the model's answer to the dump format
# ---------------------------------------------------------------------------------------

def _nf(v):
    return None if v is None else repr(float(v))


def norm_line(l):
    return dict(l, conf=_nf(l['conf']))


def norm_region(r):
    return dict(r, orientation=_nf(r['orientation']), lines=[norm_line(l) for l in r['lines']],
                regions=[norm_region(s) for s in r['regions']])


def norm_cell(c):
    return dict(c, orientation=_nf(c['orientation']), lines=[norm_line(l) for l in c['lines']])


def norm_table(t):
    return dict(t, orientation=_nf(t['orientation']),
                rows=[dict(r, cells=[norm_cell(c) for c in r['cells']]) for r in t['rows']])


def norm_scan(s):
    md = sorted([[k, ({'date': True} if isinstance(v, dict) and 'date' in v else v)] for k, v in s['metadata']],
                key=lambda kv: kv[0])
    return dict(s, metadata=md, regions=[norm_region(r) for r in s['regions']],
                tables=[norm_table(t) for t in s['tables']])


def norm_answer(a):
    if 'ok' in a:
        return {'ok': norm_scan(a['ok'])}
    return a


# child elements of the PAGE Metadata element (2013-07-15 and 2019-07-15 schemas): the keys of scan.metadata under
# which "the Metadata fields are carried over"
PAGE_META_TAGS = ('Creator', 'Created', 'LastChange', 'Comments', 'UserDefined', 'MetadataItem')


def scan_diff(real, model) -> Optional[str]:
    """the real parse ({'ok': dump_scan} | {'err': class}) against a model answer of the same shape, compared at the
    level the statements of C01 / C05 / C08 observe:
      * raising: the statements only speak of raising-or-not ("No conformant document makes the parser raise"; C05 / C08
        name no exception at all), so two rejections agree whatever their classes; a rejection against an acceptance
        differs as before;
      * scan.metadata: C01 lists what must be there ("the scan's id and size come from …", "the Metadata fields are
        carried over") but not that the dictionary holds nothing else: every key the model has must be present with
        the same value, and keys only the code has are ignored — EXCEPT the keys that are child element names of the
        PAGE Metadata element (PAGE_META_TAGS): "the Metadata fields are carried over" is about the fields of THIS
        file, so those keys must be exactly the ones the model has (a Created / Comments / … the file does not
        contain, e.g. left over from a document parsed earlier, is a difference); an extra non-PAGE key such as
        `image_filename` stays free;
      * scan.reading_order: C05 only says when the order is used and when "document order is kept"; whether an unused
        order is kept as None or as an empty dict is observable through truthiness only (every reader tests
        `if reading_order`): falsy values are one value.  "Entries that reference unknown ids are ignored": whether
        such an entry stays in the dict is not stated either, so only the entries of delivered regions are compared
        (index and id, in dict order).
    Everything else (ids, texts, points, confidences, orders, tables, the lines and regions delivered) exactly."""
    if 'err' in real and 'err' in model:
        return None
    if 'ok' in real and 'ok' in model:
        r, m = dict(real['ok']), dict(model['ok'])
        keys = {kv[0] for kv in m.get('metadata') or []} | set(PAGE_META_TAGS)
        r['metadata'] = [kv for kv in r.get('metadata') or [] if kv[0] in keys]
        for x in (r, m):
            known = {reg.get('id') for reg in x.get('regions') or []}
            x['reading_order'] = [e for e in x.get('reading_order') or [] if e[1] in known] or None
        real, model = {'ok': r}, {'ok': m}
    return first_diff(real, model, 'scan')


def first_diff(a, b, path='') -> Optional[str]:
    if type(a) != type(b):
        return f'{path}: {short(a, 120)} != {short(b, 120)}'
    if isinstance(a, dict):
        for k in sorted(set(a) | set(b)):
            if k not in a or k not in b:
                return f'{path}.{k}: missing on one side'
            d = first_diff(a[k], b[k], f'{path}.{k}')
            if d:
                return d
        return None
    if isinstance(a, list):
        if len(a) != len(b):
            return f'{path}: length {len(a)} != {len(b)}'
        for i, (x, y) in enumerate(zip(a, b)):
            d = first_diff(x, y, f'{path}[{i}]')
            if d:
                return d
        return None
    return None if a == b else f'{path}: {short(a, 120)} != {short(b, 120)}'


# ---------------------------------------------------------------------------------------
# generators
# ---------------------------------------------------------------------------------------

ALPHA = list('abcdefgXYZ0189') + list('-_.;:{}()\'') + list('&<>"') + list('éßñ漢字Ω') + ['😀', '𝔘', 'é', '‍']
INNER_WS = [' ', ' ', ' ', '\xa0', ' ', '\t', '\n', '  ']
EDGE_WS = [' ', '  ', '\t', '\n', '\xa0', ' ', '　', ' \n ', '\x85', ' ']
CONFS = ['0.5', '0.93', '1', '0', '1e-3', '+.5', '5.', '1_0.5', '1E2', ' 0.25', '0.1 ', '0.30000000000000004', 'inf', '-0.0']
CUSTOMS = ['readingOrder {index:3;}', 'structure {type:paragraph;}', 'readingOrder {index:0;} structure {type:header;}',
           'textStyle {offset:0; length:3; fontSize:12.5;}']
DATES = ['2020-01-02T03:04:05', '2019-12-31T23:59:59.250000', '2021-06-01T10:00:00+02:00', '2018-03-04T05:06:07Z',
         '1600000000000', '1500000000123', '2020-01-02', '2 January 2020 13:45']


def is_space(ch: str) -> bool:
    return ch.isspace()


class Gen:
    def __init__(self, rng: random.Random):
        self.rng = rng
        self.n = 0

    def uid(self, prefix):
        self.n += 1
        rng = self.rng
        tail = rng.choice(['', '', '', '-é', '&x', ' <a>', '"q"', '漢', '😀']) if rng.random() < 0.3 else ''
        if rng.random() < 0.1:      # ids that begin with a digit (UUIDs, plain numbers), as real data has them
            return rng.choice([f'{self.n}', f'8e6a7c1e-{self.n:04d}-4b', f'{self.n}{prefix}']) + tail
        return f'{prefix}{self.n}{tail}'

    def word(self):
        rng = self.rng
        return ''.join(rng.choice(ALPHA) for _ in range(rng.randint(1, 6)))

    def text(self, allow_empty=True):
        """text without leading/trailing white space (interior white space of all kinds allowed)"""
        rng = self.rng
        if allow_empty and rng.random() < 0.06:
            return ''
        toks = [self.word() for _ in range(rng.randint(1, 4))]
        s = toks[0]
        for t in toks[1:]:
            s += rng.choice(INNER_WS) + t
        return s

    def edge_text(self):
        rng = self.rng
        k = rng.random()
        if k < 0.2:
            return rng.choice(EDGE_WS)
        core = self.text(allow_empty=False)
        if k < 0.5:
            return rng.choice(EDGE_WS) + core
        if k < 0.8:
            return core + rng.choice(EDGE_WS)
        return rng.choice(EDGE_WS) + core + rng.choice(EDGE_WS)

    def rect(self, big=False):
        rng = self.rng
        m = 10 ** 12 if big else 3000
        x, y = rng.randint(0, m), rng.randint(0, m)
        w, h = rng.randint(1, 400), rng.randint(1, 120)
        pts = [[x, y], [x + w, y], [x + w, y + h], [x, y + h]]
        if rng.random() < 0.3:      # extra boundary / interior points, repeated points
            pts.insert(rng.randrange(len(pts)), [x + rng.randint(0, w), y + rng.randint(0, h)])
        if rng.random() < 0.2:
            rng.shuffle(pts)
        return pts

    def polyline(self):
        rng = self.rng
        n = rng.choice([1, 2, 2, 3, 5])
        x, y = rng.randint(0, 3000), rng.randint(0, 3000)
        pts = [[x + 40 * i + rng.randint(0, 20), y + rng.randint(-3, 3) * (rng.random() < 0.7)] for i in range(n)]
        # "the same … baseline points … as in the file": the order of the points is the file's — a line of a
        # right-to-left script (or on a page scanned upside down) runs from right to left, a vertical one keeps its x
        k = rng.random()
        if k < 0.2:
            pts.reverse()
        elif k < 0.25:
            rng.shuffle(pts)
        elif k < 0.3:
            pts = [[x, y + 40 * i] for i in range(n)]
        return pts

    def te(self, edge=False, need_text=False):
        rng = self.rng
        uni = self.edge_text() if edge else self.text(allow_empty=not need_text)
        return {'conf': rng.choice(CONFS) if rng.random() < 0.5 else ('' if rng.random() < 0.05 else None),
                'plain': (self.text() if rng.random() < 0.2 else None), 'unicode': uni}

    def mkword(self, edge=False):
        rng = self.rng
        return {'id': self.uid('w') if rng.random() < 0.8 else None,
                'custom': rng.choice(CUSTOMS) if rng.random() < 0.1 else None,
                'coords': self.rect() if rng.random() < 0.8 else self.polyline(),
                'te': self.te(edge) if rng.random() < 0.8 else None}

    def line(self, edge=False, need_text=False, proper=True):
        rng = self.rng
        nw = rng.choice([0, 0, 1, 1, 2, 3])
        return {'id': self.uid('l') if rng.random() < 0.85 else None,
                'custom': rng.choice(CUSTOMS) if rng.random() < 0.15 else None,
                'xheight': rng.choice([None, None, None, 12, 30, 0, -2]),
                'coords': self.rect(big=rng.random() < 0.03) if (proper or rng.random() < 0.7) else self.polyline(),
                'baseline': self.polyline() if rng.random() < 0.6 else None,
                'te': self.te(edge, need_text) if (need_text or rng.random() < 0.85) else None,
                'words': [self.mkword(edge and rng.random() < 0.5) for _ in range(nw)]}

    def region(self, depth: int, edge=False):
        rng = self.rng
        has_coords = rng.random() < 0.65
        nl = rng.choice([0, 1, 1, 2, 3])
        ns = rng.choice([0, 0, 1, 1, 2, 3]) if depth > 0 else 0
        r = {'id': self.uid('r') if rng.random() < 0.9 else None,
             # PAGE: -179.999 … 180 degrees; the boundary values included
             'orientation': rng.choice(['0.0', '90', '-1.5', '1e1', '180', '180.0', '-179.999', '-90', '179.5'])
             if rng.random() < 0.25 else None,
             'custom': rng.choice(CUSTOMS) if rng.random() < 0.2 else None,
             'coords': self.rect() if has_coords else None,
             'te': self.te(edge) if rng.random() < 0.25 else None,
             'lines_first': rng.random() < 0.5,
             'lines': [self.line(edge and rng.random() < 0.5, proper=not has_coords) for _ in range(nl)],
             'subs': [self.region(depth - 1, edge) for _ in range(ns)]}
        return r

    def conformant_region(self, depth: int, edge=False):
        return self.region(depth, edge)

    def cell(self, row, col, nlines=None, sparse_attrs=True):
        rng = self.rng
        nl = rng.choice([0, 1, 1, 2, 3]) if nlines is None else nlines
        return {'id': self.uid('c'), 'row': row, 'col': col,
                'row_span': rng.choice([None, None, 1, 2]), 'col_span': rng.choice([None, None, 1, 3]),
                'header': rng.choice([None, None, 'true', 'false']),
                'orientation': rng.choice([None, None, None, '0.0', '90']),
                'custom': None, 'coords': self.rect(),
                'corner': rng.choice([None, None, '0 1 2 3', '3 2 1 0', '0 1 2', 'a b c d', '10  20\n30 40', '1 2 3 4 5']),
                'lines': [self.line(need_text=True) for _ in range(nl)]}

    def table(self, r=None, c=None, mask=None):
        rng = self.rng
        r = r or rng.choice([1, 1, 2, 3, 4, 6])
        c = c or rng.choice([1, 1, 2, 3, 4, 6])
        full = rng.randrange(r)
        cells = []
        for i in range(r):
            for j in range(c):
                present = mask[i][j] if mask is not None else (i == full or rng.random() < 0.7)
                if present:
                    cells.append(self.cell(i, j))
        # row indices need not start at 0 or be contiguous
        if rng.random() < 0.2:
            off = rng.randint(1, 5)
            for cell in cells:
                cell['row'] = cell['row'] * 2 + off
        return {'id': self.uid('t') if rng.random() < 0.9 else None,
                'orientation': rng.choice([None, None, '0.0', '45']), 'custom': None,
                'coords': self.rect() if rng.random() < 0.8 else None, 'cells': cells}

    def meta(self):
        rng = self.rng
        if rng.random() < 0.15:
            return None
        return {'creator': rng.choice([None, 'Transkribus', 'prov=Loghi; v1.2', '12345', self.text()]),
                'created': rng.choice([None] + DATES), 'last_change': rng.choice([None] + DATES),
                'comments': rng.choice([None, None, '', self.text()])}

    def ro_for(self, regions, kind=None):
        rng = self.rng
        ids = [r['id'] for r in regions if r['id'] is not None]
        kind = kind or rng.choice(['absent', 'absent', 'full', 'full', 'partial', 'dangling', 'unordered', 'empty', 'emptygroup'])
        if kind == 'absent':
            return {'kind': 'absent'}
        if kind == 'empty':
            return {'kind': 'empty'}
        if kind == 'unordered':
            return {'kind': 'unordered', 'id': self.uid('ug'), 'refs': rng.sample(ids, len(ids))}
        cap = rng.choice([None, 'Regions reading order', 'x & y'])
        if kind == 'emptygroup' or not ids:
            return {'kind': 'ordered', 'id': self.uid('og'), 'caption': cap, 'refs': []}
        idx = self.indices(len(ids) + 2)
        perm = rng.sample(ids, len(ids))
        refs = [[idx[i], rid] for i, rid in enumerate(perm)]
        if kind == 'partial' and len(refs) > 1:
            del refs[rng.randrange(len(refs))]
        if kind == 'dangling':
            refs.insert(rng.randrange(len(refs) + 1), [idx[len(ids)], 'no-such-region'])
            if rng.random() < 0.5:
                refs.insert(rng.randrange(len(refs) + 1), [idx[len(ids) + 1], 'ghost'])
        rng.shuffle(refs)
        return {'kind': 'ordered', 'id': self.uid('og'), 'caption': cap, 'refs': refs}

    def indices(self, n):
        """n distinct indices: contiguous, or sparse multi-digit ones where lexical != numeric"""
        rng = self.rng
        if rng.random() < 0.4:
            return list(range(n))
        pool = [0, 1, 2, 3, 9, 10, 11, 19, 20, 99, 100, 101, 1000, 5, 50, 500, -1, -10, 10 ** 20]
        return sorted(rng.sample(pool, n))

    def page(self, depth=2, nregions=None, ntables=0, edge=False, ro_kind=None):
        rng = self.rng
        nr = rng.choice([0, 1, 1, 2, 3, 4]) if nregions is None else nregions
        regions = [self.conformant_region(rng.randint(0, depth), edge) for _ in range(nr)]
        zero = rng.random() < 0.04
        return {'ns2019': rng.random() < 0.5, 'meta': self.meta(),
                'image_filename': rng.choice([None, 'scan_001.jpg', 'NL-HaNA_1.01.02_3780_0016.jpg', 'a&b <1>.tif', 'é 漢.png',
                                             # the attribute is an xsd:string: relative paths and URLs are conformant
                                             'images/batch-07/scan_0001.jpg', 'https://example.org/iiif/3/ab%2Fcd/full/max/0/default.jpg',
                                             '../scans/0001.tif', 'dir\\file name.jpg']),
                'width': 0 if zero else rng.choice([1, 100, 2480, 10 ** 9]),
                'height': 0 if (zero and rng.random() < 0.5) else rng.choice([1, 200, 3508, 10 ** 9]),
                'ro_first': rng.random() < 0.5, 'ro': self.ro_for(regions, ro_kind),
                'regions': regions, 'tables': [self.table() for _ in range(ntables)]}


# ---- classification of regions ---------------------------------------------------------------

def region_state(r) -> str:
    """'skipped' | 'located' | 'unlocated' (kept, but without coordinates)"""
    subs = [region_state(s) for s in r['subs']]
    if r['coords'] or r['lines'] or 'located' in subs:
        return 'located'
    text = r['te'] is not None and r['te']['unicode'].strip() != ''
    if text or 'unlocated' in subs:
        return 'unlocated'
    return 'skipped'


def is_bare(r) -> bool:
    return (r['id'] is None and r['orientation'] is None and r['custom'] is None and r['coords'] is None
            and r['te'] is None and not r['lines'] and not r['subs'])


def has_bare(r) -> bool:
    return is_bare(r) or any(has_bare(s) for s in r['subs'])


def has_unlocated_first(r) -> bool:
    """a region without Coords and without lines whose sub-regions are all skipped or without
    coordinates (the class of the former finding C01:coordless-region-unlocated-subregions)"""
    own = (not r['coords'] and bool(r['subs']) and not r['lines']
           and all(region_state(s) != 'located' for s in r['subs']))
    return own or any(has_unlocated_first(s) for s in r['subs'])


def fix_regions(regions, gen: 'Gen'):
    """kept for callers that want every region located: give unlocated ones Coords"""
    for r in regions:
        fix_regions(r['subs'], gen)
        if region_state(r) != 'located':
            r['coords'] = gen.rect()


def page_class(p) -> List[str]:
    out = []
    if any(has_bare(r) for r in p['regions']):
        out.append('bare')
    if any(has_unlocated_first(r) for r in p['regions']):
        out.append('unlocated')
    return out


# ---------------------------------------------------------------------------------------
# the base check
# ---------------------------------------------------------------------------------------

class DocCheck(Check):
    """cases: kind 'doc' (source page, rendered canonically and shuffled) and 'mut' (a mutated tree)"""
    model_pid = 'C01'

    def trees(self, case: Case):
        inp = case.input
        canonical = r_doc(inp['src'])
        rng = random.Random(inp.get('seed', 0))
        shuffled = shuffle_tree(canonical, rng) if inp.get('shuffle', True) else canonical
        if case.kind == 'mut':
            shuffled = apply_mutation(canonical, inp['mut'])
        text_c = serialise(canonical)
        text_s = serialise(shuffled, pretty=rng if inp.get('shuffle', True) and case.kind != 'mut' else None)
        return canonical, shuffled, text_c, text_s

    def impl(self, case: Case) -> Any:
        canonical, shuffled, text_c, text_s = self.trees(case)
        fname = case.input.get('fname', 'doc.xml')
        out = {'real': real_parse(text_s, fname), 'xml': text_s}
        if case.kind == 'doc':
            out['dict_c'] = real_todict(text_c)
        out['dict_s'] = real_todict(text_s)
        return canon(out)

    def requests(self, case: Case):
        canonical, shuffled, text_c, text_s = self.trees(case)
        fname = case.input.get('fname', 'doc.xml')
        reqs = [{'p': self.model_pid, 'op': 'to_dict', 'args': {'xml': shuffled}},
                {'p': self.model_pid, 'op': 'parse_xml', 'args': {'xml': shuffled, 'fname': fname, 'hulls': hull_table(shuffled)}}]
        if case.kind == 'doc':
            reqs.append({'p': self.model_pid, 'op': 'parse_src',
                         'args': {'src': case.input['src'], 'fname': fname, 'hulls': hull_table(canonical)}})
        return reqs

    def skip_compare(self, case: Case) -> bool:
        return 'no-model' in case.tags

    def compare(self, case, impl_out, model_out):
        if self.skip_compare(case):
            return None
        if 'err' in impl_out['dict_s']:
            return None if 'ExpatError' == impl_out['dict_s']['err'] else f'xmltodict raised {impl_out["dict_s"]}'
        d = first_diff(impl_out['dict_s']['ok'], canon(model_out[0]['ok']), 'toDict(tree)')
        if d:
            return 'xmltodict.parse vs toDict: ' + d
        real = impl_out['real']
        real_cmp = {'ok': real['ok']['scan']} if 'ok' in real else real
        m = norm_answer(model_out[1])
        d = scan_diff(real_cmp, canon(m))
        if d:
            return 'parse_pagexml_file vs parseScan(toDict(tree)): ' + d
        if case.kind == 'doc':
            a = model_out[2]
            d = first_diff(impl_out['dict_c']['ok'], canon(a['dict']), 'toDict(render)')
            if d:
                return 'xmltodict.parse vs toDict(render src): ' + d
            p = norm_answer(a['parsed'])
            d = scan_diff(real_cmp, canon(p))
            if d:
                return 'parse_pagexml_file vs parseScan(toDict(render src)): ' + d
            if 'expect-mirror' in case.tags:
                d = scan_diff(real_cmp, canon({'ok': norm_scan(a['mirror'])}))
                if d:
                    return 'parse_pagexml_file vs mirror(src): ' + d
        return None

    def nontrivial(self, case: Case) -> bool:
        src = case.input['src']
        return bool(src['regions'] or src['tables'])

    def shrink_candidates(self, case: Case):
        """smaller source pages: drop / simplify parts one at a time"""
        inp = case.input
        src = inp['src']

        def variant(new_src):
            return Case(case.kind, dict(inp, src=new_src), case.tags)

        def region_variants(r):
            for k in ('lines', 'subs'):
                for i in range(len(r[k])):
                    yield dict(r, **{k: r[k][:i] + r[k][i + 1:]})
            for i, s in enumerate(r['subs']):
                for v in region_variants(s):
                    yield dict(r, subs=r['subs'][:i] + [v] + r['subs'][i + 1:])
            for i, l in enumerate(r['lines']):
                for v in line_variants(l):
                    yield dict(r, lines=r['lines'][:i] + [v] + r['lines'][i + 1:])
            for k in ('te', 'custom', 'orientation'):
                if r[k] is not None:
                    yield dict(r, **{k: None})

        def line_variants(l):
            for i in range(len(l['words'])):
                yield dict(l, words=l['words'][:i] + l['words'][i + 1:])
            for k in ('te', 'custom', 'baseline', 'xheight'):
                if l[k] is not None:
                    yield dict(l, **{k: None})

        if case.kind == 'mut':
            return
        for k in ('regions', 'tables'):
            for i in range(len(src[k])):
                yield variant(dict(src, **{k: src[k][:i] + src[k][i + 1:]}))
        for i, r in enumerate(src['regions']):
            for v in region_variants(r):
                yield variant(dict(src, regions=src['regions'][:i] + [v] + src['regions'][i + 1:]))
        for i, t in enumerate(src['tables']):
            for j in range(len(t['cells'])):
                yield variant(dict(src, tables=src['tables'][:i] + [dict(t, cells=t['cells'][:j] + t['cells'][j + 1:])]
                                   + src['tables'][i + 1:]))
            for j, c in enumerate(t['cells']):
                for li in range(len(c['lines'])):
                    c2 = dict(c, lines=c['lines'][:li] + c['lines'][li + 1:])
                    yield variant(dict(src, tables=src['tables'][:i] + [dict(t, cells=t['cells'][:j] + [c2] + t['cells'][j + 1:])]
                                       + src['tables'][i + 1:]))
        if src['meta'] is not None:
            yield variant(dict(src, meta=None))
        if src['ro']['kind'] != 'absent':
            yield variant(dict(src, ro={'kind': 'absent'}))
        if src['ro']['kind'] == 'ordered':
            refs = src['ro']['refs']
            for i in range(len(refs)):
                yield variant(dict(src, ro=dict(src['ro'], refs=refs[:i] + refs[i + 1:])))
        if inp.get('shuffle', True):
            yield Case(case.kind, dict(inp, shuffle=False), case.tags)
