"""Shared machinery of the pagexml verification harness (DESIGN §2, §5, §11).

One run of a property check:
  translate -> lake build (theorems against regenerated tables) -> audit (sorry/axioms)
  -> correspondence (model driver vs real code, same inputs) -> oracle (property judged on
  the real code's outputs) -> decision -> evidence file.

Exit codes: 0 held / only known findings; 1 VIOLATION line printed; 2 infrastructure failure.
"""
from __future__ import annotations

import ast
import fcntl
import hashlib
import json
import os
import random
import re
import subprocess
import sys
import time
import traceback
from typing import Any, Dict, Iterable, List, Optional, Tuple

VERIF = os.path.dirname(os.path.dirname(os.path.abspath(__file__)))
LEAN = os.path.join(VERIF, 'lean')
REPO = os.environ.get('PAGEXML_REPO', '/repo')
DRIVER = os.path.join(LEAN, '.lake', 'build', 'bin', 'driver')
# (both can be redirected when a check is tried against a deliberately broken tree, so that the
#  committed evidence is only ever written by runs against /repo itself)
EVIDENCE_DIR = os.environ.get('VERIF_EVIDENCE_DIR') or os.path.join(VERIF, 'evidence')
REPLAY_DIR = os.environ.get('VERIF_REPLAY_DIR') or os.path.join(VERIF, 'replays')
KNOWN_FINDINGS = os.path.join(VERIF, 'known_findings.json')
GUARD = 'KNAW_HUC_PAGEXML_VERIF'

MAX_MINIMISED = 4      # failing classes whose input is shrunk before it is written as a replay
MAX_REPORTED = 12      # VIOLATION lines per run (the evidence records how many classes failed)

ALLOWED_AXIOMS = {'propext', 'Classical.choice', 'Quot.sound'}
FORBIDDEN = re.compile(r'\bsorry\b|\badmit\b|^\s*axiom\s|\bnative_decide\b|\bbv_decide\b|'
                       r'implemented_by|\bunsafe\s|maxHeartbeats\s+0\b|\bopaque\s', re.M)

TRUSTED_BASE = [
    'Lean 4.33.0 kernel (leanchecker re-checks the property modules in the thorough tier)',
    'axioms: propext, Classical.choice, Quot.sound only (audited with #print axioms on every run)',
    'Mathlib v4.33.0 tactic modules used in proof files only',
    'harness/translate: ast-based extractor regenerating Generated/*.lean from /repo on every run; it reads each '
    'module through harness/astnorm (constant propagation / literal folding / two inlining rules under conditions '
    'checked on the AST; assumed: no other module rebinds or mutates a module constant)',
    'correspondence harness: generators, adapters calling the real code in-process, canonicalisers, '
    'the Lean driver\'s JSON decoding',
    'CPython semantics of the constructs mirrored by hand in the model (DESIGN §6)',
]


class Infra(Exception):
    """infrastructure failure: exit 2, never reported as a violation"""


# ---------------------------------------------------------------------------------------
# small utilities
# ---------------------------------------------------------------------------------------

def sh(cmd: List[str], cwd: str = None, timeout: int = 3600, env: dict = None) -> Tuple[int, str]:
    try:
        p = subprocess.run(cmd, cwd=cwd, stdout=subprocess.PIPE, stderr=subprocess.STDOUT,
                           timeout=timeout, env=env)
    except subprocess.TimeoutExpired as e:
        raise Infra(f'timeout running {cmd}: {e}')
    out = p.stdout.decode('utf-8', 'replace')
    out = '\n'.join(l for l in out.split('\n') if 'conda.cli.condarc' not in l)
    return p.returncode, out


def canon(v: Any) -> Any:
    """canonical JSON-able form: tuples -> lists, integral floats -> ints, dict keys -> str"""
    if isinstance(v, bool) or v is None or isinstance(v, str):
        return v
    if isinstance(v, int):
        return v
    if isinstance(v, float):
        if v == int(v) and abs(v) < 2 ** 53:
            return int(v)
        return {'float': repr(v)}
    if isinstance(v, (list, tuple)):
        return [canon(x) for x in v]
    if isinstance(v, dict):
        return {str(k): canon(x) for k, x in v.items()}
    if isinstance(v, (set, frozenset)):
        return sorted((canon(x) for x in v), key=lambda x: json.dumps(x, sort_keys=True))
    if hasattr(v, 'item'):  # numpy scalars
        return canon(v.item())
    if hasattr(v, 'tolist'):
        return canon(v.tolist())
    return {'repr': repr(v)}


def big(i: int) -> Any:
    """integers beyond 2^53 travel as decimal strings"""
    return i if abs(i) < 2 ** 53 else str(i)


def unbig(v: Any) -> Any:
    """inverse of the driver's number printing: Lean prints big ints as plain JSON numbers"""
    return v


def err_name(e: BaseException) -> str:
    """exception -> small enum (class name; expat and Qhull errors by their usual names)"""
    n = type(e).__name__
    if n == 'ExpatError' or 'expat' in type(e).__module__:
        return 'ExpatError'
    if n == 'QhullError':
        return 'QhullError'
    return n


def call(f, *a, **k) -> Dict[str, Any]:
    """run the real code; outcome as {'ok': value} or {'err': class name}"""
    import io
    import contextlib
    buf = io.StringIO()
    try:
        with contextlib.redirect_stdout(buf):
            return {'ok': f(*a, **k)}
    except RecursionError:
        return {'err': 'RecursionError'}
    except Exception as e:  # noqa
        return {'err': err_name(e)}


def jdump(v: Any) -> str:
    return json.dumps(v, sort_keys=True, ensure_ascii=False)


def short(v: Any, n: int = 400) -> str:
    s = jdump(v) if not isinstance(v, str) else v
    return s if len(s) <= n else s[:n] + '…'


# ---------------------------------------------------------------------------------------
# Lean side: build, audit, driver
# ---------------------------------------------------------------------------------------

def lake_build(targets: List[str], timeout: int = 3000) -> Tuple[bool, str]:
    lock = open(os.path.join(LEAN, '.build.lock'), 'w')
    fcntl.flock(lock, fcntl.LOCK_EX)
    try:
        rc, out = sh(['lake', 'build'] + targets, cwd=LEAN, timeout=timeout)
    finally:
        fcntl.flock(lock, fcntl.LOCK_UN)
        lock.close()
    return rc == 0, out


def strip_comments(src: str) -> str:
    # nested /- -/ comments and -- line comments
    out, i, depth = [], 0, 0
    while i < len(src):
        if src.startswith('/-', i):
            depth += 1
            i += 2
        elif src.startswith('-/', i) and depth > 0:
            depth -= 1
            i += 2
        elif depth > 0:
            if src[i] == '\n':
                out.append('\n')
            i += 1
        elif src.startswith('--', i):
            while i < len(src) and src[i] != '\n':
                i += 1
        else:
            out.append(src[i])
            i += 1
    return ''.join(out)


def lean_modules_of(root_module: str) -> List[str]:
    """transitive project-local imports of a module (files under lean/)"""
    seen, todo = [], [root_module]
    while todo:
        m = todo.pop()
        if m in seen:
            continue
        path = os.path.join(LEAN, *m.split('.')) + '.lean'
        if not os.path.exists(path):
            continue
        seen.append(m)
        for line in open(path, encoding='utf-8'):
            mm = re.match(r'\s*(?:public\s+)?import\s+(PagexmlModel[\w.]*)', line)
            if mm:
                todo.append(mm.group(1))
    return seen


def audit(pid: str, props_module: str) -> Dict[str, Any]:
    """grep for forbidden constructs, and #print axioms for every property theorem"""
    problems = []
    mods = lean_modules_of(props_module)
    for m in mods:
        path = os.path.join(LEAN, *m.split('.')) + '.lean'
        code = strip_comments(open(path, encoding='utf-8').read())
        for hit in FORBIDDEN.finditer(code):
            line = code[:hit.start()].count('\n') + 1
            problems.append(f'{m}:{line}: forbidden construct {hit.group(0).strip()!r}')
    props_path = os.path.join(LEAN, *props_module.split('.')) + '.lean'
    src = strip_comments(open(props_path, encoding='utf-8').read())
    ns = re.search(r'^namespace\s+([\w.]+)', src, re.M)
    ns = ns.group(1) if ns else ''
    names = re.findall(r'^theorem\s+(' + pid + r'_\w+)', src, re.M)
    if not names:
        problems.append(f'no property theorem named {pid}_* in {props_module}')
    audit_dir = os.path.join(LEAN, '.lake', 'audit')
    os.makedirs(audit_dir, exist_ok=True)
    audit_file = os.path.join(audit_dir, f'{pid}.lean')
    with open(audit_file, 'w') as fh:
        fh.write(f'import {props_module}\n')
        for n in names:
            fh.write(f'#print axioms {ns}.{n}\n')
    rc, out = sh(['lake', 'env', 'lean', audit_file], cwd=LEAN, timeout=1200)
    theorems = []
    if rc != 0:
        problems.append('audit file failed to elaborate: ' + out[-2000:])
    flat = re.sub(r'\s+', ' ', out)
    for n in names:
        full = f'{ns}.{n}'
        m1 = re.search(r"'" + re.escape(full) + r"' depends on axioms: \[([^\]]*)\]", flat)
        m2 = re.search(r"'" + re.escape(full) + r"' does not depend on any axioms", flat)
        if m1:
            axioms = [a.strip() for a in m1.group(1).split(',') if a.strip()]
        elif m2:
            axioms = []
        else:
            problems.append(f'no #print axioms answer for {full}')
            axioms = None
        if axioms is not None:
            bad = [a for a in axioms if a not in ALLOWED_AXIOMS]
            if bad:
                problems.append(f'{full} depends on non-standard axioms {bad}')
        theorems.append({'name': full, 'axioms': axioms})
    n_examples = len(re.findall(r'^example\b', src, re.M))
    return {'theorems': theorems, 'problems': problems, 'modules': mods, 'nonvacuity_examples': n_examples}


def leanchecker(mods: List[str]) -> Tuple[bool, str]:
    rc, out = sh(['lake', 'env', 'leanchecker'] + mods, cwd=LEAN, timeout=3000)
    return rc == 0, out[-3000:]


def run_driver(requests: List[Dict[str, Any]]) -> List[Dict[str, Any]]:
    """pipe the request lines to the compiled model driver; answers in the same order"""
    if not requests:
        return []
    if not os.path.exists(DRIVER):
        raise Infra(f'model driver missing: {DRIVER}')
    lines = []
    for i, r in enumerate(requests):
        r = dict(r)
        r['n'] = i
        lines.append(json.dumps(r, ensure_ascii=False))
    data = ('\n'.join(lines) + '\n').encode('utf-8')
    try:
        p = subprocess.run([DRIVER], input=data, stdout=subprocess.PIPE, stderr=subprocess.PIPE, timeout=3000)
    except subprocess.TimeoutExpired:
        raise Infra('model driver timed out')
    if p.returncode != 0:
        raise Infra(f'model driver exit {p.returncode}: {p.stderr.decode("utf-8", "replace")[-2000:]}')
    outs = [json.loads(l) for l in p.stdout.decode('utf-8').split('\n') if l.strip()]
    if len(outs) != len(requests):
        raise Infra(f'model driver answered {len(outs)} of {len(requests)} requests')
    for i, o in enumerate(outs):
        if o.get('n') != i:
            raise Infra(f'model driver answer out of order at {i}: {o}')
        if 'bad' in o:
            raise Infra(f'model driver could not decode request {i}: {o["bad"]} :: {lines[i][:500]}')
        del o['n']
    return outs


# ---------------------------------------------------------------------------------------
# source pins (diagnostic only, DESIGN §4.3)
# ---------------------------------------------------------------------------------------

def source_pins(anchors: Dict[str, List[str]]) -> Dict[str, str]:
    pins = {}
    for rel, names in anchors.items():
        path = os.path.join(REPO, rel)
        try:
            tree = ast.parse(open(path, encoding='utf-8').read())
        except Exception as e:  # noqa
            pins[rel] = f'unparsable: {e}'
            continue
        defs = {}
        for node in ast.walk(tree):
            if isinstance(node, ast.ClassDef):
                for sub in node.body:
                    if isinstance(sub, (ast.FunctionDef, ast.AsyncFunctionDef)):
                        defs[f'{node.name}.{sub.name}'] = sub
                defs[node.name] = node
            elif isinstance(node, (ast.FunctionDef, ast.AsyncFunctionDef)):
                defs.setdefault(node.name, node)
        for n in names:
            node = defs.get(n)
            if node is None:
                pins[f'{rel}:{n}'] = 'missing'
            else:
                pins[f'{rel}:{n}'] = hashlib.sha256(ast.dump(node, include_attributes=False).encode()).hexdigest()[:16]
    return pins


# ---------------------------------------------------------------------------------------
# known findings
# ---------------------------------------------------------------------------------------

def load_known(pid: str) -> Dict[str, Dict[str, Any]]:
    if not os.path.exists(KNOWN_FINDINGS):
        return {}
    entries = json.load(open(KNOWN_FINDINGS))
    return {e['key']: e for e in entries if e.get('property') == pid and e.get('status') == 'known'}


# ---------------------------------------------------------------------------------------
# the check base class
# ---------------------------------------------------------------------------------------

# tag of cases outside the property's quantifier: model and code are still compared on them, but a
# difference is only recorded in the evidence (it is no broken correspondence), and the oracle must not
# judge them.  Use it ONLY where the statement's quantifier really excludes the input.
OUTSIDE = 'outside-quantifier'


class Case:
    """one correspondence / oracle case"""
    __slots__ = ('kind', 'input', 'tags')

    def __init__(self, kind: str, input: Any, tags: Iterable[str] = ()):
        self.kind = kind
        self.input = input
        self.tags = list(tags)

    def to_json(self):
        return {'kind': self.kind, 'input': self.input, 'tags': self.tags}


class Finding:
    """a failure of the property statement on the real code"""
    __slots__ = ('key', 'what', 'case', 'impl')

    def __init__(self, key: str, what: str, case: Case, impl: Any = None):
        self.key = key
        self.what = what
        self.case = case
        self.impl = impl


class Check:
    pid = 'C00'
    props_module = None            # 'PagexmlModel.Props.C00'
    anchors: Dict[str, List[str]] = {}
    level_note = ''
    assumptions: List[str] = []
    nontrivial_rule = 'distinct inputs (by canonical JSON) that are not the empty / single-element degenerate case'
    checker_extra = ''

    # -- to be provided by each property -------------------------------------------------
    def translate(self) -> Dict[str, str]:
        """{relative lean path: content} regenerated from /repo (may be empty)"""
        return {}

    def cases(self, rng: random.Random, tier: str) -> Iterable[Case]:
        raise NotImplementedError

    def impl(self, case: Case) -> Any:
        """run the real code on the case; return a canonical JSON-able value"""
        raise NotImplementedError

    def requests(self, case: Case) -> List[Dict[str, Any]]:
        """driver requests ({'p','op','args'}) whose answers are compared with impl()"""
        return []

    def compare(self, case: Case, impl_out: Any, model_out: List[Dict[str, Any]]) -> Optional[str]:
        """None if model and implementation agree on this case, else a description"""
        if len(model_out) == 1 and model_out[0] == impl_out:
            return None
        if len(model_out) == 0:
            return None
        return f'impl={short(impl_out)} model={short(model_out)}'

    def oracle(self, case: Case, impl_out: Any) -> List[Finding]:
        """judge the property statement on the real code's outputs (no model involved)"""
        return []

    def nontrivial(self, case: Case) -> bool:
        return True

    def shrink_candidates(self, case: Case) -> Iterable[Case]:
        """smaller variants of a case, for minimising a failing input (optional)"""
        return []

    def search_cases(self, rng: random.Random) -> Iterable[Case]:
        """wider generator used to search for a failing input after a broken proof or
        correspondence (default: the thorough generator)"""
        return self.cases(rng, 'thorough')


# ---------------------------------------------------------------------------------------
# the runner
# ---------------------------------------------------------------------------------------

def write_generated(files: Dict[str, str]) -> List[str]:
    changed = []
    for rel, content in files.items():
        path = os.path.join(LEAN, rel)
        old = open(path, encoding='utf-8').read() if os.path.exists(path) else None
        if old != content:
            os.makedirs(os.path.dirname(path), exist_ok=True)
            with open(path, 'w', encoding='utf-8') as fh:
                fh.write(content)
            changed.append(rel)
    return changed


def minimise(check: Check, case: Case, still_fails) -> Case:
    """greedy delta-debugging driven by the property's own shrink candidates"""
    budget = 400
    improved = True
    while improved and budget > 0:
        improved = False
        for cand in check.shrink_candidates(case):
            budget -= 1
            if budget <= 0:
                break
            try:
                if still_fails(cand):
                    case = cand
                    improved = True
                    break
            except Exception:  # noqa
                continue
    return case


def write_replay(pid: str, kind: str, payload: Dict[str, Any]) -> str:
    d = os.path.join(REPLAY_DIR, pid)
    os.makedirs(d, exist_ok=True)
    body = dict(payload)
    body['property'] = pid
    body['kind'] = kind
    h = hashlib.sha256(jdump(body).encode()).hexdigest()[:12]
    path = os.path.join(d, f'{kind}-{h}.json')
    body['reproduce'] = f'/venv/bin/python {VERIF}/harness/replay.py {path}'
    with open(path, 'w', encoding='utf-8') as fh:
        json.dump(body, fh, indent=1, ensure_ascii=False, sort_keys=True)
    return os.path.relpath(path, VERIF)


def run_check(check: Check, tier: str, seed: int, deadline_s: int) -> int:
    t0 = time.time()
    pid = check.pid
    os.makedirs(EVIDENCE_DIR, exist_ok=True)
    os.environ[GUARD] = '1'
    ev: Dict[str, Any] = {
        'property_id': pid, 'tier': tier, 'seed': seed, 'level': 'proof',
        'coverage': {}, 'assumptions': list(check.assumptions), 'wall_s': 0.0, 'violations': 0,
    }
    cov = ev['coverage']
    violations: List[str] = []       # VIOLATION lines
    known_lines: List[str] = []
    broken: List[Dict[str, Any]] = []   # broken proof obligations / correspondences

    # 1. translate ---------------------------------------------------------------------
    try:
        gen = check.translate()
        changed = write_generated(gen)
        cov['generated_files'] = sorted(gen)
        cov['generated_changed_this_run'] = changed
    except Exception as e:  # translator does not recognise the source shape: obligation broken
        broken.append({'what': 'translator', 'detail': f'{type(e).__name__}: {e}',
                       'trace': traceback.format_exc()[-1500:]})
        cov['generated_files'] = []

    # 2. prove -------------------------------------------------------------------------
    ok, out = lake_build([check.props_module, 'driver'])
    checker_cmd = f'cd {LEAN} && lake build {check.props_module} driver && lake env lean .lake/audit/{pid}.lean'
    if not ok:
        # the driver may be what failed: try to build it alone so that the search can still use the model
        broken.append({'what': 'lake build', 'detail': out[-4000:]})
        ok_driver, _ = lake_build(['driver'])
    aud = {'theorems': [], 'problems': ['build failed'], 'modules': [], 'nonvacuity_examples': 0}
    if ok:
        aud = audit(pid, check.props_module)
        for p in aud['problems']:
            broken.append({'what': 'audit', 'detail': p})
        if tier == 'thorough':
            okc, outc = leanchecker([check.props_module])
            checker_cmd += f' && lake env leanchecker {check.props_module}'
            cov['leanchecker'] = 'ok' if okc else 'FAILED'
            if not okc:
                broken.append({'what': 'leanchecker', 'detail': outc})
    cov['obligations'] = max(1, len(aud['theorems']))
    cov['discharged'] = len([t for t in aud['theorems'] if t['axioms'] is not None]) if ok and not aud['problems'] else 0
    cov['theorems'] = aud['theorems']
    cov['nonvacuity_examples'] = aud['nonvacuity_examples']
    cov['checker_cmd'] = checker_cmd
    cov['trusted_base'] = TRUSTED_BASE + ([check.level_note] if check.level_note else [])
    cov['source_pins'] = source_pins(check.anchors)

    # 3./4. correspondence and oracle ------------------------------------------------------
    rng = random.Random(seed * 1000003 + int(pid[1:]))
    cases = list(check.cases(rng, tier))
    impl_outs = []
    findings: List[Finding] = []
    t_impl = time.time()
    escaped = []
    for c in cases:
        try:
            o = check.impl(c)
        except Infra:
            raise
        except Exception as e:  # noqa — the real code raised where the adapter did not expect it
            o = {'err': err_name(e), 'escaped_adapter': traceback.format_exc()[-1200:]}
            escaped.append((c, o))
            impl_outs.append(o)
            continue
        impl_outs.append(o)
        findings.extend(check.oracle(c, o))
    cov['impl_wall_s'] = round(time.time() - t_impl, 2)
    for c, o in escaped[:3]:
        # not judged by the oracle (its shape is unknown): a broken correspondence, never exit 2 —
        # an exception of the real code must not look like an infrastructure failure
        broken.append({'what': 'correspondence', 'detail': f'the real code raised {o["err"]} outside the adapter\'s '
                       f'expectations on this case', 'case': c.to_json(), 'impl': o})
    reqs, spans = [], []
    for c, o in zip(cases, impl_outs):
        if isinstance(o, dict) and 'escaped_adapter' in o:
            r = []
        else:
            try:
                r = check.requests(c)
            except Infra:
                raise
            except Exception as e:  # noqa — requests() of some checks run the real code again
                r = []
                broken.append({'what': 'correspondence', 'detail': f'building the model request raised '
                               f'{type(e).__name__}: {e}', 'case': c.to_json()})
        spans.append((len(reqs), len(reqs) + len(r)))
        reqs.extend(r)
    disagreements = []
    outside_diffs = []
    driver_ok = os.path.exists(DRIVER)
    if driver_ok:
        try:
            answers = run_driver(reqs)
            for c, o, (a, b) in zip(cases, impl_outs, spans):
                if isinstance(o, dict) and 'escaped_adapter' in o:
                    continue
                d = check.compare(c, o, answers[a:b])
                if d is not None:
                    if OUTSIDE in c.tags:
                        # the case lies outside what the property quantifies over: the model mirrors the
                        # code there only as an observation; a difference is recorded, it breaks nothing
                        outside_diffs.append({'case': c.to_json(), 'diff': d})
                        continue
                    disagreements.append({'case': c.to_json(), 'impl': o, 'model': answers[a:b], 'diff': d})
        except Infra as e:
            if ok:
                raise
            broken.append({'what': 'driver', 'detail': str(e)})
    elif ok:
        raise Infra('driver missing after a successful build')
    for d in disagreements[:5]:
        broken.append({'what': 'correspondence', 'detail': d['diff'], 'case': d['case'],
                       'impl': d['impl'], 'model': d['model']})
    distinct = set()
    kinds: Dict[str, int] = {}
    tags: Dict[str, int] = {}
    for c in cases:
        kinds[c.kind] = kinds.get(c.kind, 0) + 1
        for t in c.tags:
            tags[t] = tags.get(t, 0) + 1
        if check.nontrivial(c):
            distinct.add(hashlib.sha256(jdump([c.kind, c.input]).encode()).hexdigest())
    errs: Dict[str, int] = {}
    for o in impl_outs:
        if isinstance(o, dict) and 'err' in o and len(o) == 1:
            errs[o['err']] = errs.get(o['err'], 0) + 1
    cov.update({
        'evaluations': len(cases), 'distinct_nontrivial': len(distinct), 'rule': check.nontrivial_rule,
        'samples': [c.to_json() for c in cases[:3]] + ([cases[-1].to_json()] if len(cases) > 3 else []),
        'model_requests': len(reqs), 'disagreements': len(disagreements),
        'outside_quantifier_differences': len(outside_diffs),
        'outside_quantifier_samples': [{'case': short(x['case'], 300), 'diff': x['diff'][:300]} for x in outside_diffs[:3]],
        'case_kinds': kinds, 'case_tags': tags, 'impl_error_classes': errs,
        'traces_validated_against_impl': len(cases) - len(disagreements),
        'exhaustive': False,
    })

    # 5. search when a proof obligation or the correspondence is broken ---------------------
    if broken and not findings:
        t_search = time.time()
        n_search = 0
        srng = random.Random(seed + 7919)
        for c in check.search_cases(srng):
            if time.time() - t_search > min(240, max(30, deadline_s - (time.time() - t0) - 30)):
                break
            o = check.impl(c)
            n_search += 1
            fs = check.oracle(c, o)
            if fs:
                findings.extend(fs)
                break
        # the disagreeing inputs themselves are the first candidates (already judged above)
        cov['failing_input_search'] = {'cases': n_search, 'wall_s': round(time.time() - t_search, 2),
                                       'found': bool(findings)}

    # 6. decide ---------------------------------------------------------------------------
    known = load_known(pid)
    seen_keys = set()
    n_reported = 0
    for f in findings:
        if f.key in seen_keys:
            continue
        seen_keys.add(f.key)
        if f.key in known:
            known_lines.append(f'KNOWN-FINDING: property={pid} {known[f.key].get("what", f.what)} [{f.key}]')
            continue

        def still_fails(cand: Case, key=f.key) -> bool:
            return any(x.key == key for x in check.oracle(cand, check.impl(cand)))
        # minimise the first few failing classes only (a broken function can produce dozens of keys; the run
        # must stay within its time box), the others are reported with the input as found
        n_reported += 1
        if n_reported > MAX_REPORTED:
            continue
        small = minimise(check, f.case, still_fails) if n_reported <= MAX_MINIMISED and \
            time.time() - t0 < deadline_s * 0.6 else f.case
        o = check.impl(small)
        path = write_replay(pid, 'failing-input', {
            'key': f.key, 'what': f.what, 'case': small.to_json(), 'impl': o,
            'original_case': f.case.to_json() if small is not f.case else None,
            'module': type(check).__module__,
        })
        violations.append(f'VIOLATION property={pid} replay={path}')
    unlisted_failure = any(k not in known for k in seen_keys)
    if broken and not unlisted_failure:
        path = write_replay(pid, 'broken-' + broken[0]['what'].replace(' ', '-'), {
            'broken': broken, 'note': 'the property is no longer shown to hold: a proof obligation or the '
                                      'model/implementation correspondence no longer checks, and the search found '
                                      'no input on which the implementation breaks the property statement',
            'module': type(check).__module__,
        })
        violations.append(f'VIOLATION property={pid} replay={path} no-failing-input-found')
    cov['broken_obligations'] = [{k: (short(v, 600) if not isinstance(v, str) else v[-600:]) for k, v in b.items()}
                                 for b in broken[:5]]
    cov['known_findings_printed'] = known_lines
    cov['oracle_findings'] = len(findings)
    cov['failing_classes'] = sorted(k for k in seen_keys if k not in known)[:60]
    ev['violations'] = len(violations)
    ev['wall_s'] = round(time.time() - t0, 2)
    if broken:
        cov['discharged'] = min(cov['discharged'], max(0, cov['obligations'] - 1)) if any(
            b['what'] in ('lake build', 'audit', 'translator', 'leanchecker') for b in broken) else cov['discharged']
    with open(os.path.join(EVIDENCE_DIR, f'{pid}.json'), 'w', encoding='utf-8') as fh:
        json.dump(ev, fh, indent=1, ensure_ascii=False, sort_keys=True)
    for l in known_lines:
        print(l)
    for l in violations:
        print(l)
    print(f'[{pid}] tier={tier} seed={seed} theorems={len(aud["theorems"])} cases={len(cases)} '
          f'model_requests={len(reqs)} disagreements={len(disagreements)} findings={len(findings)} '
          f'known={len(known_lines)} violations={len(violations)} wall={ev["wall_s"]}s')
    return 1 if violations else 0
