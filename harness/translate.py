"""ast-based extraction of table-like code from /repo (DESIGN §4.1).

The functions here read the CURRENT working tree with Python's `ast` (no import of the target
code) and return plain Python values; each property's `Check.translate()` turns them into a
small, deterministic, human-readable `Generated/*.lean` file on every run.  Only the syntactic
shapes that are understood are accepted: anything else raises `TranslateError`, which the
runner reports as a broken proof obligation (never guessed).
"""
from __future__ import annotations

import ast
import os
from fractions import Fraction
from typing import Any, Dict, List, Optional

from harness.core import REPO


class TranslateError(Exception):
    pass


def parse_file(rel: str) -> ast.Module:
    path = os.path.join(REPO, rel)
    try:
        return ast.parse(open(path, encoding='utf-8').read(), filename=path)
    except (OSError, SyntaxError) as e:
        raise TranslateError(f'cannot parse {rel}: {e}')


def find_def(tree: ast.Module, qualname: str) -> ast.AST:
    parts = qualname.split('.')
    body = tree.body
    node = None
    for i, part in enumerate(parts):
        node = None
        for n in body:
            if isinstance(n, (ast.FunctionDef, ast.AsyncFunctionDef, ast.ClassDef)) and n.name == part:
                node = n
                break
        if node is None:
            raise TranslateError(f'definition {qualname} not found')
        body = getattr(node, 'body', [])
    return node


def literal(node: ast.AST) -> Any:
    try:
        return ast.literal_eval(node)
    except Exception:
        raise TranslateError(f'not a literal: {ast.dump(node)[:200]}')


def func_defaults(rel: str, qualname: str) -> Dict[str, Any]:
    """{argument name: literal default} of a function"""
    fn = find_def(parse_file(rel), qualname)
    if not isinstance(fn, (ast.FunctionDef, ast.AsyncFunctionDef)):
        raise TranslateError(f'{qualname} is not a function')
    a = fn.args
    out = {}
    pos = a.posonlyargs + a.args
    for arg, d in zip(pos[len(pos) - len(a.defaults):], a.defaults):
        out[arg.arg] = literal(d)
    for arg, d in zip(a.kwonlyargs, a.kw_defaults):
        if d is not None:
            out[arg.arg] = literal(d)
    return out


def module_constant(rel: str, name: str) -> Any:
    tree = parse_file(rel)
    for n in tree.body:
        if isinstance(n, ast.Assign) and len(n.targets) == 1 and isinstance(n.targets[0], ast.Name) \
                and n.targets[0].id == name:
            return literal(n.value)
    raise TranslateError(f'module constant {name} not found in {rel}')


def as_fraction(v: Any) -> Fraction:
    """a decimal literal as the exact rational it denotes (0.5 -> 1/2, 0.2 -> 1/5)"""
    if isinstance(v, bool) or not isinstance(v, (int, float)):
        raise TranslateError(f'not a number: {v!r}')
    return Fraction(repr(v)) if isinstance(v, float) else Fraction(v)


def lean_str(s: str) -> str:
    return '"' + s.replace('\\', '\\\\').replace('"', '\\"') + '"'


def lean_str_list(xs: List[str]) -> str:
    return '[' + ', '.join(lean_str(x) for x in xs) + ']'


def lean_int(i: int) -> str:
    return str(i) if i >= 0 else f'({i})'


HEADER = ('/-\nGENERATED on every run by harness/translate.py from the current /repo working tree.\n'
          'Do not edit: the property theorems are re-checked against what the code says NOW.\n'
          'source: {src}\n-/\n')
