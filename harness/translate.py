"""ast-based extraction of table-like code from /repo (DESIGN §4.1).

The functions here read the CURRENT working tree with Python's `ast` (no import of the target
code) and return plain Python values; each property's `Check.translate()` turns them into a
small, deterministic, human-readable `Generated/*.lean` file on every run.  Only the syntactic
shapes that are understood are accepted: anything else raises `TranslateError`, which the
runner reports as a broken proof obligation (never guessed).
"""
from __future__ import annotations

import ast
import os
from fractions import Fraction
from typing import Any, Dict, List, Optional

from harness.core import REPO


class TranslateError(Exception):
    pass


_PARSED: Dict[Any, ast.Module] = {}


def parse_file(rel: str) -> ast.Module:
    path = os.path.join(REPO, rel)
    try:
        st = os.stat(path)
        key = (path, st.st_mtime_ns, st.st_size)
        if key not in _PARSED:      # (the extractors ask for the same file many times; the tree is read-only for them)
            from harness.astnorm import normalise     # named constants / folded literals read as the literals they are
            _PARSED[key] = normalise(ast.parse(open(path, encoding='utf-8').read(), filename=path))
        return _PARSED[key]
    except (OSError, SyntaxError) as e:
        raise TranslateError(f'cannot parse {rel}: {e}')


def find_def(tree: ast.Module, qualname: str) -> ast.AST:
    parts = qualname.split('.')
    body = tree.body
    node = None
    for i, part in enumerate(parts):
        node = None
        for n in body:
            if isinstance(n, (ast.FunctionDef, ast.AsyncFunctionDef, ast.ClassDef)) and n.name == part:
                node = n
                break
        if node is None:
            raise TranslateError(f'definition {qualname} not found')
        body = getattr(node, 'body', [])
    return node



def inline_statement_calls(tree: ast.Module, fn: ast.FunctionDef, depth: int = 2) -> ast.FunctionDef:
    """a copy of `fn` in which every statement that is a bare call `helper(a, b)` of a module-level function of
    the same file is replaced by the helper's body with its parameters renamed to the arguments.  Only the shape
    whose meaning is exactly "the helper's statements run here" is inlined: positional plain-name arguments, one per
    parameter, no defaults / *args / **kwargs, a helper body without return / yield / nested definitions, and no
    assignment to a parameter inside the helper.  Anything else is left as it is (and is then judged, as before, by
    the shape checks of the caller).  This lets the extractors follow the extraction of a common prelude into a
    helper (a strict refactoring) instead of reporting a shape they do not know."""
    import copy
    helpers = {n.name: n for n in tree.body if isinstance(n, ast.FunctionDef)}

    def inlinable(call: ast.Call):
        if not isinstance(call.func, ast.Name) or call.func.id not in helpers or call.func.id == fn.name:
            return None
        h = helpers[call.func.id]
        a = h.args
        if a.vararg or a.kwarg or a.kwonlyargs or a.posonlyargs or a.defaults or call.keywords:
            return None
        if len(call.args) != len(a.args) or not all(isinstance(x, ast.Name) for x in call.args):
            return None
        for n in ast.walk(h):
            if n is not h and isinstance(n, (ast.Return, ast.Yield, ast.YieldFrom, ast.FunctionDef, ast.Lambda,
                                              ast.ClassDef, ast.Global, ast.Nonlocal)):
                return None
            if isinstance(n, ast.Name) and isinstance(n.ctx, (ast.Store, ast.Del)):
                return None      # the helper binds a name: inlining could capture a variable of the caller
        return h

    class Rename(ast.NodeTransformer):
        def __init__(self, m):
            self.m = m

        def visit_Name(self, node):
            return ast.copy_location(ast.Name(id=self.m.get(node.id, node.id), ctx=node.ctx), node)

    def expand(stmts, d):
        out = []
        for st in stmts:
            h = inlinable(st.value) if isinstance(st, ast.Expr) and isinstance(st.value, ast.Call) else None
            if h is None or d <= 0:
                out.append(st)
                continue
            m = {p.arg: x.id for p, x in zip(h.args.args, st.value.args)}
            body = [b for b in h.body if not (isinstance(b, ast.Expr) and isinstance(b.value, ast.Constant))]
            body = [Rename(m).visit(copy.deepcopy(b)) for b in body]
            out.extend(expand(body, d - 1))
        return out
    new = copy.deepcopy(fn)
    new.body = expand(new.body, depth)
    return new

def literal(node: ast.AST) -> Any:
    try:
        return ast.literal_eval(node)
    except Exception:
        raise TranslateError(f'not a literal: {ast.dump(node)[:200]}')


def func_defaults(rel: str, qualname: str) -> Dict[str, Any]:
    """{argument name: literal default} of a function"""
    fn = find_def(parse_file(rel), qualname)
    if not isinstance(fn, (ast.FunctionDef, ast.AsyncFunctionDef)):
        raise TranslateError(f'{qualname} is not a function')
    a = fn.args
    out = {}
    pos = a.posonlyargs + a.args
    for arg, d in zip(pos[len(pos) - len(a.defaults):], a.defaults):
        out[arg.arg] = literal(d)
    for arg, d in zip(a.kwonlyargs, a.kw_defaults):
        if d is not None:
            out[arg.arg] = literal(d)
    return out


def module_constant(rel: str, name: str) -> Any:
    tree = parse_file(rel)
    for n in tree.body:
        if isinstance(n, ast.Assign) and len(n.targets) == 1 and isinstance(n.targets[0], ast.Name) \
                and n.targets[0].id == name:
            return literal(n.value)
    raise TranslateError(f'module constant {name} not found in {rel}')


def as_fraction(v: Any) -> Fraction:
    """a decimal literal as the exact rational it denotes (0.5 -> 1/2, 0.2 -> 1/5)"""
    if isinstance(v, bool) or not isinstance(v, (int, float)):
        raise TranslateError(f'not a number: {v!r}')
    return Fraction(repr(v)) if isinstance(v, float) else Fraction(v)


def lean_str(s: str) -> str:
    return '"' + s.replace('\\', '\\\\').replace('"', '\\"') + '"'


def lean_str_list(xs: List[str]) -> str:
    return '[' + ', '.join(lean_str(x) for x in xs) + ']'


def lean_int(i: int) -> str:
    return str(i) if i >= 0 else f'({i})'


HEADER = ('/-\nGENERATED on every run by harness/translate.py from the current /repo working tree.\n'
          'Do not edit: the property theorems are re-checked against what the code says NOW.\n'
          'source: {src}\n-/\n')


# ------------------------------------------------------------------------------------------
# numeric literals inside function bodies (thresholds, tolerances, fall-back values)
# ------------------------------------------------------------------------------------------
# The shapes are given as TEMPLATES: Python expressions in which the names `_N0`, `_N1`, … are
# holes for one numeric literal each (an int or float constant, optionally with a unary minus).
# Everything else of the template has to be found in the source exactly (same operators, same
# names, same attribute chains, same argument lists).  A function in which the template does
# not occur exactly the expected number of times is a shape that is not recognised.

_HOLE_PREFIX = '_N'


def _is_hole(node: ast.AST) -> Optional[str]:
    if isinstance(node, ast.Name) and node.id.startswith(_HOLE_PREFIX) and node.id[len(_HOLE_PREFIX):].isdigit():
        return node.id
    return None


def numeric_literal(node: ast.AST) -> Any:
    """an int / float constant, possibly negated; anything else is not a number we understand"""
    neg = False
    if isinstance(node, ast.UnaryOp) and isinstance(node.op, (ast.USub, ast.UAdd)):
        neg = isinstance(node.op, ast.USub)
        node = node.operand
    if isinstance(node, ast.Constant) and not isinstance(node.value, bool) and isinstance(node.value, (int, float)):
        return -node.value if neg else node.value
    raise TranslateError(f'not a numeric literal: {ast.dump(node)[:120]}')


def _match(node: Any, tmpl: Any, holes: Dict[str, Any]) -> bool:
    if isinstance(tmpl, ast.AST):
        h = _is_hole(tmpl)
        if h is not None:
            try:
                v = numeric_literal(node) if isinstance(node, ast.AST) else None
            except TranslateError:
                return False
            if v is None:
                return False
            if h in holes and holes[h] != v:
                return False
            holes[h] = v
            return True
        if type(node) is not type(tmpl):
            return False
        for field in tmpl._fields:
            if field in ('ctx', 'kind', 'type_comment'):
                continue
            if not _match(getattr(node, field, None), getattr(tmpl, field, None), holes):
                return False
        return True
    if isinstance(tmpl, list):
        return isinstance(node, list) and len(node) == len(tmpl) and all(_match(n, t, holes) for n, t in zip(node, tmpl))
    return node == tmpl


def match_template(node: ast.AST, template: str) -> Optional[Dict[str, Any]]:
    """{hole: number} when `node` is the template with numbers in its holes, else None"""
    try:
        t = ast.parse(template, mode='eval').body
    except SyntaxError as e:
        raise TranslateError(f'bad template {template!r}: {e}')
    from harness.astnorm import norm_like
    t = norm_like(node, t)
    holes: Dict[str, Any] = {}
    return holes if _match(node, t, holes) else None


def _function(rel: str, qualname: str) -> ast.AST:
    fn = find_def(parse_file(rel), qualname)
    if not isinstance(fn, (ast.FunctionDef, ast.AsyncFunctionDef)):
        raise TranslateError(f'{qualname} is not a function')
    return fn


def _own_nodes(fn: ast.AST):
    """the nodes of a function body without nested function / class definitions"""
    stack = list(reversed(fn.body))
    while stack:
        n = stack.pop()
        yield n
        if isinstance(n, (ast.FunctionDef, ast.AsyncFunctionDef, ast.ClassDef, ast.Lambda)):
            continue
        stack.extend(reversed(list(ast.iter_child_nodes(n))))


def literals_in(rel: str, qualname: str, template: str, count: int = 1) -> List[Dict[str, Any]]:
    """all places of function `qualname` that are the template (holes filled with numeric literals), in
    source order; exactly `count` are required"""
    fn = _function(rel, qualname)
    found = []
    for n in _own_nodes(fn):
        if isinstance(n, ast.expr):
            m = match_template(n, template)
            if m is not None:
                found.append((getattr(n, 'lineno', 0), getattr(n, 'col_offset', 0), m))
    found.sort(key=lambda x: (x[0], x[1]))
    if len(found) != count:
        raise TranslateError(f'{rel}:{qualname}: expected {count} occurrence(s) of `{template}`, found {len(found)}')
    return [m for _, _, m in found]


def literal_in(rel: str, qualname: str, template: str, hole: str = '_N0') -> Any:
    """the number in the hole of the single occurrence of the template in the function"""
    m = literals_in(rel, qualname, template, 1)[0]
    if hole not in m:
        raise TranslateError(f'template `{template}` has no hole {hole}')
    return m[hole]


def assigned_literal(rel: str, qualname: str, var: str, under: Optional[str] = None) -> Any:
    """the numeric literal of the only assignment `var = <number>` in the function; with `under`, the
    assignment has to be the only statement of an `if` without `else` whose test is that template
    (returned as (number, holes of the test))"""
    fn = _function(rel, qualname)
    hits = []
    for n in _own_nodes(fn):
        if isinstance(n, ast.Assign) and len(n.targets) == 1 and isinstance(n.targets[0], ast.Name) \
                and n.targets[0].id == var:
            hits.append(n)
    if len(hits) != 1:
        raise TranslateError(f'{rel}:{qualname}: expected one assignment to `{var}`, found {len(hits)}')
    val = numeric_literal(hits[0].value)
    if under is None:
        return val
    for n in _own_nodes(fn):
        if isinstance(n, ast.If) and len(n.body) == 1 and n.body[0] is hits[0] and not n.orelse:
            m = match_template(n.test, under)
            if m is None:
                break
            return val, m
    raise TranslateError(f'{rel}:{qualname}: `{var} = {val}` is not the single statement guarded by `if {under}:`')


def _callee_name(call: ast.Call) -> Optional[str]:
    f = call.func
    if isinstance(f, ast.Name):
        return f.id
    if isinstance(f, ast.Attribute):
        return f.attr
    return None


def call_argument(rel: str, qualname: str, callee: str, param: str, position: Optional[int] = None,
                  min_calls: int = 1) -> Any:
    """what the calls of `callee` inside function `qualname` pass for parameter `param` (keyword, or the
    positional argument at `position`): a numeric literal, the string 'DEFAULT' when the argument is not
    passed, or ('NAME', id) when a plain variable is passed.  All calls have to agree."""
    fn = _function(rel, qualname)
    seen = []
    for n in _own_nodes(fn):
        if isinstance(n, ast.Call) and _callee_name(n) == callee:
            if any(isinstance(a, ast.Starred) for a in n.args) or any(k.arg is None for k in n.keywords):
                raise TranslateError(f'{rel}:{qualname}: call of {callee} with * / ** arguments')
            node = None
            for k in n.keywords:
                if k.arg == param:
                    node = k.value
            if node is None and position is not None and len(n.args) > position:
                node = n.args[position]
            if node is None:
                seen.append('DEFAULT')
            elif isinstance(node, ast.Name):
                seen.append(('NAME', node.id))
            else:
                seen.append(numeric_literal(node))
    if len(seen) < min_calls:
        raise TranslateError(f'{rel}:{qualname}: expected at least {min_calls} call(s) of {callee}, found {len(seen)}')
    if any(s != seen[0] for s in seen):
        raise TranslateError(f'{rel}:{qualname}: calls of {callee} disagree on `{param}`: {seen}')
    return seen[0]


def effective_argument(rel: str, qualname: str, callee: str, param: str, position: Optional[int],
                       callee_rel: str, callee_qualname: Optional[str] = None, min_calls: int = 1) -> Any:
    """the number that reaches `param` of `callee` from the calls inside `qualname`: the literal passed,
    or the callee's default when nothing is passed (a variable is not followed: not recognised)"""
    a = call_argument(rel, qualname, callee, param, position, min_calls)
    if a == 'DEFAULT':
        d = func_defaults(callee_rel, callee_qualname or callee)
        if param not in d:
            raise TranslateError(f'{callee_rel}:{callee_qualname or callee} has no default for `{param}`')
        return numeric_literal(ast.parse(repr(d[param]), mode='eval').body)
    if isinstance(a, tuple):
        raise TranslateError(f'{rel}:{qualname}: {callee}({param}={a[1]}) passes a variable')
    return a


def as_int(v: Any) -> int:
    if isinstance(v, bool) or not isinstance(v, int):
        raise TranslateError(f'not an integer literal: {v!r}')
    return v


def lean_ratio(v: Any) -> str:
    f = as_fraction(v)
    return f'({lean_int(f.numerator)}, {f.denominator})'


# ------------------------------------------------------------------------------------------
# string tables inside function bodies (column names, dictionary keys, format strings)
# ------------------------------------------------------------------------------------------
# Every finder returns SITES: (value, guards, lineno).  `guards` is the chain of the enclosing `if` statements of
# the function, outermost first, as pairs (test, branch) with `test` the unparsed condition (ast.unparse: one
# spelling whatever the quotes / line breaks of the source) and branch 'body' or 'orelse' (an `elif` is the
# `orelse` of its `if` followed by its own test).  Loops, `with`, `try` blocks are walked through and are no
# guards; conditional EXPRESSIONS (`a if c else b`, `and` / `or`, comprehension filters) are not guards either.
# Nested functions / classes / lambdas are not entered.  The caller states the guard chain it expects; anything
# else is a shape that is not recognised.

Guards = tuple


def _guarded_nodes(fn: ast.AST):
    """(node, guards) for every node of the function's own body, in source order"""
    out = []

    def expr(node: ast.AST, guards: Guards):
        stack = [node]
        while stack:
            n = stack.pop()
            if isinstance(n, (ast.FunctionDef, ast.AsyncFunctionDef, ast.ClassDef, ast.Lambda)):
                continue
            out.append((n, guards))
            stack.extend(reversed(list(ast.iter_child_nodes(n))))

    def block(stmts, guards: Guards):
        for s in stmts:
            stmt(s, guards)

    def stmt(s: ast.AST, guards: Guards):
        if isinstance(s, (ast.FunctionDef, ast.AsyncFunctionDef, ast.ClassDef)):
            return
        if isinstance(s, ast.If):
            out.append((s, guards))
            expr(s.test, guards)
            t = ast.unparse(s.test)
            block(s.body, guards + ((t, 'body'),))
            block(s.orelse, guards + ((t, 'orelse'),))
            return
        out.append((s, guards))
        for field, value in ast.iter_fields(s):
            if isinstance(value, list) and value and all(isinstance(v, ast.stmt) for v in value):
                block(value, guards)
            elif isinstance(value, list):
                for v in value:
                    if isinstance(v, ast.ExceptHandler):
                        out.append((v, guards))
                        if v.type is not None:
                            expr(v.type, guards)
                        block(v.body, guards)
                    elif isinstance(v, ast.match_case):
                        raise TranslateError('match statements are not understood')
                    elif isinstance(v, ast.AST):
                        expr(v, guards)
            elif isinstance(value, ast.AST):
                expr(value, guards)

    block(fn.body, ())
    out.sort(key=lambda x: (getattr(x[0], 'lineno', 0), getattr(x[0], 'col_offset', 0)))
    return out


def _same_expr(node: ast.AST, template: str) -> bool:
    try:
        t = ast.parse(template, mode='eval').body
    except SyntaxError as e:
        raise TranslateError(f'bad template {template!r}: {e}')
    from harness.astnorm import norm_like
    t = norm_like(node, t)
    return _match(node, t, {})


def str_list(node: ast.AST) -> List[str]:
    """a list / tuple display of string literals, nothing else"""
    if not isinstance(node, (ast.List, ast.Tuple)):
        raise TranslateError(f'not a list of string literals: {ast.dump(node)[:120]}')
    out = []
    for e in node.elts:
        if not (isinstance(e, ast.Constant) and isinstance(e.value, str)):
            raise TranslateError(f'not a string literal in a list: {ast.dump(e)[:120]}')
        out.append(e.value)
    return out


def assigned_str_lists(rel: str, qualname: str, target: str):
    """sites of all assignments `<target> = [...]` in the function (`target` is a Python expression such as
    `headers` or `self.line_file_headers`); an assignment to the target whose value is not a list of string
    literals is reported as the value None (the caller decides whether it matters)"""
    fn = _function(rel, qualname)
    sites = []
    for n, g in _guarded_nodes(fn):
        if isinstance(n, ast.Assign) and len(n.targets) == 1 and _same_expr(n.targets[0], target):
            try:
                v = str_list(n.value)
            except TranslateError:
                v = None
            sites.append((v, g, n.lineno))
        elif isinstance(n, (ast.AugAssign, ast.AnnAssign)) and _same_expr(n.target, target):
            sites.append((None, g, n.lineno))
    return sites


def the_assigned_str_list(rel: str, qualname: str, target: str, guards: Guards):
    """the list of string literals of the ONLY assignment to `target` that sits under exactly the guard chain
    `guards`; further assignments to the target under other guards are allowed only if `target` is a plain
    expression the caller knows about — here: none may be a list display (two tables would be ambiguous)"""
    sites = assigned_str_lists(rel, qualname, target)
    hits = [s for s in sites if s[1] == tuple(guards)]
    if len(hits) != 1 or hits[0][0] is None:
        raise TranslateError(f'{rel}:{qualname}: expected one `{target} = [string literals]` under '
                             f'{list(guards)!r}, found {[(s[0], list(s[1])) for s in sites]!r}')
    others = [s for s in sites if s[1] != tuple(guards) and s[0] is not None]
    if others:
        raise TranslateError(f'{rel}:{qualname}: `{target}` is assigned a second list of literals at line '
                             f'{others[0][2]}')
    return hits[0]


def method_str_list_calls(rel: str, qualname: str, receiver: str, method: str):
    """sites of the statements `<receiver>.<method>([...])` (e.g. `.extend([...])`): the single positional
    argument has to be a list of string literals; any other call of a method in `MUTATORS` on the receiver is
    reported with value None"""
    fn = _function(rel, qualname)
    sites = []
    for n, g in _guarded_nodes(fn):
        if isinstance(n, ast.Call) and isinstance(n.func, ast.Attribute) and _same_expr(n.func.value, receiver):
            if n.func.attr == method:
                if len(n.args) != 1 or n.keywords:
                    raise TranslateError(f'{rel}:{qualname}: `{receiver}.{method}` with unexpected arguments '
                                         f'(line {n.lineno})')
                sites.append((str_list(n.args[0]), g, n.lineno))
            elif n.func.attr in MUTATORS:
                sites.append((None, g, n.lineno))
    return sites


MUTATORS = ('append', 'extend', 'insert', 'remove', 'pop', 'clear', 'sort', 'reverse', '__setitem__', '__delitem__',
            'update', 'setdefault', 'popitem')


def dict_literal_keys(rel: str, qualname: str, var: str):
    """site of the only assignment `var = {...}` of the function: the keys of the dict display, all string
    literals, in source order (value of the site: list of keys)"""
    fn = _function(rel, qualname)
    sites = []
    for n, g in _guarded_nodes(fn):
        if isinstance(n, ast.Assign) and len(n.targets) == 1 and isinstance(n.targets[0], ast.Name) \
                and n.targets[0].id == var:
            if not isinstance(n.value, ast.Dict):
                raise TranslateError(f'{rel}:{qualname}: `{var}` is assigned something that is not a dict display '
                                     f'(line {n.lineno})')
            keys = []
            for k in n.value.keys:
                if not (isinstance(k, ast.Constant) and isinstance(k.value, str)):
                    raise TranslateError(f'{rel}:{qualname}: key of `{var}` that is not a string literal '
                                         f'(line {n.lineno})')
                keys.append(k.value)
            sites.append((keys, g, n.lineno))
    if len(sites) != 1:
        raise TranslateError(f'{rel}:{qualname}: expected one `{var} = {{...}}`, found {len(sites)}')
    return sites[0]


def _subscripts(rel: str, qualname: str, var: str, ctx) -> list:
    fn = _function(rel, qualname)
    sites = []
    for n, g in _guarded_nodes(fn):
        if isinstance(n, ast.Subscript) and isinstance(n.value, ast.Name) and n.value.id == var \
                and isinstance(n.ctx, ctx):
            k = n.slice
            if not (isinstance(k, ast.Constant) and isinstance(k.value, str)):
                raise TranslateError(f'{rel}:{qualname}: `{var}[...]` with a subscript that is not a string literal '
                                     f'(line {n.lineno})')
            sites.append((k.value, g, n.lineno))
    return sites


def subscript_stores(rel: str, qualname: str, var: str):
    """sites of `var['key'] = ...` (and `del var['key']`, reported like a store), in source order"""
    return _subscripts(rel, qualname, var, (ast.Store, ast.Del))


def subscript_loads(rel: str, qualname: str, var: str):
    """sites of `var['key']` being read, in source order (f-strings included)"""
    return _subscripts(rel, qualname, var, ast.Load)


def fstring_parts(rel: str, qualname: str, callee: str):
    """the only call `<...>.callee(f"...")` / `callee(f"...")` of the function whose single argument is an
    f-string: its parts in order, ('lit', text) for literal text and ('name', id) for a plain `{name}` field
    (no conversion, no format spec); anything else is not understood"""
    fn = _function(rel, qualname)
    hits = []
    for n in _own_nodes(fn):
        if isinstance(n, ast.Call) and _callee_name(n) == callee and len(n.args) == 1 and not n.keywords \
                and isinstance(n.args[0], ast.JoinedStr):
            hits.append(n.args[0])
    if len(hits) != 1:
        raise TranslateError(f'{rel}:{qualname}: expected one call {callee}(f"..."), found {len(hits)}')
    parts = []
    for v in hits[0].values:
        if isinstance(v, ast.Constant) and isinstance(v.value, str):
            parts.append(('lit', v.value))
        elif isinstance(v, ast.FormattedValue) and isinstance(v.value, ast.Name) and v.conversion == -1 \
                and v.format_spec is None:
            parts.append(('name', v.value.id))
        else:
            raise TranslateError(f'{rel}:{qualname}: f-string field that is not a plain name: {ast.dump(v)[:120]}')
    return parts


def dedupe(xs: List[str]) -> List[str]:
    out = []
    for x in xs:
        if x not in out:
            out.append(x)
    return out


def lean_char(c: str) -> str:
    """a Lean `Char` term for one character"""
    if c == "'":
        return "'\\''"
    if c == '\\':
        return "'\\\\'"
    if c == '\t':
        return "'\\t'"
    if c == '\n':
        return "'\\n'"
    if c == '\r':
        return "'\\r'"
    if ' ' <= c <= '~':
        return f"'{c}'"
    return f'(Char.ofNat {ord(c)})'


def lean_chars(s: str) -> str:
    """a string as a `List Char` display (decidable statements about it need no String machinery)"""
    return '[' + ','.join(lean_char(c) for c in s) + ']'


def lean_chars_table(name: str, doc: str, xs: List[str]) -> str:
    """`def name : List (List Char)` with one string per line, the string itself in a comment"""
    lines = [f'/-- {doc} -/', f'def {name} : List (List Char) :=']
    if not xs:
        lines.append('  []')
    for i, x in enumerate(xs):
        lead = '  [' if i == 0 else '   '
        end = ']' if i == len(xs) - 1 else ','
        lines.append(f'{lead}{lean_chars(x)}{end}   -- {ascii(x)}')
    return '\n'.join(lines) + '\n'


# ------------------------------------------------------------------------------------------
# additions for C20: string lists assigned inside a function, repeated assignments, import aliases
# ------------------------------------------------------------------------------------------

def str_list_value(v: Any, what: str = 'value') -> List[str]:
    """a literal list / tuple of strings (anything else is not recognised)"""
    if not isinstance(v, (list, tuple)) or not all(isinstance(x, str) for x in v):
        raise TranslateError(f'{what} is not a list of string literals: {v!r}')
    return list(v)


def assigned_str_list(rel: str, qualname: str, var: str) -> List[str]:
    """the list of string literals of the only assignment `var = [...]` in the function"""
    fn = _function(rel, qualname)
    hits = [n for n in _own_nodes(fn)
            if isinstance(n, ast.Assign) and len(n.targets) == 1 and isinstance(n.targets[0], ast.Name)
            and n.targets[0].id == var]
    if len(hits) != 1:
        raise TranslateError(f'{rel}:{qualname}: expected one assignment to `{var}`, found {len(hits)}')
    if not isinstance(hits[0].value, (ast.List, ast.Tuple)):
        raise TranslateError(f'{rel}:{qualname}: `{var}` is not assigned a list display')
    return str_list_value(literal(hits[0].value), f'{rel}:{qualname}: `{var}`')


def assigned_literals(rel: str, qualname: str, var: str) -> List[Any]:
    """the numeric literals among the plain assignments `var = …` of the function, in source order
    (assignments of other expressions — `var = other_variable` — are skipped; augmented assignments are
    not assignments of a literal)"""
    fn = _function(rel, qualname)
    out = []
    for n in _own_nodes(fn):
        if isinstance(n, ast.Assign) and len(n.targets) == 1 and isinstance(n.targets[0], ast.Name) \
                and n.targets[0].id == var:
            try:
                out.append((n.lineno, n.col_offset, numeric_literal(n.value)))
            except TranslateError:
                pass
    out.sort()
    return [v for _, _, v in out]


def import_alias(rel: str, alias: str) -> str:
    """the dotted module name bound to `alias` by a module-level `import a.b.c as alias` / `import alias`"""
    tree = parse_file(rel)
    found = []
    for n in tree.body:
        if isinstance(n, ast.Import):
            for a in n.names:
                if (a.asname or a.name.split('.')[0]) == alias:
                    found.append(a.name if a.asname else a.name.split('.')[0])
        elif isinstance(n, ast.ImportFrom):
            for a in n.names:
                if (a.asname or a.name) == alias:
                    found.append(f'{"." * n.level}{n.module or ""}.{a.name}')
    if len(found) != 1:
        raise TranslateError(f'{rel}: expected one module-level import binding `{alias}`, found {found}')
    return found[0]


def assigned_dict_str_keys(rel: str, qualname: str, var: str) -> List[str]:
    """the keys (string literals, in source order) of the dict display of the only assignment `var = {...}`
    in the function (`var[k] = …` afterwards is not an assignment to `var`)"""
    fn = _function(rel, qualname)
    hits = [n for n in _own_nodes(fn)
            if isinstance(n, ast.Assign) and len(n.targets) == 1 and isinstance(n.targets[0], ast.Name)
            and n.targets[0].id == var]
    if len(hits) != 1:
        raise TranslateError(f'{rel}:{qualname}: expected one assignment to `{var}`, found {len(hits)}')
    d = hits[0].value
    if not isinstance(d, ast.Dict):
        raise TranslateError(f'{rel}:{qualname}: `{var}` is not assigned a dict display')
    keys = []
    for k in d.keys:
        if not (isinstance(k, ast.Constant) and isinstance(k.value, str)):
            raise TranslateError(f'{rel}:{qualname}: `{var}` has a key that is not a string literal')
        keys.append(k.value)
    return keys


# string / character literals, per-call-site arguments (added for C16 / C17)
# ------------------------------------------------------------------------------------------
# Extended templates: besides `_N<i>` (one numeric literal) a template may have the holes
#   `_S<i>`  one str constant (any length),
#   `_C<i>`  a collection of single characters: a str constant (its characters), or a set / list / tuple
#            display whose elements are all one-character str constants.
# Everything else of the template has to be found in the source exactly, as for `literals_in`.

_X_HOLES = ('_N', '_S', '_C')


def _is_hole_x(node: ast.AST) -> Optional[str]:
    if isinstance(node, ast.Name):
        for p in _X_HOLES:
            if node.id.startswith(p) and node.id[len(p):].isdigit():
                return node.id
    return None


def string_literal(node: ast.AST) -> str:
    if isinstance(node, ast.Constant) and isinstance(node.value, str):
        return node.value
    raise TranslateError(f'not a string literal: {ast.dump(node)[:120]}')


def char_collection(node: ast.AST) -> List[str]:
    """the characters c for which `c in <node>` holds (c one character), in source order, no repeats"""
    if isinstance(node, ast.Constant) and isinstance(node.value, str):
        chars = list(node.value)
    elif isinstance(node, (ast.Set, ast.List, ast.Tuple)):
        chars = []
        for e in node.elts:
            s = string_literal(e)
            if len(s) != 1:
                raise TranslateError(f'element {s!r} of a character collection is not one character')
            chars.append(s)
    else:
        raise TranslateError(f'not a character collection: {ast.dump(node)[:120]}')
    out: List[str] = []
    for c in chars:
        if c not in out:
            out.append(c)
    return out


def _hole_value(hole: str, node: Any) -> Any:
    if not isinstance(node, ast.AST):
        raise TranslateError('no node')
    if hole.startswith('_N'):
        return numeric_literal(node)
    if hole.startswith('_S'):
        return string_literal(node)
    return char_collection(node)


def _match_x(node: Any, tmpl: Any, holes: Dict[str, Any]) -> bool:
    if isinstance(tmpl, ast.AST):
        h = _is_hole_x(tmpl)
        if h is not None:
            try:
                v = _hole_value(h, node)
            except TranslateError:
                return False
            if h in holes and holes[h] != v:
                return False
            holes[h] = v
            return True
        if type(node) is not type(tmpl):
            return False
        for field in tmpl._fields:
            if field in ('ctx', 'kind', 'type_comment'):
                continue
            if not _match_x(getattr(node, field, None), getattr(tmpl, field, None), holes):
                return False
        return True
    if isinstance(tmpl, list):
        return isinstance(node, list) and len(node) == len(tmpl) and \
            all(_match_x(n, t, holes) for n, t in zip(node, tmpl))
    return node == tmpl


def match_template_x(node: ast.AST, template: str) -> Optional[Dict[str, Any]]:
    try:
        t = ast.parse(template, mode='eval').body
    except SyntaxError as e:
        raise TranslateError(f'bad template {template!r}: {e}')
    from harness.astnorm import norm_like
    t = norm_like(node, t)
    holes: Dict[str, Any] = {}
    return holes if _match_x(node, t, holes) else None


def literals_in_x(rel: str, qualname: str, template: str, count: int = 1) -> List[Dict[str, Any]]:
    """as `literals_in`, for templates with `_N`, `_S` and `_C` holes: the hole values of all places of the
    function that are the template, in source order; exactly `count` are required"""
    fn = _function(rel, qualname)
    found = []
    for n in _own_nodes(fn):
        if isinstance(n, ast.expr):
            m = match_template_x(n, template)
            if m is not None:
                found.append((getattr(n, 'lineno', 0), getattr(n, 'col_offset', 0), m))
    found.sort(key=lambda x: (x[0], x[1]))
    if len(found) != count:
        raise TranslateError(f'{rel}:{qualname}: expected {count} occurrence(s) of `{template}`, found {len(found)}')
    return [m for _, _, m in found]


def literal_in_x(rel: str, qualname: str, template: str, hole: str) -> Any:
    m = literals_in_x(rel, qualname, template, 1)[0]
    if hole not in m:
        raise TranslateError(f'template `{template}` has no hole {hole}')
    return m[hole]


def fstring_around(rel: str, qualname: str, inner: str, count: int = 1) -> List[List[str]]:
    """the constant pieces [before, after] of the f-strings f'<before>{<inner>}<after>' of the function
    (`inner` a template without holes, no conversion / format spec), in source order; exactly `count`"""
    fn = _function(rel, qualname)
    found = []
    for n in _own_nodes(fn):
        if isinstance(n, ast.JoinedStr):
            fv = [v for v in n.values if isinstance(v, ast.FormattedValue)]
            if len(fv) != 1 or fv[0].conversion != -1 or fv[0].format_spec is not None or \
                    match_template_x(fv[0].value, inner) is None:
                continue
            i = n.values.index(fv[0])
            before = ''.join(string_literal(v) for v in n.values[:i])
            after = ''.join(string_literal(v) for v in n.values[i + 1:])
            found.append((n.lineno, n.col_offset, [before, after]))
    found.sort(key=lambda x: (x[0], x[1]))
    if len(found) != count:
        raise TranslateError(f'{rel}:{qualname}: expected {count} f-string(s) around `{inner}`, found {len(found)}')
    return [p for _, _, p in found]


def call_arguments_each(rel: str, qualname: str, callee: str, param: str, position: Optional[int],
                        count: int) -> List[Any]:
    """as `call_argument`, but per call site: what each of the exactly `count` calls of `callee` inside
    `qualname` passes for `param`, in source order (a literal of any kind, 'DEFAULT', or ('NAME', id))"""
    fn = _function(rel, qualname)
    seen = []
    for n in _own_nodes(fn):
        if isinstance(n, ast.Call) and _callee_name(n) == callee:
            if any(isinstance(a, ast.Starred) for a in n.args) or any(k.arg is None for k in n.keywords):
                raise TranslateError(f'{rel}:{qualname}: call of {callee} with * / ** arguments')
            node = None
            for k in n.keywords:
                if k.arg == param:
                    node = k.value
            if node is None and position is not None and len(n.args) > position:
                node = n.args[position]
            if node is None:
                v: Any = 'DEFAULT'
            elif isinstance(node, ast.Name):
                v = ('NAME', node.id)
            elif isinstance(node, ast.Constant) and isinstance(node.value, str):
                v = ('STR', node.value)
            else:
                v = numeric_literal(node)
            seen.append((n.lineno, n.col_offset, v))
    seen.sort(key=lambda x: (x[0], x[1]))
    if len(seen) != count:
        raise TranslateError(f'{rel}:{qualname}: expected {count} call(s) of {callee}, found {len(seen)}')
    return [v for _, _, v in seen]


def effective_arguments_each(rel: str, qualname: str, callee: str, param: str, position: Optional[int],
                             count: int, callee_rel: str, callee_qualname: Optional[str] = None) -> List[Any]:
    """per call site (source order) the NUMBER that reaches `param` of `callee`: the literal passed, or the
    callee's default when nothing is passed; a variable or a string is not recognised"""
    out = []
    for a in call_arguments_each(rel, qualname, callee, param, position, count):
        if a == 'DEFAULT':
            d = func_defaults(callee_rel, callee_qualname or callee)
            if param not in d:
                raise TranslateError(f'{callee_rel}:{callee_qualname or callee} has no default for `{param}`')
            out.append(numeric_literal(ast.parse(repr(d[param]), mode='eval').body))
        elif isinstance(a, tuple):
            raise TranslateError(f'{rel}:{qualname}: {callee}({param}={a[1]!r}) does not pass a number')
        else:
            out.append(a)
    return out


def str_default(rel: str, qualname: str, param: str) -> str:
    """the default of parameter `param` of a function, which has to be a str literal"""
    d = func_defaults(rel, qualname)
    if param not in d:
        raise TranslateError(f'{rel}:{qualname} has no default for `{param}`')
    if not isinstance(d[param], str):
        raise TranslateError(f'{rel}:{qualname}: default of `{param}` is {d[param]!r}, not a string')
    return d[param]


def bool_default(rel: str, qualname: str, param: str) -> bool:
    d = func_defaults(rel, qualname)
    if param not in d or not isinstance(d[param], bool):
        raise TranslateError(f'{rel}:{qualname}: default of `{param}` is not a bool literal')
    return d[param]


def as_nat(v: Any) -> int:
    v = as_int(v)
    if v < 0:
        raise TranslateError(f'negative where a count is expected: {v}')
    return v


def one_char(s: str, what: str) -> str:
    if not isinstance(s, str) or len(s) != 1:
        raise TranslateError(f'{what}: {s!r} is not a single character')
    return s


def lean_char_lit(c: str) -> str:
    one_char(c, 'lean_char_lit')
    if c in ("'", '\\'):
        return "'\\" + c + "'"
    if c.isprintable() and not c.isspace() or c == ' ':
        return f"'{c}'"
    return f'(Char.ofNat {ord(c)})'


def lean_char_list(s) -> str:
    """a str (or list of one-character strs) as a Lean `List Char` literal"""
    return '[' + ', '.join(lean_char_lit(c) for c in s) + ']'


def lean_bool(b: bool) -> str:
    if not isinstance(b, bool):
        raise TranslateError(f'not a bool: {b!r}')
    return 'true' if b else 'false'


def char_collection_default(rel: str, qualname: str, param: str) -> List[str]:
    """the default of `param` as the characters c with `c in default`: a str literal (its characters, in
    order) or a set / list / tuple literal of one-character strings (sorted)"""
    d = func_defaults(rel, qualname)
    if param not in d:
        raise TranslateError(f'{rel}:{qualname} has no default for `{param}`')
    v = d[param]
    if isinstance(v, str):
        chars = list(v)
    elif isinstance(v, (set, frozenset, list, tuple)) and all(isinstance(x, str) and len(x) == 1 for x in v):
        chars = sorted(v)
    else:
        raise TranslateError(f'{rel}:{qualname}: default of `{param}` is {v!r}, not a collection of characters')
    out: List[str] = []
    for c in chars:
        if c not in out:
            out.append(c)
    return out
