#!/venv/bin/python
"""List / copy the files an agent's working copy adds or changes relative to /verif.
Only files the copy changed ITSELF (relative to the commit it was copied at, `git status` in the copy) are
considered, so that copies taken at the same commit can be integrated one after the other without the later
ones copying back the older versions of files the earlier ones changed.
usage: tools_integrate.py <copy-dir> [--apply] [--skip path …]"""
import filecmp, os, shutil, subprocess, sys
copy = sys.argv[1].rstrip('/')
apply = '--apply' in sys.argv
skip = set()
if '--skip' in sys.argv:
    skip = set(sys.argv[sys.argv.index('--skip') + 1:])
IGN = ('.lake', '__pycache__', '.git', 'evidence', 'replays', 'seeded', 'repo_mut', '.build.lock')
PROTECT = {'harness/core.py', 'run_check.py', 'DESIGN.md', 'properties.jsonl', 'MANIFEST.json', 'tools_manifest.py',
           'tools_seeded.py', 'tools_integrate.py', 'harness/BUILDING.md', 'harness/replay.py', 'lean/Main.lean',
           'lean/lakefile.toml', 'lean/PagexmlModel/Drv/All.lean', 'lean/PagexmlModel/Drv/Util.lean',
           'lean/PagexmlModel/Basic/Err.lean', 'known_findings.json', '.gitignore', 'lean/lake-manifest.json',
           'harness/props/c03.py', 'harness/props/c10.py', 'harness/translate.py'}
_st = subprocess.run(['git', '-C', copy, 'status', '--porcelain', '--untracked-files=all'], stdout=subprocess.PIPE)
TOUCHED = {l[3:].split(' -> ')[-1].strip('"') for l in _st.stdout.decode().split('\n') if l.strip()} if _st.returncode == 0 else None
for root, dirs, files in os.walk(copy):
    dirs[:] = [d for d in dirs if d not in IGN and not d.startswith('repo')]
    for f in files:
        src = os.path.join(root, f)
        rel = os.path.relpath(src, copy)
        dst = os.path.join('/verif', rel)
        if f.endswith('.pyc') or rel in skip or (TOUCHED is not None and rel not in TOUCHED):
            continue
        if not os.path.exists(dst):
            status = 'NEW'
        elif not filecmp.cmp(src, dst, shallow=False):
            status = 'CHANGED'
        else:
            continue
        prot = rel in PROTECT or rel.startswith('lean/PagexmlModel/Model/C03') or rel.startswith('lean/PagexmlModel/Model/C10') \
            or rel.startswith('lean/PagexmlModel/Props/C03') or rel.startswith('lean/PagexmlModel/Props/C10') \
            or rel.startswith('lean/PagexmlModel/Drv/C03') or rel.startswith('lean/PagexmlModel/Drv/C10') \
            or rel.startswith('lean/PagexmlModel/Generated/C10')
        print(status, 'PROTECTED' if prot else '', rel)
        if apply and not prot:
            os.makedirs(os.path.dirname(dst), exist_ok=True)
            shutil.copy2(src, dst)
