#!/usr/bin/env python
"""Witness: shows that the patch in this directory changes observable behaviour w.r.t. the clean base commit.

Self-contained: exports the base commit of /repo into a temporary directory, applies patch.diff to a second
copy, runs the PROBE below against both trees (PYTHONPATH) and prints both outputs.
Exit status 0 iff the two outputs differ (= the behavioural difference is demonstrated)."""
import json
import os
import subprocess
import sys
import tempfile

HERE = os.path.dirname(os.path.abspath(__file__))
REPO = os.environ.get('PAGEXML_REPO', '/repo')
PYTHON = os.environ.get('PAGEXML_PYTHON', '/venv/bin/python')
BASE = json.load(open(os.path.join(HERE, 'meta.json')))['base_commit']

PROBE = r'''
from pagexml.parser import parse_pagexml_file
NS = 'http://schema.primaresearch.org/PAGE/gts/pagecontent/2013-07-15'

def make_xml(order_refs):
    refs = ''.join(f'<RegionRefIndexed index="{index}" regionRef="{ref}"/>' for index, ref in order_refs)
    regions = ''.join(
        f'<TextRegion id="{rid}"><Coords points="0,{y} 100,{y} 100,{y + 40} 0,{y + 40}"/>'
        f'<TextLine id="{rid}-l"><Coords points="0,{y} 100,{y} 100,{y + 40} 0,{y + 40}"/>'
        f'<TextEquiv><Unicode>{rid}</Unicode></TextEquiv></TextLine></TextRegion>'
        for rid, y in [('r1', 0), ('r2', 100), ('r3', 200)])
    return (f'<?xml version="1.0" encoding="UTF-8"?><PcGts xmlns="{NS}"><Metadata/>'
            f'<Page imageFilename="s.jpg" imageWidth="500" imageHeight="500">'
            f'<ReadingOrder><OrderedGroup id="ro">{refs}</OrderedGroup></ReadingOrder>{regions}</Page></PcGts>')

for label, refs in [('complete (3,1,2)', [(0, 'r3'), (1, 'r1'), (2, 'r2')]),
                    ('partial (r3,r1 only)', [(0, 'r3'), (1, 'r1')]),
                    ('partial + dangling', [(0, 'r3'), (1, 'nope')])]:
    scan = parse_pagexml_file('f.xml', pagexml_data=make_xml(refs))
    print(f'{label:22} regions={[tr.id for tr in scan.text_regions]} lines={[l.id for l in scan.get_lines()]} '
          f'in_order={[tr.id for tr in scan.get_text_regions_in_reading_order()]} '
          f'reading_order={scan.reading_order!r}')
'''


def export_tree(target):
    os.makedirs(target)
    archive = subprocess.run(['git', '-C', REPO, 'archive', BASE, 'pagexml'], check=True, capture_output=True).stdout
    subprocess.run(['tar', '-x', '-C', target], input=archive, check=True)


def run_probe(tree, workdir):
    env = dict(os.environ, PYTHONPATH=tree, PYTHONDONTWRITEBYTECODE='1')
    proc = subprocess.run([PYTHON, '-c', PROBE], env=env, cwd=workdir, capture_output=True, text=True)
    return proc.stdout + (('[stderr] ' + proc.stderr.strip().splitlines()[-1] + '\n') if proc.returncode else '')


def main():
    with tempfile.TemporaryDirectory() as tmp:
        clean, patched = os.path.join(tmp, 'clean'), os.path.join(tmp, 'patched')
        export_tree(clean)
        export_tree(patched)
        subprocess.run(['git', 'apply', os.path.join(HERE, 'patch.diff')], cwd=patched, check=True)
        os.makedirs(os.path.join(tmp, 'w1'))
        os.makedirs(os.path.join(tmp, 'w2'))
        out_clean = run_probe(clean, os.path.join(tmp, 'w1'))
        out_patched = run_probe(patched, os.path.join(tmp, 'w2'))
    print('--- clean base commit', BASE[:8])
    print(out_clean, end='')
    print('--- with patch.diff applied')
    print(out_patched, end='')
    if out_clean == out_patched:
        print('=== NO DIFFERENCE OBSERVED')
        return 1
    print('=== behaviour differs')
    return 0


if __name__ == '__main__':
    sys.exit(main())
