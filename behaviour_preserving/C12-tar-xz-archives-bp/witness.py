#!/usr/bin/env python3
"""Witness: C12 - xz-compressed tar archives (.tar.xz, .txz) are read like the other tar flavours

Builds two source trees from the base commit of /repo (clean, and clean + patch.diff of this
directory), runs the same snippet against both and prints the two outputs. Exit status 0 means
the observable behaviour differs (and both runs completed)."""
import os
import subprocess
import sys
import tempfile

HERE = os.path.dirname(os.path.abspath(__file__))
BASE_COMMIT = 'd748213a6115712fa1a9efd59f7055db42a2823a'
REPO = os.environ.get('PAGEXML_REPO', '/repo')
PYTHON = os.environ.get('PAGEXML_PYTHON', '/venv/bin/python' if os.path.exists('/venv/bin/python') else sys.executable)

SNIPPET = r'''
import io, json, os, tarfile, tempfile, zipfile
from pagexml.helper.file_helper import read_page_archive_file
from pagexml.parser import parse_pagexml_files_from_archive, parse_pagexml_file
xml = ('<?xml version="1.0" encoding="UTF-8"?><PcGts xmlns="http://schema.primaresearch.org/PAGE/gts/pagecontent/2013-07-15">'
       '<Metadata><Creator>w</Creator></Metadata><Page imageFilename="s.jpg" imageWidth="1000" imageHeight="800">'
       '<TextRegion id="r"><Coords points="0,0 9,0 9,9 0,9"/><TextLine id="l"><Coords points="0,0 9,0 9,9 0,9"/>'
       '<TextEquiv><Unicode>t</Unicode></TextEquiv></TextLine></TextRegion></Page></PcGts>').encode()
members = [('dir/a.xml', xml), ('dir/sub/notes.txt', 'caf\u00e9'.encode()), ('empty.bin', b'')]
def write_tar(path, mode):
    with tarfile.open(path, mode) as th:
        for name, data in members:
            info = tarfile.TarInfo(name); info.size = len(data); th.addfile(info, io.BytesIO(data))
tmp = tempfile.mkdtemp()
def listing(path):
    try:
        return [(info['archived_filename'], info['archived_filepath'], len(data)) for info, data in read_page_archive_file(path)]
    except Exception as err:
        return f'{type(err).__name__}: {err}'.replace(tmp, '<tmp>')
for ext, mode in (('.tar.gz', 'w:gz'), ('.tbz2', 'w:bz2'), ('.tar.xz', 'w:xz'), ('.txz', 'w:xz')):
    path = os.path.join(tmp, 'docs' + ext); write_tar(path, mode)
    print(ext, listing(path))
path = os.path.join(tmp, 'docs.tar.xz')
alone = parse_pagexml_file('a.xml', pagexml_data=xml.decode())
try:
    scans = list(parse_pagexml_files_from_archive(path))
    print('scans from .tar.xz:', [(s.id, s.stats['lines'], {k: v for k, v in s.json.items() if k != 'metadata'} == {k: v for k, v in alone.json.items() if k != 'metadata'}) for s in scans])
except Exception as err:
    print('scans from .tar.xz:', type(err).__name__)
'''


def make_tree(dest, patch=None):
    os.makedirs(dest)
    archive = subprocess.run(['git', '-C', REPO, 'archive', BASE_COMMIT], check=True,
                             stdout=subprocess.PIPE).stdout
    subprocess.run(['tar', '-x', '-C', dest], input=archive, check=True)
    if patch is not None:
        subprocess.run(['git', 'apply', patch], cwd=dest, check=True)


def run(tree):
    env = dict(os.environ, PYTHONPATH=tree, PYTHONDONTWRITEBYTECODE='1')
    proc = subprocess.run([PYTHON, '-c', SNIPPET], cwd=tree, env=env, capture_output=True, text=True)
    if proc.returncode != 0:
        print(proc.stdout)
        print(proc.stderr, file=sys.stderr)
        raise SystemExit(f'snippet failed in {tree}')
    return proc.stdout


def main():
    with tempfile.TemporaryDirectory() as tmp:
        clean, patched = os.path.join(tmp, 'clean'), os.path.join(tmp, 'patched')
        make_tree(clean)
        make_tree(patched, patch=os.path.join(HERE, 'patch.diff'))
        out_clean, out_patched = run(clean), run(patched)
    print('=== clean HEAD ===')
    print(out_clean.rstrip())
    print('=== with patch ===')
    print(out_patched.rstrip())
    if out_clean == out_patched:
        print('NO DIFFERENCE OBSERVED')
        return 1
    print('=== behaviour differs ===')
    return 0


if __name__ == '__main__':
    sys.exit(main())
