#!/usr/bin/env python3
"""Witness: C15 - an invalid reading direction is rejected even when there is no line (with text) to order

Builds two source trees from the base commit of /repo (clean, and clean + patch.diff of this
directory), runs the same snippet against both and prints the two outputs. Exit status 0 means
the observable behaviour differs (and both runs completed)."""
import os
import subprocess
import sys
import tempfile

HERE = os.path.dirname(os.path.abspath(__file__))
BASE_COMMIT = 'd748213a6115712fa1a9efd59f7055db42a2823a'
REPO = os.environ.get('PAGEXML_REPO', '/repo')
PYTHON = os.environ.get('PAGEXML_PYTHON', '/venv/bin/python' if os.path.exists('/venv/bin/python') else sys.executable)

SNIPPET = r'''
import pagexml.model.physical_document_model as pdm
from pagexml.helper.pagexml_helper import sort_lines_in_reading_direction, sort_lines_in_reading_order
def line(lid, x, y, text='text'):
    return pdm.PageXMLTextLine(doc_id=lid, coords=pdm.Coords([(x, y), (x + 300, y), (x + 300, y + 40), (x, y + 40)]),
                               baseline=pdm.Baseline([(x, y + 35), (x + 300, y + 35)]), text=text)
grid = [line('r1c2', 400, 102), line('r2c1', 0, 200), line('r1c1', 0, 100), line('r2c2', 400, 198)]
for direction in ('ltr', 'rtl'):
    print(direction, [l.id for l in sort_lines_in_reading_direction(grid, direction)])
# outside C15: a direction that is neither ltr nor rtl, for inputs without any line that has text
no_text = [line('n1', 0, 0, text=None)]
region = pdm.PageXMLTextRegion(doc_id='empty', coords=pdm.Coords([(0, 0), (10, 10)]))
for title, call in (('no lines', lambda: list(sort_lines_in_reading_direction([], 'ttb'))),
                    ('only lines without text', lambda: list(sort_lines_in_reading_direction(no_text, 'ttb'))),
                    ('empty region, row order', lambda: list(sort_lines_in_reading_order(region, row_order=True, reading_direction='ttb'))),
                    ('grid', lambda: list(sort_lines_in_reading_direction(grid, 'ttb')))):
    try:
        print(f"direction 'ttb', {title}:", call())
    except ValueError as err:
        print(f"direction 'ttb', {title}: ValueError {err}")
'''


def make_tree(dest, patch=None):
    os.makedirs(dest)
    archive = subprocess.run(['git', '-C', REPO, 'archive', BASE_COMMIT], check=True,
                             stdout=subprocess.PIPE).stdout
    subprocess.run(['tar', '-x', '-C', dest], input=archive, check=True)
    if patch is not None:
        subprocess.run(['git', 'apply', patch], cwd=dest, check=True)


def run(tree):
    env = dict(os.environ, PYTHONPATH=tree, PYTHONDONTWRITEBYTECODE='1')
    proc = subprocess.run([PYTHON, '-c', SNIPPET], cwd=tree, env=env, capture_output=True, text=True)
    if proc.returncode != 0:
        print(proc.stdout)
        print(proc.stderr, file=sys.stderr)
        raise SystemExit(f'snippet failed in {tree}')
    return proc.stdout


def main():
    with tempfile.TemporaryDirectory() as tmp:
        clean, patched = os.path.join(tmp, 'clean'), os.path.join(tmp, 'patched')
        make_tree(clean)
        make_tree(patched, patch=os.path.join(HERE, 'patch.diff'))
        out_clean, out_patched = run(clean), run(patched)
    print('=== clean HEAD ===')
    print(out_clean.rstrip())
    print('=== with patch ===')
    print(out_patched.rstrip())
    if out_clean == out_patched:
        print('NO DIFFERENCE OBSERVED')
        return 1
    print('=== behaviour differs ===')
    return 0


if __name__ == '__main__':
    sys.exit(main())
