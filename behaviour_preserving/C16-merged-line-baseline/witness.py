#!/usr/bin/env python
"""Witness: shows that the patch in this directory changes observable behaviour w.r.t. the clean base commit.

Self-contained: exports the base commit of /repo into a temporary directory, applies patch.diff to a second
copy, runs the PROBE below against both trees (PYTHONPATH) and prints both outputs.
Exit status 0 iff the two outputs differ (= the behavioural difference is demonstrated)."""
import json
import os
import subprocess
import sys
import tempfile

HERE = os.path.dirname(os.path.abspath(__file__))
REPO = os.environ.get('PAGEXML_REPO', '/repo')
PYTHON = os.environ.get('PAGEXML_PYTHON', '/venv/bin/python')
BASE = json.load(open(os.path.join(HERE, 'meta.json')))['base_commit']

PROBE = r'''
import pagexml.model.physical_document_model as pdm
from pagexml.helper.pagexml_helper import merge_lines, make_text_region_text

def mk(line_id, x, y, w, h, text, with_baseline=True):
    baseline = pdm.Baseline([(x, y + h - 5), (x + w, y + h - 8)]) if with_baseline else None
    return pdm.PageXMLTextLine(doc_id=line_id, coords=pdm.Coords([(x, y), (x + w, y), (x + w, y + h), (x, y + h)]),
                               baseline=baseline, text=text)

lines = [mk('l1', 0, 0, 300, 40, 'de ver-'), mk('l2', 10, 50, 280, 40, 'gadering van'), mk('l3', 0, 100, 120, 40, 'heden')]
region = pdm.PageXMLTextRegion(doc_id='r1', coords=pdm.Coords([(0, 0), (300, 0), (300, 140), (0, 140)]), lines=lines)
for flag in (False, True):
    merged = merge_lines(lines, remove_word_break=flag, word_break_char='-')
    print(f'remove_word_break={flag}: text={merged.text!r} coords={merged.coords.box} '
          f'baseline={merged.baseline.points if merged.baseline else None}')
    print('   json keys:', sorted(merged.json))
mixed = merge_lines([lines[0], mk('l4', 0, 50, 100, 40, 'x', with_baseline=False)])
print('one line without baseline: baseline =', mixed.baseline)
print('paragraph:', make_text_region_text(lines))
'''


def export_tree(target):
    os.makedirs(target)
    archive = subprocess.run(['git', '-C', REPO, 'archive', BASE, 'pagexml'], check=True, capture_output=True).stdout
    subprocess.run(['tar', '-x', '-C', target], input=archive, check=True)


def run_probe(tree, workdir):
    env = dict(os.environ, PYTHONPATH=tree, PYTHONDONTWRITEBYTECODE='1')
    proc = subprocess.run([PYTHON, '-c', PROBE], env=env, cwd=workdir, capture_output=True, text=True)
    return proc.stdout + (('[stderr] ' + proc.stderr.strip().splitlines()[-1] + '\n') if proc.returncode else '')


def main():
    with tempfile.TemporaryDirectory() as tmp:
        clean, patched = os.path.join(tmp, 'clean'), os.path.join(tmp, 'patched')
        export_tree(clean)
        export_tree(patched)
        subprocess.run(['git', 'apply', os.path.join(HERE, 'patch.diff')], cwd=patched, check=True)
        os.makedirs(os.path.join(tmp, 'w1'))
        os.makedirs(os.path.join(tmp, 'w2'))
        out_clean = run_probe(clean, os.path.join(tmp, 'w1'))
        out_patched = run_probe(patched, os.path.join(tmp, 'w2'))
    print('--- clean base commit', BASE[:8])
    print(out_clean, end='')
    print('--- with patch.diff applied')
    print(out_patched, end='')
    if out_clean == out_patched:
        print('=== NO DIFFERENCE OBSERVED')
        return 1
    print('=== behaviour differs')
    return 0


if __name__ == '__main__':
    sys.exit(main())
