#!/usr/bin/env python3
"""Witness: C06 - rebuilding the JSON view of a table region / row / cell on its own raises TypeError instead of returning None

Builds two source trees from the base commit of /repo (clean, and clean + patch.diff of this
directory), runs the same snippet against both and prints the two outputs. Exit status 0 means
the observable behaviour differs (and both runs completed)."""
import os
import subprocess
import sys
import tempfile

HERE = os.path.dirname(os.path.abspath(__file__))
BASE_COMMIT = 'd748213a6115712fa1a9efd59f7055db42a2823a'
REPO = os.environ.get('PAGEXML_REPO', '/repo')
PYTHON = os.environ.get('PAGEXML_PYTHON', '/venv/bin/python' if os.path.exists('/venv/bin/python') else sys.executable)

SNIPPET = r'''
import json
import pagexml.model.physical_document_model as pdm
from pagexml.parser import parse_pagexml_from_json
box = pdm.Coords([(0, 0), (100, 0), (100, 20), (0, 20)])
line = pdm.PageXMLTextLine(doc_id='l1', coords=box, text='a b')
cell = pdm.PageXMLTableCell(doc_id='c1', coords=box, row=0, col=0, lines=[line])
row = pdm.PageXMLTableRow(doc_id='row0', coords=box, cells=[cell])
table = pdm.PageXMLTableRegion(doc_id='t1', coords=box, rows=[row])
region = pdm.PageXMLTextRegion(doc_id='r1', coords=box, lines=[pdm.PageXMLTextLine(doc_id='l2', coords=box, text='c')])
print('text region round trip identical:', json.dumps(parse_pagexml_from_json(json.dumps(region.json)).json) == json.dumps(region.json))
for doc in (table, row, cell):    # not among the classes C06 lists (scan, page, column, text region, line, word)
    try:
        print(doc.main_type, '->', parse_pagexml_from_json(doc.json))
    except Exception as err:
        print(doc.main_type, '->', type(err).__name__, err)
'''


def make_tree(dest, patch=None):
    os.makedirs(dest)
    archive = subprocess.run(['git', '-C', REPO, 'archive', BASE_COMMIT], check=True,
                             stdout=subprocess.PIPE).stdout
    subprocess.run(['tar', '-x', '-C', dest], input=archive, check=True)
    if patch is not None:
        subprocess.run(['git', 'apply', patch], cwd=dest, check=True)


def run(tree):
    env = dict(os.environ, PYTHONPATH=tree, PYTHONDONTWRITEBYTECODE='1')
    proc = subprocess.run([PYTHON, '-c', SNIPPET], cwd=tree, env=env, capture_output=True, text=True)
    if proc.returncode != 0:
        print(proc.stdout)
        print(proc.stderr, file=sys.stderr)
        raise SystemExit(f'snippet failed in {tree}')
    return proc.stdout


def main():
    with tempfile.TemporaryDirectory() as tmp:
        clean, patched = os.path.join(tmp, 'clean'), os.path.join(tmp, 'patched')
        make_tree(clean)
        make_tree(patched, patch=os.path.join(HERE, 'patch.diff'))
        out_clean, out_patched = run(clean), run(patched)
    print('=== clean HEAD ===')
    print(out_clean.rstrip())
    print('=== with patch ===')
    print(out_patched.rstrip())
    if out_clean == out_patched:
        print('NO DIFFERENCE OBSERVED')
        return 1
    print('=== behaviour differs ===')
    return 0


if __name__ == '__main__':
    sys.exit(main())
