#!/usr/bin/env python3
"""Witness: C03 - Coords / Baseline accept a tuple of points as a third input form

Builds two source trees from the base commit of /repo (clean, and clean + patch.diff of this
directory), runs the same snippet against both and prints the two outputs. Exit status 0 means
the observable behaviour differs (and both runs completed)."""
import os
import subprocess
import sys
import tempfile

HERE = os.path.dirname(os.path.abspath(__file__))
BASE_COMMIT = 'd748213a6115712fa1a9efd59f7055db42a2823a'
REPO = os.environ.get('PAGEXML_REPO', '/repo')
PYTHON = os.environ.get('PAGEXML_PYTHON', '/venv/bin/python' if os.path.exists('/venv/bin/python') else sys.executable)

SNIPPET = r'''
from pagexml.model.coords import Coords, Baseline
for cls, points in ((Coords, ((5, 7), (1, 9), (3, 2))), (Baseline, ((0, 4), (10, 6)))):
    try:
        c = cls(points)       # a TUPLE of points: neither of the two input forms C03 talks about
        print(cls.__name__, 'accepted:', c.points, c.box, repr(c.point_string))
    except Exception as err:
        print(cls.__name__, 'rejected:', type(err).__name__, err)
for bad in ((), ((1.5, 2),)):
    try:
        Coords(bad); print('accepted', bad)
    except Exception as err:
        print('rejected', bad, type(err).__name__)
'''


def make_tree(dest, patch=None):
    os.makedirs(dest)
    archive = subprocess.run(['git', '-C', REPO, 'archive', BASE_COMMIT], check=True,
                             stdout=subprocess.PIPE).stdout
    subprocess.run(['tar', '-x', '-C', dest], input=archive, check=True)
    if patch is not None:
        subprocess.run(['git', 'apply', patch], cwd=dest, check=True)


def run(tree):
    env = dict(os.environ, PYTHONPATH=tree, PYTHONDONTWRITEBYTECODE='1')
    proc = subprocess.run([PYTHON, '-c', SNIPPET], cwd=tree, env=env, capture_output=True, text=True)
    if proc.returncode != 0:
        print(proc.stdout)
        print(proc.stderr, file=sys.stderr)
        raise SystemExit(f'snippet failed in {tree}')
    return proc.stdout


def main():
    with tempfile.TemporaryDirectory() as tmp:
        clean, patched = os.path.join(tmp, 'clean'), os.path.join(tmp, 'patched')
        make_tree(clean)
        make_tree(patched, patch=os.path.join(HERE, 'patch.diff'))
        out_clean, out_patched = run(clean), run(patched)
    print('=== clean HEAD ===')
    print(out_clean.rstrip())
    print('=== with patch ===')
    print(out_patched.rstrip())
    if out_clean == out_patched:
        print('NO DIFFERENCE OBSERVED')
        return 1
    print('=== behaviour differs ===')
    return 0


if __name__ == '__main__':
    sys.exit(main())
