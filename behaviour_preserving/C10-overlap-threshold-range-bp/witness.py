#!/usr/bin/env python3
"""Witness: C10 - regions_overlap rejects a threshold outside [0, 1] instead of answering

Builds two source trees from the base commit of /repo (clean, and clean + patch.diff of this
directory), runs the same snippet against both and prints the two outputs. Exit status 0 means
the observable behaviour differs (and both runs completed)."""
import os
import subprocess
import sys
import tempfile

HERE = os.path.dirname(os.path.abspath(__file__))
BASE_COMMIT = 'd748213a6115712fa1a9efd59f7055db42a2823a'
REPO = os.environ.get('PAGEXML_REPO', '/repo')
PYTHON = os.environ.get('PAGEXML_PYTHON', '/venv/bin/python' if os.path.exists('/venv/bin/python') else sys.executable)

SNIPPET = r'''
import pagexml.model.physical_document_model as pdm
from pagexml.helper.pagexml_helper import regions_overlap
def region(rid, x, y, w, h):
    return pdm.PageXMLTextRegion(doc_id=rid, coords=pdm.Coords([(x, y), (x + w, y), (x + w, y + h), (x, y + h)]))
a, b, none = region('a', 0, 0, 100, 100), region('b', 50, 50, 100, 100), pdm.PageXMLTextRegion(doc_id='none')
print('thresholds inside (0,1):', [(t, regions_overlap(a, b, threshold=t), regions_overlap(b, a, threshold=t)) for t in (0.01, 0.25, 0.5, 0.75, 0.99)])
print('reflexive, no coords   :', regions_overlap(a, a), regions_overlap(a, none))
for t in (1.5, -0.2, 60):       # outside C10: thresholds that are not fractions (60 meant as a percentage)
    try:
        print('threshold', t, '->', regions_overlap(a, a, threshold=t))
    except ValueError as err:
        print('threshold', t, '-> ValueError:', err)
'''


def make_tree(dest, patch=None):
    os.makedirs(dest)
    archive = subprocess.run(['git', '-C', REPO, 'archive', BASE_COMMIT], check=True,
                             stdout=subprocess.PIPE).stdout
    subprocess.run(['tar', '-x', '-C', dest], input=archive, check=True)
    if patch is not None:
        subprocess.run(['git', 'apply', patch], cwd=dest, check=True)


def run(tree):
    env = dict(os.environ, PYTHONPATH=tree, PYTHONDONTWRITEBYTECODE='1')
    proc = subprocess.run([PYTHON, '-c', SNIPPET], cwd=tree, env=env, capture_output=True, text=True)
    if proc.returncode != 0:
        print(proc.stdout)
        print(proc.stderr, file=sys.stderr)
        raise SystemExit(f'snippet failed in {tree}')
    return proc.stdout


def main():
    with tempfile.TemporaryDirectory() as tmp:
        clean, patched = os.path.join(tmp, 'clean'), os.path.join(tmp, 'patched')
        make_tree(clean)
        make_tree(patched, patch=os.path.join(HERE, 'patch.diff'))
        out_clean, out_patched = run(clean), run(patched)
    print('=== clean HEAD ===')
    print(out_clean.rstrip())
    print('=== with patch ===')
    print(out_patched.rstrip())
    if out_clean == out_patched:
        print('NO DIFFERENCE OBSERVED')
        return 1
    print('=== behaviour differs ===')
    return 0


if __name__ == '__main__':
    sys.exit(main())
